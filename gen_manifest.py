#!/usr/bin/env python3
"""Generates /verif/MANIFEST.json from the table below (kept in one place so the
manifest never drifts from what the checker implements)."""
import json, os, subprocess

HERE = os.path.dirname(os.path.abspath(__file__))

# property -> (claimed?, technique, level text, level note, design ref)
P = {}

def claim(pid, technique, text, note):
    P[pid] = dict(technique=technique, text=text, note=note)

NA = {}
def na(pid, reason):
    NA[pid] = reason

TRUST = ("Trusted: go/packages + go/types + go/ssa (x/tools v0.29.0) model the source faithfully; "
         "third-party libraries (smux, go-multistream, gorilla/websocket, kcp-go, miekg/dns, crypto/tls, encoding/*) "
         "are not analysed — facts used about them are listed in the evidence file's trusted_base. "
         "The rules decide structural necessary conditions on all paths / call sites / table entries of /repo's current source; "
         "they do not decide the runtime behaviour itself.")

exec(open(os.path.join(HERE, "manifest_table.py")).read())

checks = []
for pid in sorted(P):
    d = P[pid]
    checks.append({
        "property_id": pid,
        "quick_cmd": f"./check {pid} quick",
        "thorough_cmd": f"./check {pid} thorough",
        "evidence_file": f"/verif/evidence/{pid}.json",
        "replay_cmd_template": f"./check {pid} quick  # deterministic; violations listed in {{path}}",
        "engine": "sacheck",
        "level_claimed": {"category": "other", "text": d["text"], "design_ref": f"DESIGN.md §4 {pid}"},
        "level_note": d["note"] + " " + TRUST,
        "technique": d["technique"],
    })

m = {
    "version": 1,
    "setup_cmd": "cd /verif/sa && GOFLAGS=-mod=mod GOPROXY=off GOSUMDB=off GOTOOLCHAIN=local GOWORK=off CGO_ENABLED=0 go build -o /verif/bin/sacheck .",
    "hooks": {
        "guard": "verif",
        "enable": "none needed: the checks analyse /repo's source statically (go/packages, no build tags); no hook commits exist",
        "baseline_off_cmd": "cd /repo && GOFLAGS=-mod=mod go test -vet=off -count=1 -timeout 25m ./...",
        "source_commits": [],
        "add_only": True,
    },
    "engines": [{
        "name": "sacheck",
        "path": "/verif/sa",
        "serves_properties": sorted(P),
        "kind_free_text": "repository-specific static analyser (Go, golang.org/x/tools v0.29.0: go/packages, go/types, go/ssa, call graph CHA/VTA): per-property rules over the type-checked AST, SSA paths, dominance, provenance slices, who-may-write/call tables and constant relations; every rule instance is an obligation keyed by rule+construct",
    }],
    "checks": checks,
    "not_applicable": [{"property_id": k, "reason": v} for k, v in sorted(NA.items())],
    "notes": "All checks are static analysis of /repo's current working tree (no socketace code is run). Exit 0 = every obligation holds or is a listed known finding (KNOWN-FINDING lines); exit 1 + VIOLATION line otherwise, including 'undecided' (anchor missing, idiom not understood, vacuous rule). known_findings.jsonl lists recorded defects and fixed ones. Thorough tier adds the VTA call graph, cross-configuration loads (GOOS=windows/darwin, GOARCH=386), rule self-tests and mutation self-tests on scratch copies.",
}
json.dump(m, open(os.path.join(HERE, "MANIFEST.json"), "w"), indent=1)
print("MANIFEST.json:", len(checks), "checks,", len(NA), "not applicable")
