# One entry per property: claim(...) once its rules are implemented, else na(...)
# with the reason. Executed by gen_manifest.py.

PENDING = "rules designed in DESIGN.md §4 but not implemented in the checker yet; not claimed until they are"

claim("C19",
      "typestate rule over SSA paths + who-may-write + constructor provenance",
      "Decides, for all sequential call histories, the typestate shape that makes Close idempotent: per flag-carrying wrapper "
      "all SSA paths of Close (flag set: no inner close, nil; flag clear: exactly one inner close, flag stored true, its error "
      "returned), Closed returns the flag, only Close stores the flag (who-may-write over the whole module), every other closer "
      "type of package streams promotes Close/Closed from an embedded field that every composite literal fills from a NewSafe* "
      "constructor, the reader+writer pair closes both halves on all paths and reports the conjunction, TryClose/LogClose consult "
      "Closed() first. Near-sufficient for the sequential property by induction on nesting depth; structural, not behavioural.",
      "Not decided: concurrent Close calls, String() on cyclic Unwrap chains, the underlying resources' own Close.")

for pid in ["C01","C02","C03","C04","C05","C06","C07","C08","C09","C10","C11","C12","C13","C14","C15","C16","C17","C18"]:
    if pid not in P:
        na(pid, PENDING)
