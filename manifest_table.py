# One entry per property: claim(...) once its rules are implemented, else na(...)
# with the reason. Executed by gen_manifest.py.

PENDING = "rules designed in DESIGN.md §4 but not implemented in the checker yet; not claimed until they are"

claim("C19",
      "typestate rule over SSA paths + who-may-write + constructor provenance",
      "Decides, for all sequential call histories, the typestate shape that makes Close idempotent: per flag-carrying wrapper "
      "all SSA paths of Close (flag set: no inner close, nil; flag clear: exactly one inner close, flag stored true, its error "
      "returned), Closed returns the flag, only Close stores the flag (who-may-write over the whole module), every other closer "
      "type of package streams promotes Close/Closed from an embedded field that every composite literal fills from a NewSafe* "
      "constructor, the reader+writer pair closes both halves on all paths and reports the conjunction, TryClose/LogClose consult "
      "Closed() first. Near-sufficient for the sequential property by induction on nesting depth; structural, not behavioural. No method other than Close closes the wrapped resource (R19.6).",
      "Not decided: concurrent Close calls, String() on cyclic Unwrap chains, the underlying resources' own Close.")

claim("C02",
      "accept-loop shape analysis over SSA + synchronous call cone; field-type and receiver-store scan; critical-section cone",
      "Decides structural necessary conditions of per-stream independence on every path: neither the server's per-session stream "
      "accept loop nor the client's local accept loop synchronously runs anything that can wait on the accepted stream (call cone "
      "to blocking primitives); Channel implementations hold no connection state and OpenConnection never stores into its receiver; "
      "no OpenStream / protocol selection inside the upstream mutex. every io.CopyBuffer scratch buffer is allocated per copy; the shared physical connection/session is closed only by a failed session set-up or Shutdown, never by a per-channel path. accept loops do not park on channels / sync waits; every serving goroutine gets the stream of its own iteration (no shared re-assigned variable); Upstreams.Shutdown is not called from the client's connection path (unless the session is known dead); the smux receive bucket shared by all streams is not reduced below the library default; Does not decide scheduling, smux flow control or byte isolation inside smux. Per-connection goroutines (go targets inside accept loops), their same-receiver helpers and per-connection closures store nothing into the object they all share. The shared physical session is (re)opened only under the mutex and under a reuse test made while it is held. The code that runs for one logical connection never closes the multiplexer session shared by all of them (R02.10). No type assertion that can panic in the server's per-connection code (R02.11).",
      "Not decided: fairness, smux's shared receive buffer, the multistream/smux first-frame race.")

claim("C14",
      "channel send/receive/capacity counting on SSA, close-on-all-paths (with defers and callers), accept-loop error-edge path enumeration",
      "Decides the structural conditions without which finished connections leave residue, on all paths: every completion-report channel "
      "can absorb all reports of its sender goroutines (capacity + guaranteed receives >= sends); after PipeData both ends are closed on "
      "every path (inside it, or in each caller, its defers, or its callers); after a failed AcceptStream no path returns to AcceptStream "
      "without return / back-off (smux IsClosed() does not count: it stays false after a latched socket error). every handler that accepted a connection or stream closes it on each path on which it does not hand it on. the shared physical connection/session are replaced only under the mutex after a reuse test made under it (no orphaned session). a wrapper is marked closed only by its own Close. Does not measure goroutines, descriptors or CPU. Close of a carrier wrapper never waits for the peer without a bound. The completion-channel capacity rule also follows channels captured by the goroutine's closure. AcceptConnection closes the carrier on every failing return unless the error says it is closed already (R14.8). Every Lock in the client's upstream/listener code and in the server package is released on every path (R14.9).",
      "Not decided: measured footprint, library goroutines, carrier left open after a failed handshake.")

claim("C15",
      "accept-loop shape analysis over SSA + synchronous call cone to blocking primitives",
      "Decides, for every listener accept loop of package server (socket, DNS-over-socket, KCP/UDP), that no call inside the loop that "
      "receives the accepted connection can wait for that peer (handshake read, TLS handshake, any Read) unless it is started with go; "
      "no server-side function calls, while holding a mutex field, anything that locks that field again (self-deadlock of the DNS pruner wedges all later peers); accept loops do not park on channels; nothing that can wait for another party is reachable while the DNS user table lock or a server-wide mutex is held; the websocket router installs no middleware bounding requests in flight or their duration; lists every Server implementation and how its peers arrive. Structural necessary condition for 'a stalled peer delays only itself'. No answer is written to a peer, and nothing else waits for one, while a lock shared by all peers of a DNS endpoint is held. Every Lock in the DNS endpoint is released on every path out of the function (R15.6). Every index / slice expression of the handshake parsers is proven in bounds: one peer's request line cannot panic the process that serves the others (R15.7). A server endpoint's accept loop is left only on the shutdown flag or a closed listener (R15.8).",
      "Not decided: fairness under load, time bounds, tls.Listen's lazy handshake; net/http's per-request goroutine is trusted.")

claim("C17",
      "dominance of close calls by completion receives, send-after-copy path counting, path-fact rule on EOF returns, event ordering in Close",
      "Decides the ordering facts behind 'all data, then end-of-stream': in PipeData no close precedes a copier's completion report; a copier "
      "reports exactly once after io.Copy* and io.EOF only when the copy returned nil; both ends are closed after the pipe ends; the DNS "
      "tunnel's Read methods return io.EOF only under HasData()==false; the DNS client's Close sends the final ack and the Closed option "
      "before closing its communicator on every live-session path. no per-channel failure path closes the session shared by the other channels. a reader+writer pair closes its write half on every path; after the first copier reported no close waits for the second report; every Write reports the full count on success; Structural, not a delivery proof. A deadline armed on a connection is disarmed in both directions before the connection lives on (a left-over write deadline loses the target's answer and the end-of-stream). SO_LINGER is left at the system default everywhere (no abortive close). A websocket read limit admits the largest message the tunnel's own Write sends (R17.10). Sequence and ack numbers of the DNS carrier are used only in wrap-safe ways: a transfer crossing 65536 chunks still drains and ends (R17.11). Every serving goroutine works on the stream accepted for it, so a failing connection closes its own stream (R17.12).",
      "Not decided: timing, half-close, smux FIN ordering, waking a reader blocked in the DNS in-queue.")

claim("C04",
      "path-fact enumeration on SSA (guards on every success return), provenance of stored/returned connections, typestate dominance of the secure flag by TLS handshake success, flag/carrier correlation per endpoint",
      "Decides the guard and typestate structure that keeps security from degrading, on every path: each Upstream.Connect success return is under "
      "!mustSecure or cc.Secure(); the stored connection derives from the handshake result; the secure flag is set true only where dominated by a "
      "successful crypto/tls handshake (directly or via a helper whose success returns are so dominated) and the TLS connection is what is returned; "
      "once StartTLS is requested both roles return the TLS connection or an error, never the plain connection; StartTLS is advertised only under "
      "!secure; the secure argument of AcceptConnection/NewClientConnection can be true only with a TLS-built carrier (tls.Dial/Listen/ServeTLS/"
      "handshake/TLSConfig/scheme tests). Connect never rewrites the configured scheme, so a reconnect of a +tls upstream is a TLS connect again. the --secure option reaches MustSecure and every Upstream.Connect unchanged; Does not observe the wire. A server whose TLS configuration demands client certificates completes no clear-text session, and that demand survives a configuration that cannot be loaded. The secure argument of the server handshake is the listener's own flag, never peer-supplied data; the client takes every StartTLS offer made on an insecure carrier (or fails). Header lists are split without leaving optional white space on the elements, so a StartTLS offer is recognised however the list is written (R04.12). No certificate manager answers (nil, nil): an endpoint configured for TLS cannot silently skip its TLS step (R04.13).",
      "Not decided: clear-text payload on the wire, crypto/tls itself.")

claim("C05",
      "who-may-write tables, path-fact enumeration, config provenance slices, call-site argument classification, sibling constant agreement",
      "Decides the configuration-to-TLS dataflow of peer authentication: only the two allowed writers can disable verification (under the user's option / "
      "the stdio+tls branch) and no verification callbacks exist; every success path of the server config with requireClientCert stores "
      "RequireAndVerifyClientCert and the config is never dereferenced on the failure path; a configured CA reaches RootCAs and ClientCAs; the StartTLS "
      "ServerName is the port-less host at every call site; every TLS primitive takes its config from the manager; both ends of a password-protected UDP "
      "endpoint agree on KDF constants, salt scheme, cipher constructor, shards, and pass the cipher on. GetTlsConfig returns a fresh object on every call (callers set ServerName / InsecureSkipVerify on it). the CA pool is a fresh empty pool plus the configured CA only; the server handshake returns a non-TLS connection only where the ClientAuth-derived requirement flag is false or the carrier is secure; a tls.Dial to a resolved address has ServerName set from the upstream Hostname() on every path. the role-less base cert.Config is never used as a certificate manager outside package cert; the ClientAuth-derived requirement flag is stored (and not as constant false) on every successful path after the handshake asked the manager for its configuration, its failure included; Structural; chain validation is crypto/x509's. The already-encrypted shortcut of the server handshake is taken only on the listener's own TLS flag, never on peer-supplied data such as a proxy header. No TLS configuration the client builds enables session resumption (a resumed session is not checked against the CA configured now). A websocket is dialled with the verdict 'not secure' (no TLS configuration for gorilla) only where the scheme is known not to be wss (R05.14).",
      "Not decided: x509 chain validation and expiry, kcp cipher behaviour.")

claim("C03",
      "backward provenance through fields, captured variables and call sites; who-may-write/call tables; control-dependence on an equality guard",
      "Decides the dataflow and guard facts the routing guarantee reduces to, for every server kind and call site: the list handed to "
      "AcceptConnection derives only from Channels.Filter(<the endpoint's own allow-list>); the handler's list is written only from that "
      "parameter; Channel.OpenConnection is invoked only under protocol == \"/\"+Name() of the same channel value; name matching uses ==/!= "
      "only; Filter returns Find results of listed names under err==nil and the whole table only for an empty list; NetworkChannel dials its "
      "own (scheme, host) and net.Dial occurs nowhere else in package server; handlers are registered as \"/\"+Name() over the session's own list. "
      "no closure that outlives a loop iteration keeps the address of the loop variable (go 1.14 semantics per go.mod). the protocol muxer is created per stream/connection, never package-level; Near-sufficient given go-multistream's exact match.",
      "Not decided: that the dialled socket is the configured service; allow-list decoding; go-multistream/smux internals (exact match trusted).")

claim("C06",
      "path-fact enumeration on SSA with per-path evaluation of literal fields selected by phis; provenance of version values; who-may-call for buffered readers",
      "Decides on every feasible SSA path that success is reported only after all admission checks: server handshake (parsed, announce method, "
      "non-empty negotiated version), server upgrade (parsed, GET, Connection: upgrade, Upgrade == socketace/<negotiated>; failed checks re-bind the "
      "response to a literal whose constant status != 101, evaluated per path), NewServerConnection (both succeeded), negotiateVersion (a supported "
      "element equal to a client element), client (200 / 101 only); and that exactly one buffered reader exists per connection and handshake reads go "
      "through it, and textproto readers are fed only by that reader, every index/slice expression of the handshake packages is proven in bounds for all peer input (linear-inequality entailment from dominating comparisons and strings.Index contracts, Fourier-Motzkin refutation) — the structural part of the no-crash clause; so the outcome cannot depend on segmentation. No header is written into the nil map of a request/response object built on the same path. Every explicit panic of the handshake code guards a write to an in-memory buffer, never a writer on the peer's connection (R06.7). A header map written by a handshake is that handshake's own map, never the map of a package-level template shared by all of them.",
      "Not decided: net/textproto on arbitrary bytes, header size limits, panics other than index/slice bounds.")

claim("C01",
      "rule over every Read([]byte) method (len(p)-dependent error returns; remainder-store must-pass-through after copy), provenance of returned connections, who-may-use of the unbuffered field, pipe wiring, constant bounds",
      "Decides four structural necessary conditions of loss-free carriage through the adapters this repository wrote: no Read method fails because "
      "the caller's buffer is small and every partial copy stores its remainder back on all paths; BufferedInputConnection.Read delegates to the "
      "bufio.Reader, connections returned by the handshake functions derive from the buffered connection and neither the raw carrier nor the embedded "
      "unbuffered connection is used again; PipeData starts one copier per direction and each reaches io.Copy* with its own reader/writer; both smux "
      "configurations start from DefaultConfig with MaxFrameSize inside smux's range. every Write([]byte) reports len(p) of the buffer as passed (or the delegate's count) on success and the websocket writer forwards the whole buffer. every serving goroutine works on the connection accepted for it (loop-variable escape); buffers written under a mutex are written under one common mutex at every write site (static lockset consistency); a websocket read limit admits the largest message the tunnel itself sends; Not byte equality. A deadline armed on a connection is disarmed in both directions (or the connection closed) on every path on which the connection lives on as a session — arming and disarming may sit in different functions. A logical connection is piped to the channel whose exact name was negotiated. No codec of the DNS carrier gives ascii85.Decode less than worst-case room (R01.12). The reassembly of a multi-record DNS answer sorts by keys read from the records being sorted (R01.13). The client forgets its shared physical connection only when it is dead or was just closed (R01.14).",
      "Not decided: equality of delivered bytes, library behaviour (smux, gorilla, kcp, crypto/tls), partial writes.")

claim("C16",
      "control-dependence, induction-variable and path rules on SSA; lock-region (held-set) analysis with caller propagation; must-pass-through for timeouts",
      "Decides the control structure of the client's connection policy: the upstream connect is reachable only on ConnectDirectly's false edge; "
      "upstreams are tried as Data[0], Data[1], ... with failure continuing and the first success returning, no reordering helper; the shared "
      "connection/session are stored only while the upstream mutex is held (directly or in helpers called only under it) and a new physical "
      "connection is opened only under connection == nil || connection.Closed() inside the critical section; GetTlsConfig is fresh per attempt so one upstream's ServerName cannot leak into the next attempt; the reuse test is evaluated inside the lock region; the flag-carrying wrappers' Close marks them closed on every path (the reuse test reads Closed()); an upstream counts as secure only over a TLS-built carrier or a TLS scheme; a deadline/timer must precede the "
      "blocking client handshake in every Upstream.Connect (violated on the pinned tree at all five: recorded known findings). On every path on which the last Upstream.Connect of the failover loop returned nil the error returned is nil, that call's result or produced after it. If the direct dial is guarded by scheme tests, every stream network net.Dial knows reaches it. Whenever the reuse test finds no usable session, Connect runs the round over the upstreams: no path (hold-off, back-off) turns a local connection away untried (R16.10); the reuse guard is followed through helpers that wrap open(). Connect never rewrites the upstream's configured address, so the next attempt on the same upstream dials what was configured (R16.11). Every Lock of the upstream mutex is released on every path (R16.12); a failed stream open reaches the listener as a nil interface, never as a nil pointer inside one (R16.13).",
      "Not decided: numeric time bounds, OS connect time-outs, reconnect after loss (smux keep-alive timing).")

claim("C18",
      "switch-table extraction from the typed AST compared with a transcribed documentation table; sibling-switch agreement; path rule for +tls flags; call-graph reachability of dispatchers; maybe-nil phi dereference rule",
      "Decides the table structure of address interpretation: every documented scheme has a case constructing the documented type in the four "
      "dispatchers, each switch has an error-returning default, a dispatcher that switches on an expression computed from the scheme is rejected; sibling switches agree; every implementation chosen for a +tls scheme sets its "
      "secure flag on every successful +tls path and ProtoAddress.Addr covers the admitted socket/packet schemes; all Unmarshal{YAML,JSON,Flag} "
      "forms of a configuration type reach the same dispatcher (Channels.UnmarshalFlag does not: recorded known finding); no upstream's Connect (or a helper it calls on its receiver) writes any field of the configured address — scheme, credentials, host — so every reconnect interprets the same address; dispatchers may be switch statements or map[string]constructor tables with a comma-ok miss branch; no unchecked type assertion on decoded configuration data that valid input can reach; no maybe-nil pointer is "
      "dereferenced unguarded in the parsing cone. An upstream counts as an encrypted transport only over a TLS-built carrier or under a test for a TLS scheme. No parsing function returns a nil object together with a possibly-nil error. However the DNS server is started, a +tls endpoint gets a TLS listener: ListenAndServe, or ActivateAndServe on a listener from crypto/tls (R18.9). Startup, which consumes the +tls marker of its configured address in place, is never called in a loop on one server object (R18.10). A listener's forward address is dialled with its scheme as the network: a +tls forward is refused, never dialled in clear (R18.11).",
      "Not decided: net/url parsing, the yaml/reflection bridge, arbitrary malformed strings. README table is transcribed in the checker.")

claim("C07",
      "value-use rule on sequence-number SSA values, append/evict shape of the ack memory, lock pairing by must-pass-through, closures-invoked-under-lock channel rule, sibling agreement of ack plumbing, dominance of a positivity guard",
      "Decides structural conditions without which the seq/ack design cannot be right for all histories: sequence/ack numbers are used only via ==, != and "
      "+/- constants (rotation invariance = wrap safety); the bounded ack memory evicts from the head and every append is followed by the bound on all "
      "paths; every Lock in the DNS packages is released (directly or by a passed defer) on every path to every return; closures invoked under a queue "
      "mutex cannot block on a channel; outgoing acks are in.NextSeqNo-1 and incoming acks/packets reach out.UpdateAcked/in.Append of the same endpoint; "
      "the chunking loop runs only where mtu > 0 holds. the in-queue releases only NextSeqNo in order, parks only unseen in-window packets and remembers them as seen; OutQueue.Write's returned count covers every queued chunk; acked chunks are removed by sequence number equality. ack/payload fields of an Err-bearing answer reach the queues only on Err == nil; no function re-locks a mutex field it holds (cone incl. func-typed fields). lock-protected fields are written under one common mutex everywhere; the mutexes of the tunnel are acquired in one global order. a flag raised around a region and lowered on success is lowered on error returns too. Not a delivery proof. Every Unlock releases a mutex held on every path reaching it; the retransmitting poller closes the connection only under an identity test of the exchange's error (never on accumulated fresh transient failures). A chunk the in-queue refuses leaves the queue unchanged and every refusal depends on the chunk offered (no sticky refusal). When data arrives every registered reader of the in-queue is notified (R07.21).",
      "Not decided: delivery, retransmission convergence, duplicate suppression over real loss histories, liveness.")

claim("C13",
      "lock-region (held-set) analysis for table stores, dominance of session-state touches by the validation's err==nil edge, table-identity provenance of cleared slots, pointer-identity guard dominance",
      "Decides the lock, guard and table-identity structure of DNS session isolation: all session-table stores are under usersLock and newUser's scan/assign/store "
      "share one critical section; in every handler all stores to the session, calls on its queues and closeConnection are on the err==nil edge of "
      "validateAndGetUser(request id, source address), which itself updates last-contact only after the address comparison and succeeds only for the owner's "
      "address; a table slot is cleared only for a session read from that same table; closeConnection clears the live slot only after a pointer-identity test "
      "with its occupant. The table size equals the user-id modulus of the wire format. Address equality is full String() equality (directly or via a helper summarised as such); the client adopts a user id only from an error-free version answer. Memory taken from a sync.Pool never ends up in a decoded request, a parked packet or a stream. A version answer names a session created for that very request. A retired session's record decides an answer only where the live slot has been found empty (identifiers are reused). The session identifier is decoded in arithmetic wide enough for every identifier handed out: no 8-bit arithmetic widened afterwards (R13.10). A live slot is cleared by the pruner only under a condition on its own occupant, never on account of the tombstone at the same index.",
      "Not decided: interleavings of the unlocked table reads on the message path, expiry timing.")

claim("C12",
      "entry-point containment rule (deferred recover dominating all work), table-literal vs invocation nil-guard rule, path-fact bounds rule on client-controlled sizes, loop-progress analysis over the untrusted call cone",
      "Decides the containment and guard structure between an arbitrary DNS message and a crash or unbounded work: the handler registered with miekg/dns "
      "and the client's answer decoder both run under a deferred recover() installed before any message-derived work; every invoked func-typed field of "
      "the command table is non-nil in all entries or nil-tested before each call; client-requested sizes reach allocations / the stored fragment size "
      "only on paths with constant upper (and, for the stride, positive lower) bounds; the answer decoder turns a recovered panic into a non-nil named error result; handlers touch session state only after the owner check; an error answer always decodes to a non-nil error; parked out-of-order packets are bounded by the window test; every data-driven loop in the untrusted cone changes a loop-carried "
      "exit variable on every cyclic path. Every Lock in the DNS endpoint is released on every path out of the function (R12.10). An error answer's Err is provably non-nil on every successful decode, through helpers (R12.9); a codec detection step always leaves a codec stored (R12.11). The client indexes the data of a decoded answer only within its length, outside the decoder's recover (R12.12).",
      "Not decided: numeric time/allocation bounds, miekg's own parsing, unrecoverable runtime errors. miekg's one-question rule and lack of recover are trusted facts.")

claim("C08",
      "constant-table rules over the typed AST (alphabets, registry, codes), sibling agreement of Encode/Decode objects, substitution-map extraction on SSA, result-use rule, length abstraction (abstract interpretation of the packers over known lengths/counters, contents unknown)",
      "Decides the table-level facts of the selectable codecs: every alphabet constant given to a NewEncoding constructor and every data-indexed constant "
      "table has radix-many pairwise distinct symbols, none a dot, backslash, space or control character; FromCode's registry lists every codec, codes are "
      "distinct upper-case constants; table-driven codecs encode and decode with the same encoding object; Base85's substitutions cover the forbidden bytes "
      "ascii85 can emit, land outside ascii85's alphabet and are inverted by Decode; the byte counts returned by ascii85.Encode/Decode cut the buffer. "
      "ascii85.Decode is given 4*len+4 bytes of room or its consumed count is inspected; every declared codec ratio is >= the radix-derived lower bound. substitution tables given as strings.NewReplacer pairs are read too and must be byte-for-byte; Encode/Decode results are memory of their own (no pool/global/field); for every selectable codec whose output length is a function of the input length under the length abstraction (Base128, Raw), Decode accepts exactly the lengths Encode produces and returns the input length, for input lengths 0..64 and by the period of the abstract loop state beyond. This is the structural minority of the property. A presized result buffer of a packer is written completely on every path (an untouched element is a zero byte). No codec takes a single Read of a stream decoder for the whole input. Encode and Decode (helpers included) never store into the backing array of their argument. Package-level codec tables are complete before any use: built by a package initialiser, or under sync.Once with every read after the Do (R08.12).",
      "Not decided (most of the property): equality of the decoded contents and expansion bounds of the arithmetic/bit-packing codecs, library codecs' behaviour; Base192 (registered, never selected by this module, its own test disabled) is outside the claim.")

claim("C11",
      "dominance and path-fact rules on Handshake, candidate/registry table comparison, byte-recurrence constant extraction, loop-progress analysis with linear-offset folding, alphabet case-fold injectivity",
      "Decides the structural part of 'probe, then commit, and terminate': each commit step is dominated by its probe (fragment size receives the probe's result "
      "on err==nil; version handshake only with a preset or successfully detected query type) and Handshake succeeds only after the mandatory steps returned nil; "
      "every candidate codec is registered and every upstream candidate has a test pattern; the fragment-probe generator and checker use equal constants and both "
      "ends use the single DownloadCodecCheck; a candidate codec / query type is committed only on the no-error edge of its own probe (facts established after the candidate was picked); the upstream fragment size is recomputed after the last step that can change the upstream codec; the fragment size recorded as working is the very value that was probed; every loop in Handshake's synchronous cone changes a loop-carried exit variable on every cyclic path; every codec "
      "assigned to the upstream direction without a probe is injective under ASCII case folding. Every Unlock in the DNS client releases a mutex held on every path reaching it (an unlock of an unlocked mutex ends the process instead of reporting a failed handshake). The step that commits a probed value reports a failed exchange with the server as a failure. The regular expressions of the server's name unescaper are anchored, so what the probed codec sent is what is decoded whatever the payload (R11.11). A codec detection step never stores a codec whose probe failed on that path and never returns, connection open, without having stored one (R11.13); the dot inserter never leaves an empty label for any fragment size (R11.12). The fragment-size probe answer's header is at least as long as the data answer's, so a payload size that passed the probe fits a data answer (R11.14).",
      "Not decided: 'probe passed => data works on that path', 8-bit mangling, size limits, lost replies to a commit.")

claim("C09",
      "wire-layout extraction over SSA paths (item widths, carried fields, tag constants folded into the decoder's branch conditions), sibling constant agreement for headers, constant limits, table distinctness",
      "Decides the agreement structure of request encoding: for every request type each successful encoder path's item sequence (byte tags with constants, "
      "fixed-width fields, blobs) is matched by a successful decoder path reading the same widths into the same fields under tag conditions that hold "
      "for the constants written; both sides use the same codec object, matching header helpers and one byte order; the 1+3(+2) header is emitted and "
      "stripped with equal constants under the same flag, user ids are base-36, 2 characters, modulo 36^2; dot insertion <= 63, dotting threshold <= 63, "
      "the dot inserter is proven (linear entailment along paths) to emit pieces of at most 63 octets and a non-empty piece after every dot; no consuming step of the name unescaper is guarded more strictly than its width; names bounded from 253 and every question name comes from PrepareHostname under err==nil; command codes are distinct under case folding and the "
      "cache-busting alphabet is lower-case letters and digits. The cache-busting header part has a fixed width for every value it can take (a formatted counter's range fits its padded width). The regular expressions that decide the width of an unescaping step are anchored at the start. The server's decoder of the Base85 upstream codec gives ascii85.Decode worst-case room (R09.7); base and width of the user id are read from hand-written digit arithmetic too. The Base85 substitution table covers the bytes the DNS library reads as escape or separator (R09.8).",
      "Not decided: size budget (float/codec ratio) vs. name limit for every payload, miekg escaping of 8-bit output, value equality for all field values.")

claim("C10",
      "wire-layout extraction as C09 for responses; type-switch case-set equality; per-record constant agreement (tag width, chunk size); sibling rule for name-carrying records; registered-vs-emitted constant equality",
      "Decides the agreement structure of response carriage: response Encode/Decode layouts agree (widths, fields, tag constants, codec object, byte order); "
      "the record types constructed by the Wrap* functions equal the case sets of the reassembly and ordering type switches and the dispatcher covers every "
      "selectable query type; per record type the order-tag bytes prepended equal the prefix stripped; tag + chunk fills A (4) and AAAA (16) exactly; CNAME, MX "
      "and SRV targets are built by PrepareHostname; no character-set trimming in the reassembly cone; per-record payload constants stay within the record type's capacity; no capacity guard in a Wrap* function is decided by its operand type alone and narrowing conversions there are proven in range; a wrapping helper never appends to a slice parameter that a caller fills with a sub-slice of a longer buffer; a message whose construction returned an error is never written to the wire; the private RR type registered with miekg equals the type emitted and queried. Memory taken from a sync.Pool is never stored into a field/element nor returned (a record is packed after the wrapping function returned). Every sort.Slice comparator of the reassembly indexes the slice being sorted. ascii85.Decode of a downstream answer has worst-case room or its consumed count is checked (R10.14). A record buffer of constant size is written completely on every path: records are never zero-padded (R10.15). A response decoder never reports success through a wrapped ReadString error that is nil because the encoder terminates the text, before the answer was filled in (R10.16).",
      "Not decided: miekg Pack/Unpack (escaping, TXT limits), capacity for all payload lengths, tag arithmetic beyond 512 records.")

for pid in ["C01","C02","C03","C04","C05","C06","C07","C08","C09","C10","C11","C12","C13","C14","C15","C16","C17","C18"]:
    if pid not in P:
        na(pid, PENDING)
