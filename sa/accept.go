package main

// accept.go — A4: accept-loop shape (DESIGN.md §3), used by C02, C14, C15.

import (
	"os"
	"strings"
	"go/token"
	"fmt"
	"go/types"
	"sort"

	"golang.org/x/tools/go/ssa"
)

type acceptLoop struct {
	Fn     *ssa.Function
	Call   *ssa.Call   // the accept call
	Kind   string      // "listener" | "stream"
	Loop   map[*ssa.BasicBlock]bool
	Conn   ssa.Value   // accepted connection (Extract #0)
	Err    ssa.Value   // Extract #1
	// step-function shape: the accept call sits in a helper without a loop of its own that a caller invokes
	// from a loop (`for l.acceptNext() {}`); Loop is then the whole helper, Outer/OuterLoop the caller's cycle
	Outer     *ssa.Function
	OuterLoop map[*ssa.BasicBlock]bool
}

func isAcceptPrimitive(f *types.Func) string {
	if f == nil {
		return ""
	}
	if isMethod(f, "net", "Listener", "Accept") {
		return "listener"
	}
	if isMethod(f, "github.com/xtaci/smux", "Session", "AcceptStream") || isMethod(f, "github.com/xtaci/smux", "Session", "Accept") {
		return "stream"
	}
	return ""
}

// sccOf returns the set of blocks lying on a cycle through b (empty if none).
func cycleThrough(b *ssa.BasicBlock) map[*ssa.BasicBlock]bool {
	// forward reachable from b
	fwd := map[*ssa.BasicBlock]bool{}
	var st []*ssa.BasicBlock
	for _, s := range b.Succs {
		st = append(st, s)
	}
	for len(st) > 0 {
		x := st[len(st)-1]
		st = st[:len(st)-1]
		if fwd[x] {
			continue
		}
		fwd[x] = true
		st = append(st, x.Succs...)
	}
	if !fwd[b] {
		return nil
	}
	bwd := map[*ssa.BasicBlock]bool{}
	st = append(st, b.Preds...)
	for len(st) > 0 {
		x := st[len(st)-1]
		st = st[:len(st)-1]
		if bwd[x] {
			continue
		}
		bwd[x] = true
		st = append(st, x.Preds...)
	}
	out := map[*ssa.BasicBlock]bool{}
	for x := range fwd {
		if bwd[x] {
			out[x] = true
		}
	}
	return out
}

func findAcceptLoops(w *World) []acceptLoop {
	var out []acceptLoop
	prog := w.SSA()
	var fns []*ssa.Function
	for _, fn := range sortedModuleFuncs(w, prog) {
		fns = append(fns, fn)
	}
	sort.Slice(fns, func(i, j int) bool { return fns[i].Pos() < fns[j].Pos() })
	for _, fn := range fns {
		for _, c := range callsIn(fn) {
			call, ok := c.(*ssa.Call)
			if !ok {
				continue
			}
			kind := isAcceptPrimitive(sCallee(call))
			if kind == "" {
				continue
			}
			loop := cycleThrough(call.Block())
			al := acceptLoop{Fn: fn, Call: call, Kind: kind, Loop: loop}
			if loop == nil {
				// called from a loop?
				for _, g := range fns {
					for _, c2 := range callsIn(g) {
						if _, isCall := c2.(*ssa.Call); !isCall || c2.Common().StaticCallee() != fn {
							continue
						}
						if ol := cycleThrough(c2.Block()); ol != nil && al.Outer == nil {
							al.Outer, al.OuterLoop = g, ol
						}
					}
				}
				if al.Outer == nil {
					continue
				}
				al.Loop = map[*ssa.BasicBlock]bool{}
				for _, b := range fn.Blocks {
					al.Loop[b] = true
				}
			}
			for _, ref := range *call.Referrers() {
				if ex, ok := ref.(*ssa.Extract); ok {
					if ex.Index == 0 {
						al.Conn = ex
					} else if ex.Index == 1 {
						al.Err = ex
					}
				}
			}
			out = append(out, al)
		}
	}
	return out
}

// aliasesOf computes forward aliases of v inside fn: phis, interface
// conversions, transparent wrapper calls, and locals it is stored into.
func aliasesOf(w *World, fn *ssa.Function, v ssa.Value) map[ssa.Value]bool {
	tr := transparentWrappers(w)
	al := map[ssa.Value]bool{v: true}
	changed := true
	for changed {
		changed = false
		allInstrs(fn, func(in ssa.Instruction) {
			val, isVal := in.(ssa.Value)
			if isVal && al[val] {
				return
			}
			switch x := in.(type) {
			case *ssa.Phi:
				for _, e := range x.Edges {
					if al[e] {
						al[x] = true
						changed = true
						break
					}
				}
			case *ssa.MakeInterface:
				if al[x.X] {
					al[x] = true
					changed = true
				}
			case *ssa.ChangeInterface:
				if al[x.X] {
					al[x] = true
					changed = true
				}
			case *ssa.ChangeType:
				if al[x.X] {
					al[x] = true
					changed = true
				}
			case *ssa.TypeAssert:
				if al[x.X] {
					al[x] = true
					changed = true
				}
			case *ssa.Extract:
				if al[x.Tuple] && x.Index == 0 {
					if _, isTA := x.Tuple.(*ssa.TypeAssert); isTA {
						al[x] = true
						changed = true
					}
				}
			case *ssa.Call:
				if idx := tr(x); idx != nil {
					for _, i := range idx {
						if i < len(x.Call.Args) && al[x.Call.Args[i]] {
							al[x] = true
							changed = true
						}
					}
				}
			case *ssa.Store:
				if al[x.Val] {
					// loads of the same address alias too
					if refs := x.Addr.Referrers(); refs != nil {
						for _, ref := range *refs {
							if u, ok := ref.(*ssa.UnOp); ok && u.X == x.Addr && !al[u] {
								al[u] = true
								changed = true
							}
						}
					}
				}
			}
		})
	}
	return al
}

// blockingPrimitive: a call that can wait for bytes from a peer.
func blockingPrimitive(c ssa.CallInstruction) string {
	cc := c.Common()
	f := sCallee(c)
	if f == nil {
		return ""
	}
	if cc.IsInvoke() {
		switch f.Name() {
		case "Read", "ReadFrom", "ReadMessage", "Accept", "AcceptStream":
			return "interface method " + f.Name()
		}
		return ""
	}
	pk := ""
	if f.Pkg() != nil {
		pk = f.Pkg().Path()
	}
	rn := ""
	if n := recvNamed(f); n != nil {
		rn = n.Obj().Name()
	}
	switch {
	case pk == "io" && (f.Name() == "Copy" || f.Name() == "CopyBuffer" || f.Name() == "CopyN" || f.Name() == "ReadFull" || f.Name() == "ReadAtLeast" || f.Name() == "ReadAll"):
		return "io." + f.Name()
	case pk == "io/ioutil" && f.Name() == "ReadAll":
		return "ioutil.ReadAll"
	case pk == "bufio" && rn == "Reader" && len(f.Name()) >= 4 && (f.Name()[:4] == "Read" || f.Name() == "Peek"):
		return "(*bufio.Reader)." + f.Name()
	case pk == "net/textproto" && rn == "Reader" && len(f.Name()) >= 4 && f.Name()[:4] == "Read":
		return "(*textproto.Reader)." + f.Name()
	case pk == "crypto/tls" && rn == "Conn" && (f.Name() == "Handshake" || f.Name() == "Read"):
		return "(*tls.Conn)." + f.Name()
	case pk == "github.com/multiformats/go-multistream" && (f.Name() == "Handle" || f.Name() == "Negotiate" || f.Name() == "SelectProtoOrFail" || f.Name() == "SelectOneOf" || f.Name() == "NegotiateLazy"):
		return "multistream." + f.Name()
	case pk == "github.com/xtaci/smux" && rn == "Session" && (f.Name() == "AcceptStream" || f.Name() == "Accept"):
		return "(*smux.Session)." + f.Name()
	case pk == "github.com/xtaci/smux" && rn == "Stream" && f.Name() == "Read":
		return "(*smux.Stream).Read"
	case pk == "github.com/gorilla/websocket" && rn == "Conn" && (f.Name() == "ReadMessage" || f.Name() == "NextReader"):
		return "(*websocket.Conn)." + f.Name()
	case pk == "net/http" && (f.Name() == "ReadRequest" || f.Name() == "ReadResponse"):
		return "http." + f.Name()
	}
	return ""
}

// notFollowed: interface methods that are not reads from the peer.
var notFollowed = map[string]bool{"Close": true, "Closed": true, "String": true, "Error": true, "LocalAddr": true,
	"RemoteAddr": true, "Name": true, "SetDeadline": true, "SetReadDeadline": true, "SetWriteDeadline": true,
	"Network": true, "Unwrap": true, "Write": true}

// blockingCone: does fn, through synchronous calls inside the module, reach a
// blocking primitive? Returns the chain.
func blockingCone(w *World, fn *ssa.Function, seen map[*ssa.Function]bool, depth int) []string {
	if fn == nil || seen[fn] || depth > 12 {
		return nil
	}
	seen[fn] = true
	for _, c := range callsIn(fn) {
		if _, isGo := c.(*ssa.Go); isGo {
			continue
		}
		if p := blockingPrimitive(c); p != "" {
			return []string{ssaFuncKey(fn), p}
		}
	}
	for _, c := range callsIn(fn) {
		if _, isGo := c.(*ssa.Go); isGo {
			continue
		}
		cc := c.Common()
		var targets []*ssa.Function
		if sc := cc.StaticCallee(); sc != nil {
			targets = append(targets, sc)
		} else if cc.IsInvoke() && !notFollowed[cc.Method.Name()] {
			for _, e := range w.calleesOf(c) {
				targets = append(targets, e)
			}
		} else if mc, ok := cc.Value.(*ssa.MakeClosure); ok {
			targets = append(targets, mc.Fn.(*ssa.Function))
		}
		for _, t := range targets {
			if !inModule(t) {
				continue
			}
			if chain := blockingCone(w, t, seen, depth+1); chain != nil {
				return append([]string{ssaFuncKey(fn)}, chain...)
			}
		}
	}
	return nil
}

// calleesOf resolves a dynamic call through the CHA call graph.
func (w *World) calleesOf(site ssa.CallInstruction) []*ssa.Function {
	g := w.CHA()
	n := g.Nodes[site.Parent()]
	if n == nil {
		return nil
	}
	var out []*ssa.Function
	for _, e := range n.Out {
		if e.Site == site {
			out = append(out, e.Callee.Func)
		}
	}
	return out
}

// ruleAcceptLoopNotOccupied: in every accept loop of the given kinds no
// synchronous call inside the loop receives the accepted connection (or an
// alias) and reaches a blocking primitive.
func ruleAcceptLoopNotOccupied(w *World, r *Report, rule string, kinds map[string]bool, only func(al acceptLoop) bool) int {
	n := 0
	for _, al := range findAcceptLoops(w) {
		if !kinds[al.Kind] || (only != nil && !only(al)) {
			continue
		}
		n++
		key := fmt.Sprintf("loop:%s|accept:%s", ssaFuncKey(al.Fn), al.Kind)
		pos := w.Pos(al.Call.Pos())
		if al.Conn == nil {
			r.Undecided(rule, key, pos, "accepted connection value not found")
			continue
		}
		aliases := aliasesOf(w, al.Fn, al.Conn)
		bad := ""
		nsync, nasync := 0, 0
		for _, c := range callsIn(al.Fn) {
			if !al.Loop[c.Block()] {
				continue
			}
			cc := c.Common()
			uses := false
			for _, a := range cc.Args {
				if aliases[a] {
					uses = true
				}
			}
			if cc.IsInvoke() && aliases[cc.Value] {
				uses = true
			}
			if mc, ok := cc.Value.(*ssa.MakeClosure); ok {
				for _, b := range mc.Bindings {
					if aliases[b] {
						uses = true
					}
					// binding by address of a local holding the conn
					for _, st := range storesTo(b) {
						if aliases[st.Val] {
							uses = true
						}
					}
				}
			}
			if !uses {
				continue
			}
			if _, isGo := c.(*ssa.Go); isGo {
				nasync++
				continue
			}
			if _, isDefer := c.(*ssa.Defer); isDefer {
				continue
			}
			nsync++
			if p := blockingPrimitive(c); p != "" {
				bad = fmt.Sprintf("%s: the accept loop itself calls %s on the accepted connection", w.Pos(c.Pos()), p)
				continue
			}
			var target *ssa.Function
			if sc := cc.StaticCallee(); sc != nil {
				target = sc
			}
			if target != nil && inModule(target) {
				if chain := blockingCone(w, target, map[*ssa.Function]bool{}, 0); chain != nil {
					bad = fmt.Sprintf("%s: synchronous call in the accept loop hands the accepted connection to %v, which waits for that peer's bytes; the loop cannot accept the next peer/stream meanwhile", w.Pos(c.Pos()), chain)
				}
			}
		}
		// the loop itself (and what it calls synchronously) must not park on a channel / wait group either:
		// whoever would wake it up is another connection's goroutine
		nchan := 0
		var scan func(fn *ssa.Function, inLoop func(b *ssa.BasicBlock) bool, depth int, via string)
		seenFn := map[*ssa.Function]bool{}
		scan = func(fn *ssa.Function, inLoop func(b *ssa.BasicBlock) bool, depth int, via string) {
			for _, b := range fn.Blocks {
				if !inLoop(b) {
					continue
				}
				for _, in := range b.Instrs {
					what := ""
					switch x := in.(type) {
					case *ssa.Send:
						what = "sends on a channel"
					case *ssa.UnOp:
						if x.Op == token.ARROW {
							what = "receives from a channel"
						}
					case *ssa.Select:
						if x.Blocking {
							what = "blocks in a select"
						}
					case *ssa.Call:
						if f := sCallee(x); f != nil && f.Pkg() != nil && f.Pkg().Path() == "sync" && f.Name() == "Wait" {
							what = "waits on a sync." + recvNamed(f).Obj().Name()
						}
						if sc := x.Call.StaticCallee(); sc != nil && inModule(sc) && depth < 2 && !seenFn[sc] && len(sc.Blocks) > 0 {
							seenFn[sc] = true
							scan(sc, func(*ssa.BasicBlock) bool { return true }, depth+1, via+sc.Name()+" -> ")
						}
					}
					if what != "" {
						nchan++
						bad = fmt.Sprintf("%s: the accept loop %s%s: until some other connection's goroutine lets it continue, no further peer/stream is accepted (a bound on concurrent connections makes every open connection, even an idle one, delay the next)", w.Pos(in.Pos()), via, what)
					}
				}
			}
		}
		scan(al.Fn, func(b *ssa.BasicBlock) bool { return al.Loop[b] }, 0, "")
		if al.Outer != nil {
			seenFn[al.Fn] = true
			scan(al.Outer, func(b *ssa.BasicBlock) bool { return al.OuterLoop[b] }, 0, "")
		}
		r.Check(bad == "", rule, key, pos,
			fmt.Sprintf("%d synchronous and %d goroutine call(s) receive the accepted connection; no synchronous one can wait for the peer; no channel/wait-group parking in the loop", nsync, nasync), bad,
			"sync_calls", nsync, "go_calls", nasync)
	}
	return n
}

// ruleAcceptErrorSpin: on the error edge of a stream accept, no path returns
// to the accept call without a return/liveness test/sleep.
func ruleAcceptErrorSpin(w *World, r *Report, rule string) {
	for _, al := range findAcceptLoops(w) {
		if al.Kind != "stream" {
			continue
		}
		key := fmt.Sprintf("loop:%s|accept-error", ssaFuncKey(al.Fn))
		pos := w.Pos(al.Call.Pos())
		if al.Err == nil {
			r.Violate(rule, key, pos, "the error result of the stream accept is ignored")
			continue
		}
		isLive := func(in ssa.Instruction) bool {
			c, ok := in.(ssa.CallInstruction)
			if !ok {
				return false
			}
			f := sCallee(c)
			if f == nil {
				return false
			}
			// smux's IsClosed()/CloseChan() only tell whether Close() was called: a session whose socket read failed
			// (reset, garbage frame) latches the error and returns it from every AcceptStream at once while
			// IsClosed() stays false until the keep-alive gives up, so such a test is not a way out of the loop
			if isPkgFunc(f, "time", "Sleep") || isPkgFunc(f, "time", "After") {
				return true
			}
			return false
		}
		spin := ""
		paths := 0
		ok := enumPaths(al.Fn, al.Call, isLive, func(in ssa.Instruction) bool { return in == ssa.Instruction(al.Call) }, func(e pathExit) {
			if e.Stop == nil {
				ret, isRet := e.Last.(*ssa.Return)
				if !isRet || al.Outer == nil {
					return // returned or panicked
				}
				// step function: returning hands control back to the caller's loop, unless the result tells it to stop
				if len(ret.Results) == 1 {
					if b, isC := constBool(e.State.Resolve(ret.Results[0])); isC && !b {
						return
					}
				}
			}
			paths++
			isNil, known := e.State.NilKnown(al.Err)
			if known && isNil {
				return // success path
			}
			if len(e.State.Events) > 0 {
				return
			}
			spin = "after a failed AcceptStream a path returns straight to AcceptStream (no return, no back-off; IsClosed() does not count — it stays false after a socket read error): smux reports a dead session with the latched socket/protocol error immediately and forever, so the loop spins"
		})
		if !ok {
			r.Undecided(rule, key, pos, "path budget exceeded")
			continue
		}
		r.Check(spin == "", rule, key, pos, fmt.Sprintf("all %d cyclic path(s) through the accept either succeeded or pass a return / back-off", paths), spin, "cyclic_paths", paths)
	}
}

// ruleHandlersKeepStateLocal: the functions started with `go` inside an accept loop run once per accepted
// connection, concurrently, on ONE receiver object (the listener, the session handler). Anything such a
// function — or a helper it calls on the same receiver — stores into a field of that object is shared by all
// of them: the newest connection's value overwrites the others', and whoever reads the field back (to close
// "its" stream, to write "its" answer) acts on a sibling's resource.
func ruleHandlersKeepStateLocal(w *World, r *Report, rule string) {
	n := 0
	for _, al := range findAcceptLoops(w) {
		fns := []*ssa.Function{al.Fn}
		inLoop := []func(b *ssa.BasicBlock) bool{func(b *ssa.BasicBlock) bool { return al.Loop[b] }}
		if al.Outer != nil {
			fns = append(fns, al.Outer)
			inLoop = append(inLoop, func(b *ssa.BasicBlock) bool { return al.OuterLoop[b] })
		}
		for k, fn := range fns {
			for _, c := range callsIn(fn) {
				g, isGo := c.(*ssa.Go)
				if !isGo || !inLoop[k](g.Block()) {
					continue
				}
				target := g.Call.StaticCallee()
				var recvArg ssa.Value
				if target != nil && target.Signature.Recv() != nil && len(g.Call.Args) > 0 {
					recvArg = g.Call.Args[0]
				} else if mc, ok := g.Call.Value.(*ssa.MakeClosure); ok {
					// go func() { l.handle(conn) }(): the handler is what the closure calls on a captured receiver
					cl := mc.Fn.(*ssa.Function)
					for _, c2 := range callsIn(cl) {
						if sc := c2.Common().StaticCallee(); sc != nil && sc.Signature.Recv() != nil && inModule(sc) && len(c2.Common().Args) > 0 {
							if fv, ok := c2.Common().Args[0].(*ssa.FreeVar); ok {
								target = sc
								for i, f2 := range cl.FreeVars {
									if f2 == fv && i < len(mc.Bindings) {
										recvArg = mc.Bindings[i]
									}
								}
							} else if u, ok := c2.Common().Args[0].(*ssa.UnOp); ok {
								if fv, ok := u.X.(*ssa.FreeVar); ok {
									target = sc
									for i, f2 := range cl.FreeVars {
										if f2 == fv && i < len(mc.Bindings) {
											recvArg = mc.Bindings[i]
										}
									}
								}
							}
						}
					}
				}
				if mc, ok := g.Call.Value.(*ssa.MakeClosure); ok && recvArg == nil {
					cl := mc.Fn.(*ssa.Function)
					n++
					key := fmt.Sprintf("go:%s@%s", ssaFuncKey(cl), ssaFuncKey(fn))
					bad := ""
					allInstrs(cl, func(in ssa.Instruction) {
						st, ok := in.(*ssa.Store)
						if !ok || bad != "" {
							return
						}
						v := st.Addr
						var names []string
						for {
							fa, ok := v.(*ssa.FieldAddr)
							if !ok {
								break
							}
							if fv := fieldVarOf(fa); fv != nil {
								names = append([]string{fv.Name()}, names...)
							}
							v = fa.X
						}
						if u, ok := v.(*ssa.UnOp); ok {
							v = u.X
						}
						fv, ok := v.(*ssa.FreeVar)
						if !ok || len(names) == 0 {
							return
						}
						// bound to something that exists once for all iterations?
						for i, f2 := range cl.FreeVars {
							if f2 != fv || i >= len(mc.Bindings) {
								continue
							}
							b := mc.Bindings[i]
							if bi, ok := b.(ssa.Instruction); ok && bi.Parent() == fn && inLoop[k](bi.Block()) {
								return
							}
							if _, isC := st.Val.(*ssa.Const); isC {
								return
							}
							if !isResourceType(st.Val.Type()) {
								return
							}
							bad = fmt.Sprintf("%s: the per-connection goroutine stores into field %s of an object captured from outside the accept loop: shared by all connection goroutines", w.Pos(st.Pos()), strings.Join(names, "."))
						}
					})
					r.Check(bad == "", rule, key, w.Pos(g.Pos()), "the per-connection closure stores into no field of an object shared by all of them", bad)
					continue
				}
				if os.Getenv("SA_DEBUG") != "" {
					fmt.Fprintf(os.Stderr, "R02.8 dbg: go at %s target=%v recv=%v\n", w.Pos(g.Pos()), target, recvArg)
				}
				if target == nil || recvArg == nil || !inModule(target) || len(target.Blocks) == 0 {
					continue
				}
				// the receiver must be the same object for every iteration: not defined inside the loop
				for {
					fa, ok := recvArg.(*ssa.FieldAddr)
					if !ok {
						break
					}
					recvArg = fa.X // the embedded struct's address: same object
				}
				if in, ok := recvArg.(ssa.Instruction); ok && in.Parent() == fn && inLoop[k](in.Block()) {
					if _, isAlloc := recvArg.(*ssa.Alloc); !isAlloc {
						// a load inside the loop of something defined outside is still shared; anything built per iteration is not
						shared := false
						for _, root := range provenance(recvArg, provOpts{}) {
							if ri, ok := root.(ssa.Instruction); !ok || ri.Parent() != fn || !inLoop[k](ri.Block()) {
								shared = true
							}
						}
						if !shared {
							continue
						}
					} else {
						continue
					}
				}
				n++
				key := fmt.Sprintf("go:%s@%s", ssaFuncKey(target), ssaFuncKey(fn))
				bad := ""
				seen := map[*ssa.Function]bool{}
				var walk func(f *ssa.Function, d int, via string)
				walk = func(f *ssa.Function, d int, via string) {
					if f == nil || seen[f] || d > 2 || len(f.Blocks) == 0 || len(f.Params) == 0 {
						return
					}
					seen[f] = true
					recv := f.Params[0]
					allInstrs(f, func(in ssa.Instruction) {
						st, ok := in.(*ssa.Store)
						if !ok || bad != "" {
							return
						}
						// a field of the receiver object itself (embedded structs by value included; no pointer hop)
						v := st.Addr
						var names []string
						for {
							fa, ok := v.(*ssa.FieldAddr)
							if !ok {
								break
							}
							if fv := fieldVarOf(fa); fv != nil {
								names = append([]string{fv.Name()}, names...)
							}
							v = fa.X
						}
						if v != ssa.Value(recv) || len(names) == 0 {
							return
						}
						if _, isC := st.Val.(*ssa.Const); isC {
							return // flags, resets
						}
						if !isResourceType(st.Val.Type()) {
							return // counters, timestamps ...: shared bookkeeping, not a per-connection resource
						}
						bad = fmt.Sprintf("%s: %s%s stores into field %s of the object shared by all connection goroutines: the value of the newest connection replaces every sibling's, and code that reads it back acts on another connection's resource", w.Pos(st.Pos()), via, ssaFuncKey(f), strings.Join(names, "."))
					})
					for _, c2 := range callsIn(f) {
						if _, isGo2 := c2.(*ssa.Go); isGo2 {
							continue
						}
						if sc := c2.Common().StaticCallee(); sc != nil && inModule(sc) && sc.Signature.Recv() != nil && len(c2.Common().Args) > 0 && c2.Common().Args[0] == ssa.Value(recv) {
							walk(sc, d+1, via+ssaFuncKey(f)+" -> ")
						}
					}
				}
				walk(target, 0, "")
				r.Check(bad == "", rule, key, w.Pos(g.Pos()), "neither the per-connection goroutine nor the helpers it calls on its receiver store into the shared object's fields", bad)
			}
		}
	}
	if n == 0 {
		r.Undecided(rule, "go:handlers", "-", "no per-connection goroutine found in an accept loop")
	}
}

// lockRegionAny: instructions of fn executed while any sync mutex is held.
func lockRegionAny(fn *ssa.Function) map[ssa.Instruction]bool {
	region, _ := lockRegion(fn, func(v ssa.Value) bool { return true })
	return region
}

// isResourceType: values that stand for one connection's resource — anything with a Close method (connections,
// streams, sessions), or a slice/map of such.
func isResourceType(t types.Type) bool {
	switch u := t.Underlying().(type) {
	case *types.Slice:
		return isResourceType(u.Elem())
	case *types.Map:
		return isResourceType(u.Elem())
	}
	if types.NewMethodSet(t).Lookup(nil, "Close") != nil {
		return true
	}
	if _, isPtr := t.(*types.Pointer); !isPtr {
		if types.NewMethodSet(types.NewPointer(t)).Lookup(nil, "Close") != nil {
			return true
		}
	}
	return false
}
