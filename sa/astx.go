package main

// astx.go — helpers over the type-checked syntax tree.

import (
	"go/ast"
	"go/constant"
	"go/token"
	"go/types"

	"golang.org/x/tools/go/types/typeutil"
)

// calleeOf resolves the function or method object a call expression invokes
// (static functions, concrete methods, interface methods). nil for calls of
// func values, conversions and builtins.
func calleeOf(info *types.Info, call *ast.CallExpr) *types.Func {
	if f, ok := typeutil.Callee(info, call).(*types.Func); ok {
		return f.Origin()
	}
	return nil
}

func builtinName(info *types.Info, call *ast.CallExpr) string {
	if b, ok := typeutil.Callee(info, call).(*types.Builtin); ok {
		return b.Name()
	}
	return ""
}

func unparen(e ast.Expr) ast.Expr {
	for {
		p, ok := e.(*ast.ParenExpr)
		if !ok {
			return e
		}
		e = p.X
	}
}

// constVal returns the constant value of an expression if it has one.
func constVal(info *types.Info, e ast.Expr) constant.Value {
	if tv, ok := info.Types[e]; ok && tv.Value != nil {
		return tv.Value
	}
	return nil
}

func constInt(info *types.Info, e ast.Expr) (int64, bool) {
	v := constVal(info, e)
	if v == nil {
		return 0, false
	}
	if v.Kind() != constant.Int {
		v = constant.ToInt(v)
		if v.Kind() != constant.Int {
			return 0, false
		}
	}
	return constant.Int64Val(v)
}

func constStr(info *types.Info, e ast.Expr) (string, bool) {
	v := constVal(info, e)
	if v == nil || v.Kind() != constant.String {
		return "", false
	}
	return constant.StringVal(v), true
}

// usedObj returns the object an identifier or selector expression denotes
// (variable, field, function, constant).
func usedObj(info *types.Info, e ast.Expr) types.Object {
	switch x := unparen(e).(type) {
	case *ast.Ident:
		if o := info.Uses[x]; o != nil {
			return o
		}
		return info.Defs[x]
	case *ast.SelectorExpr:
		if s, ok := info.Selections[x]; ok {
			return s.Obj()
		}
		return info.Uses[x.Sel]
	}
	return nil
}

// fieldOfSel returns the struct field a selector expression selects, or nil.
func fieldOfSel(info *types.Info, e ast.Expr) *types.Var {
	x, ok := unparen(e).(*ast.SelectorExpr)
	if !ok {
		return nil
	}
	if s, ok := info.Selections[x]; ok && s.Kind() == types.FieldVal {
		v, _ := s.Obj().(*types.Var)
		return v
	}
	return nil
}

// inspectCalls visits every call in n with its resolved callee (may be nil).
func inspectCalls(info *types.Info, n ast.Node, fn func(call *ast.CallExpr, callee *types.Func)) {
	ast.Inspect(n, func(x ast.Node) bool {
		if c, ok := x.(*ast.CallExpr); ok {
			fn(c, calleeOf(info, c))
		}
		return true
	})
}

// fieldStores finds every assignment / inc-dec / composite-literal key that
// stores into struct field `fld` inside n. For composite literals the value
// expression is reported; lhs is nil in that case.
type fieldStore struct {
	Pos   token.Pos
	LHS   ast.Expr // selector expression (nil for composite literal keys)
	RHS   ast.Expr // stored value (nil for ++/-- and multi-value assignments)
	InLit *ast.CompositeLit
}

func findFieldStores(info *types.Info, n ast.Node, fld *types.Var) []fieldStore {
	var out []fieldStore
	ast.Inspect(n, func(x ast.Node) bool {
		switch s := x.(type) {
		case *ast.AssignStmt:
			for i, l := range s.Lhs {
				if fieldOfSel(info, l) == fld {
					var rhs ast.Expr
					if len(s.Rhs) == len(s.Lhs) {
						rhs = s.Rhs[i]
					}
					out = append(out, fieldStore{Pos: l.Pos(), LHS: l, RHS: rhs})
				}
			}
		case *ast.IncDecStmt:
			if fieldOfSel(info, s.X) == fld {
				out = append(out, fieldStore{Pos: s.Pos(), LHS: s.X})
			}
		case *ast.CompositeLit:
			for _, el := range s.Elts {
				if kv, ok := el.(*ast.KeyValueExpr); ok {
					if id, ok := kv.Key.(*ast.Ident); ok {
						if info.Uses[id] == types.Object(fld) {
							out = append(out, fieldStore{Pos: kv.Pos(), RHS: kv.Value, InLit: s})
						}
					}
				}
			}
		}
		return true
	})
	return out
}

// exprStr renders an expression for diagnostics (literals elided by go/types).
func exprStr(e ast.Expr) string {
	if e == nil {
		return "<nil>"
	}
	return types.ExprString(e)
}

// isNilIdent reports whether e is the predeclared nil.
func isNilIdent(info *types.Info, e ast.Expr) bool {
	id, ok := unparen(e).(*ast.Ident)
	if !ok {
		return false
	}
	_, isNil := info.Uses[id].(*types.Nil)
	return isNil
}

// enclosingFuncLits returns true if pos lies within a FuncLit nested in root.
func withinFuncLit(root ast.Node, target ast.Node) bool {
	found := false
	ast.Inspect(root, func(x ast.Node) bool {
		if fl, ok := x.(*ast.FuncLit); ok {
			if fl.Pos() <= target.Pos() && target.End() <= fl.End() {
				found = true
			}
		}
		return !found
	})
	return found
}

// parentMap builds child -> parent links for a subtree.
func parentMap(root ast.Node) map[ast.Node]ast.Node {
	m := map[ast.Node]ast.Node{}
	var stack []ast.Node
	ast.Inspect(root, func(n ast.Node) bool {
		if n == nil {
			stack = stack[:len(stack)-1]
			return true
		}
		if len(stack) > 0 {
			m[n] = stack[len(stack)-1]
		}
		stack = append(stack, n)
		return true
	})
	return m
}

// implementsNamed reports whether type t (or *t) implements iface.
func implementsIface(t types.Type, iface *types.Interface) bool {
	if iface == nil {
		return false
	}
	if types.Implements(t, iface) {
		return true
	}
	if _, isPtr := t.(*types.Pointer); !isPtr {
		if _, isI := t.Underlying().(*types.Interface); !isI {
			return types.Implements(types.NewPointer(t), iface)
		}
	}
	return false
}
