package main

// bounds.go — A10: index/slice safety by linear-inequality entailment.
//
// For every Slice / Index / IndexAddr / string Lookup instruction of a function
// the analysis collects (a) the defining equations of the integer SSA values
// involved (constants, +, -, * const, len(x), len of a slice expression),
// (b) library facts (strings.Index & co. return r with -1 <= r <= len(s)-1,
// len(x) >= 0, compiler-generated range indices), (c) the comparisons on all
// CFG edges that dominate the instruction, and proves the bounds goals
// 0 <= lo <= hi <= len by refutation with Fourier–Motzkin elimination over the
// rationals (sound for integers: rational infeasibility implies integer
// infeasibility). Anything not proven is reported as "may panic". No path is
// executed and no solver is called; this is a small polyhedral abstract
// domain evaluated at one program point.

import (
	"fmt"
	"go/constant"
	"go/token"
	"go/types"
	"math/big"
	"sort"

	"golang.org/x/tools/go/ssa"
)

type lterm struct {
	v     ssa.Value
	isLen bool
	gen   int // 0: the value as it exists at the program point the facts were taken at; >0: recomputed later on a path
}

// lin is sum(co[t]*t) + c
type lin struct {
	co map[lterm]*big.Rat
	c  *big.Rat
}

func newLin() lin { return lin{co: map[lterm]*big.Rat{}, c: new(big.Rat)} }
func linConst(k int64) lin {
	l := newLin()
	l.c.SetInt64(k)
	return l
}
func linTerm(t lterm) lin {
	l := newLin()
	l.co[t] = big.NewRat(1, 1)
	return l
}
func (a lin) clone() lin {
	l := newLin()
	for k, v := range a.co {
		l.co[k] = new(big.Rat).Set(v)
	}
	l.c.Set(a.c)
	return l
}
func (a lin) addScaled(b lin, k *big.Rat) lin {
	l := a.clone()
	for t, v := range b.co {
		x := new(big.Rat).Mul(v, k)
		if cur, ok := l.co[t]; ok {
			x.Add(x, cur)
		}
		if x.Sign() == 0 {
			delete(l.co, t)
		} else {
			l.co[t] = x
		}
	}
	l.c.Add(l.c, new(big.Rat).Mul(b.c, k))
	return l
}
func (a lin) plus(b lin) lin  { return a.addScaled(b, big.NewRat(1, 1)) }
func (a lin) minus(b lin) lin { return a.addScaled(b, big.NewRat(-1, 1)) }
func (a lin) plusConst(k int64) lin {
	l := a.clone()
	l.c.Add(l.c, big.NewRat(k, 1))
	return l
}

// a constraint is "lin <= 0"
type lsys struct {
	cons  []lin
	seen  map[lterm]bool
	queue []lterm
	inPhi bool // guard against re-entering the phi bound while it is being derived
}

func (s *lsys) le(a, b lin) { s.cons = append(s.cons, a.minus(b)); s.note(a); s.note(b) } // a <= b
func (s *lsys) eq(a, b lin) { s.le(a, b); s.le(b, a) }
func (s *lsys) note(a lin) {
	for t := range a.co {
		if !s.seen[t] {
			s.seen[t] = true
			s.queue = append(s.queue, t)
		}
	}
}

func isIntType(t types.Type) bool {
	b, ok := t.Underlying().(*types.Basic)
	return ok && b.Info()&types.IsInteger != 0
}

// linOf expresses an integer SSA value as a linear form over opaque terms.
func linOf(v ssa.Value, depth int) lin {
	if depth > 12 {
		return linTerm(lterm{v: v})
	}
	switch x := v.(type) {
	case *ssa.Const:
		if x.Value != nil && x.Value.Kind() == constant.Int {
			if k, ok := constant.Int64Val(x.Value); ok {
				return linConst(k)
			}
		}
	case *ssa.BinOp:
		if !isIntType(x.Type()) {
			break
		}
		switch x.Op {
		case token.ADD:
			return linOf(x.X, depth+1).plus(linOf(x.Y, depth+1))
		case token.SUB:
			return linOf(x.X, depth+1).minus(linOf(x.Y, depth+1))
		case token.MUL:
			if k, ok := constIntVal(x.Y); ok {
				return newLin().addScaled(linOf(x.X, depth+1), big.NewRat(k, 1))
			}
			if k, ok := constIntVal(x.X); ok {
				return newLin().addScaled(linOf(x.Y, depth+1), big.NewRat(k, 1))
			}
		}
	case *ssa.Call:
		if b, ok := x.Call.Value.(*ssa.Builtin); ok && b.Name() == "len" && len(x.Call.Args) == 1 {
			return lenOf(x.Call.Args[0], depth+1)
		}
	case *ssa.Convert:
		// int <-> int of the same or wider size keeps the value; only the plain int/int64 widenings are accepted
		if isIntType(x.Type()) && isIntType(x.X.Type()) {
			from := x.X.Type().Underlying().(*types.Basic)
			to := x.Type().Underlying().(*types.Basic)
			if from.Kind() == to.Kind() || (from.Kind() == types.Int && to.Kind() == types.Int64) {
				return linOf(x.X, depth+1)
			}
		}
	}
	return linTerm(lterm{v: v})
}

// lenOf expresses len(x) as a linear form.
func lenOf(x ssa.Value, depth int) lin {
	if depth > 12 {
		return linTerm(lterm{v: x, isLen: true})
	}
	switch s := x.(type) {
	case *ssa.Const:
		if s.Value != nil && s.Value.Kind() == constant.String {
			return linConst(int64(len(constant.StringVal(s.Value))))
		}
	case *ssa.Slice:
		// len(s[a:b]) = b - a
		var hi lin
		if s.High != nil {
			hi = linOf(s.High, depth+1)
		} else {
			hi = lenOfOperand(s.X, depth+1)
		}
		if s.Low != nil {
			return hi.minus(linOf(s.Low, depth+1))
		}
		return hi
	case *ssa.MakeSlice:
		return linOf(s.Len, depth+1)
	case *ssa.Call:
		// len(append(a, b...)) = len(a) + len(b)
		if bi, ok := s.Call.Value.(*ssa.Builtin); ok && bi.Name() == "append" && len(s.Call.Args) == 2 {
			if _, isSlice := s.Call.Args[1].Type().Underlying().(*types.Slice); isSlice || isStringOrBytes(s.Call.Args[1].Type()) {
				return lenOf(s.Call.Args[0], depth+1).plus(lenOf(s.Call.Args[1], depth+1))
			}
		}
	case *ssa.ChangeType:
		return lenOf(s.X, depth+1)
	case *ssa.Convert:
		// string <-> []byte conversions keep the length
		if isStringOrBytes(s.Type()) && isStringOrBytes(s.X.Type()) {
			return lenOf(s.X, depth+1)
		}
	}
	if k, ok := arrayLen(x.Type()); ok {
		return linConst(k)
	}
	// every load of a package-level slice that is only assigned by its initialiser has the same length
	if u, ok := x.(*ssa.UnOp); ok && u.Op == token.MUL {
		if g, ok := u.X.(*ssa.Global); ok && frozenGlobal(g) {
			return linTerm(lterm{v: g, isLen: true})
		}
		// two loads of the same field of the same object, in a function that never stores that field, are equal
		if c := canonFieldLoad(u); c != nil {
			return linTerm(lterm{v: c, isLen: true})
		}
	}
	return linTerm(lterm{v: x, isLen: true})
}

func isStringOrBytes(t types.Type) bool {
	switch u := t.Underlying().(type) {
	case *types.Basic:
		return u.Info()&types.IsString != 0
	case *types.Slice:
		b, ok := u.Elem().Underlying().(*types.Basic)
		return ok && b.Kind() == types.Byte
	}
	return false
}

func arrayLen(t types.Type) (int64, bool) {
	switch u := t.Underlying().(type) {
	case *types.Array:
		return u.Len(), true
	case *types.Pointer:
		if a, ok := u.Elem().Underlying().(*types.Array); ok {
			return a.Len(), true
		}
	}
	return 0, false
}

// lenOfOperand: the length of the operand of a Slice/Index instruction
// (pointer-to-array operands have a constant length).
func lenOfOperand(x ssa.Value, depth int) lin {
	if k, ok := arrayLen(x.Type()); ok {
		return linConst(k)
	}
	return lenOf(x, depth)
}

var indexFuncs = map[string]bool{
	"strings.Index": true, "strings.LastIndex": true, "strings.IndexByte": true, "strings.LastIndexByte": true,
	"strings.IndexRune": true, "strings.IndexAny": true, "strings.LastIndexAny": true,
	"bytes.Index": true, "bytes.LastIndex": true, "bytes.IndexByte": true, "bytes.LastIndexByte": true,
	"bytes.IndexRune": true, "bytes.IndexAny": true, "bytes.LastIndexAny": true,
}

// termFacts adds what is known about an opaque term regardless of the path.
func (s *lsys) termFacts(t lterm) {
	if t.isLen {
		s.le(linConst(0), linTerm(t))
		// len(phi(a, b)) >= K when every operand provably has at least K elements (small K): e.g.
		// `if !hasPrefix(p) { p = append(prefix, p...) }` keeps len(p) >= len(prefix)
		if ph, ok := t.v.(*ssa.Phi); ok && !s.inPhi {
			s.inPhi = true
			for k := int64(4); k >= 1; k-- {
				all := true
				for _, e := range ph.Edges {
					if e == ssa.Value(ph) {
						continue
					}
					if !s.entails(linConst(k), lenOf(e, 0)) {
						all = false
						break
					}
				}
				if all {
					s.le(linConst(k), linTerm(t))
					break
				}
			}
			s.inPhi = false
		}
		return
	}
	if t.gen != 0 {
		return // a value recomputed later on a path: nothing is known about it
	}
	switch x := t.v.(type) {
	case *ssa.BinOp:
		// truncated division by a positive constant: q = n / k
		if x.Op == token.QUO && isIntType(x.Type()) {
			if k, ok := constIntVal(x.Y); ok && k > 0 {
				q := linTerm(t)
				n := linOf(x.X, 0)
				kq := newLin().addScaled(q, big.NewRat(k, 1))
				// always: |k*q - n| <= k-1
				s.le(kq, n.plusConst(k-1))
				s.le(n.plusConst(-(k - 1)), kq)
				if nonNegForm(n) || s.provesNonNeg(n) {
					// n >= 0: k*q <= n <= k*q + (k-1)
					s.le(kq, n)
				}
			}
		}
	case *ssa.Call:
		f := sCallee(x)
		if f != nil && f.Pkg() != nil && indexFuncs[f.Pkg().Path()+"."+f.Name()] && len(x.Call.Args) == 2 {
			r := linTerm(t)
			s.le(linConst(-1), r)
			n := lenOf(x.Call.Args[0], 0)
			k := int64(0)
			switch f.Name() {
			case "IndexByte", "LastIndexByte", "IndexRune", "IndexAny", "LastIndexAny":
				k = 1 // a hit consumes at least one byte; a miss is -1
			default:
				if c, ok := x.Call.Args[1].(*ssa.Const); ok && c.Value != nil && c.Value.Kind() == constant.String {
					if l := len(constant.StringVal(c.Value)); l > 0 {
						k = 1
					}
				}
			}
			// r <= len(s) - k   (k = 1 when the needle is known to be non-empty; with r = -1 this holds too)
			s.le(r, n.plusConst(-k))
		}
	case *ssa.Phi:
		if x.Comment == "rangeindex" {
			s.le(linConst(-1), linTerm(t))
			return
		}
		// simple induction: constant starts and self-increments by non-negative constants
		if !isIntType(x.Type()) {
			return
		}
		var min *int64
		for _, e := range x.Edges {
			if k, ok := constIntVal(e); ok {
				if min == nil || k < *min {
					kk := k
					min = &kk
				}
				continue
			}
			l := linOf(e, 0)
			if len(l.co) == 1 {
				if c, ok := l.co[t]; ok && c.Cmp(big.NewRat(1, 1)) == 0 && l.c.Sign() >= 0 {
					continue
				}
			}
			return
		}
		if min != nil {
			s.le(linConst(*min), linTerm(t))
		}
	}
}

// condFacts adds the constraint that boolean value c has truth value `want`.
func (s *lsys) condFacts(c ssa.Value, want bool) {
	c, neg := stripNot(c)
	if neg {
		want = !want
	}
	b, ok := c.(*ssa.BinOp)
	if !ok || !isIntType(b.X.Type()) || !isIntType(b.Y.Type()) {
		return
	}
	x, y := linOf(b.X, 0), linOf(b.Y, 0)
	op := b.Op
	if !want {
		switch op {
		case token.LSS:
			op = token.GEQ
		case token.LEQ:
			op = token.GTR
		case token.GTR:
			op = token.LEQ
		case token.GEQ:
			op = token.LSS
		case token.EQL:
			op = token.NEQ
		case token.NEQ:
			op = token.EQL
		default:
			return
		}
	}
	if op == token.NEQ {
		// x != 0 for a syntactically non-negative x (a length) means x >= 1
		d := x.minus(y)
		if nonNegForm(d) {
			s.le(linConst(1), d)
		} else if nonNegForm(y.minus(x)) {
			s.le(linConst(1), y.minus(x))
		}
		return
	}
	switch op {
	case token.LSS:
		s.le(x.plusConst(1), y)
	case token.LEQ:
		s.le(x, y)
	case token.GTR:
		s.le(y.plusConst(1), x)
	case token.GEQ:
		s.le(y, x)
	case token.EQL:
		s.eq(x, y)
	}
}

// assumedFacts: preconditions under which a helper is being checked (its callers are checked to establish them).
var assumedFacts = map[*ssa.Function][]func(s *lsys){}

// factsAt builds the system of everything known when instruction `in` executes.
func factsAt(in ssa.Instruction) *lsys {
	s := &lsys{seen: map[lterm]bool{}}
	for _, f := range assumedFacts[in.Parent()] {
		f(s)
	}
	b := in.Block()
	for d := b; d != nil; d = d.Idom() {
		// comparisons on dominating edges
		for p := d.Idom(); p != nil; p = p.Idom() {
			ifi, ok := p.Instrs[len(p.Instrs)-1].(*ssa.If)
			if !ok {
				continue
			}
			for i := 0; i < 2; i++ {
				if edgeDominates(p, i, d) && p.Succs[i].Dominates(d) {
					s.condFacts(ifi.Cond, i == 0)
				}
			}
		}
		break
	}
	// successful earlier slices/indexings that dominate `in` established their own bounds
	fn := in.Parent()
	for _, bb := range fn.Blocks {
		for _, other := range bb.Instrs {
			if other == in {
				continue
			}
			if sl, ok := other.(*ssa.Slice); ok && instrDominates(other, in) {
				lo, hi, n := sliceBounds(sl)
				s.le(linConst(0), lo)
				s.le(lo, hi)
				s.le(hi, n)
			}
		}
	}
	return s
}

func sliceBounds(sl *ssa.Slice) (lo, hi, n lin) {
	n = lenOfOperand(sl.X, 0)
	lo = linConst(0)
	if sl.Low != nil {
		lo = linOf(sl.Low, 0)
	}
	hi = n
	if sl.High != nil {
		hi = linOf(sl.High, 0)
	}
	return
}

// entails reports whether the system implies a <= b.
func (s *lsys) entails(a, b lin) bool {
	// refute: a >= b+1  <=>  b + 1 - a <= 0
	t := &lsys{seen: map[lterm]bool{}, inPhi: s.inPhi}
	for k := range s.seen {
		t.seen[k] = true
	}
	t.cons = append(t.cons, s.cons...)
	t.queue = append(t.queue, s.queue...)
	neg := b.plusConst(1).minus(a)
	t.cons = append(t.cons, neg)
	t.note(neg)
	// saturate term facts (facts may mention further terms)
	done := map[lterm]bool{}
	for len(t.queue) > 0 {
		q := t.queue[0]
		t.queue = t.queue[1:]
		if done[q] {
			continue
		}
		done[q] = true
		t.termFacts(q)
	}
	return infeasible(t.cons)
}

// infeasible: Fourier–Motzkin elimination; true iff the system lin_i <= 0 has no rational solution.
func infeasible(cons []lin) bool {
	cur := cons
	for iter := 0; iter < 64; iter++ {
		// contradiction among variable-free constraints?
		var next []lin
		for _, c := range cur {
			if len(c.co) == 0 {
				if c.c.Sign() > 0 {
					return true
				}
				continue
			}
			next = append(next, c)
		}
		cur = next
		if len(cur) == 0 {
			return false
		}
		// pick the variable with the fewest pos*neg combinations
		type cnt struct{ p, n int }
		counts := map[lterm]*cnt{}
		for _, c := range cur {
			for t, v := range c.co {
				if counts[t] == nil {
					counts[t] = &cnt{}
				}
				if v.Sign() > 0 {
					counts[t].p++
				} else {
					counts[t].n++
				}
			}
		}
		var pick lterm
		best := -1
		var keys []lterm
		for t := range counts {
			keys = append(keys, t)
		}
		sort.Slice(keys, func(i, j int) bool { return termName(keys[i]) < termName(keys[j]) })
		for _, t := range keys {
			c := counts[t]
			cost := c.p*c.n - c.p - c.n
			if best == -1 || cost < best {
				best = cost
				pick = t
			}
		}
		var pos, negs, rest []lin
		for _, c := range cur {
			v, ok := c.co[pick]
			switch {
			case !ok:
				rest = append(rest, c)
			case v.Sign() > 0:
				pos = append(pos, c)
			default:
				negs = append(negs, c)
			}
		}
		for _, p := range pos {
			for _, n := range negs {
				// p: a*x + P <= 0 (a>0), n: -b*x + N <= 0 (b>0)  =>  b*P + a*N <= 0
				a := p.co[pick]
				bb := new(big.Rat).Neg(n.co[pick])
				comb := newLin().addScaled(p, bb).addScaled(n, a)
				delete(comb.co, pick)
				rest = append(rest, comb)
			}
		}
		if len(rest) > 4000 {
			return false // give up: not proven
		}
		cur = rest
	}
	return false
}

func termName(t lterm) string {
	n := t.v.Name() + fmt.Sprint("#", t.gen)
	if t.isLen {
		return "len(" + n + ")"
	}
	return n
}

type boundsIssue struct {
	Instr ssa.Instruction
	What  string
}

// checkBounds proves every slice/index operation of fn (and its closures) in
// bounds; returns the number of operations examined and the unproven ones.
func checkBounds(fn *ssa.Function) (int, []boundsIssue) {
	n := 0
	var out []boundsIssue
	withAnon(fn, func(f *ssa.Function) {
		for _, b := range f.Blocks {
			for _, in := range b.Instrs {
				switch x := in.(type) {
				case *ssa.Slice:
					n++
					if x.Low == nil && x.High == nil && x.Max == nil {
						continue
					}
					s := factsAt(in)
					lo, hi, ln := sliceBounds(x)
					if _, isSlice := x.X.Type().Underlying().(*types.Slice); isSlice && x.High != nil {
						// re-slicing up to cap() is legal; only len() is tracked, which is the stricter bound
					}
					var bad []string
					if x.Low != nil && !s.entails(linConst(0), lo) {
						bad = append(bad, "0 <= low")
					}
					if !s.entails(lo, hi) {
						bad = append(bad, "low <= high")
					}
					if x.High != nil && !s.entails(hi, ln) {
						bad = append(bad, "high <= len")
					}
					if len(bad) > 0 {
						out = append(out, boundsIssue{in, fmt.Sprintf("slice expression not proven in bounds (%v)", bad)})
					}
				case *ssa.IndexAddr:
					n++
					out = append(out, indexGoal(in, x.X, x.Index)...)
				case *ssa.Index:
					n++
					out = append(out, indexGoal(in, x.X, x.Index)...)
				case *ssa.Lookup:
					if _, isMap := x.X.Type().Underlying().(*types.Map); isMap {
						continue
					}
					n++
					out = append(out, indexGoal(in, x.X, x.Index)...)
				}
			}
		}
	})
	return n, out
}

func indexGoal(in ssa.Instruction, x, idx ssa.Value) []boundsIssue {
	s := factsAt(in)
	i := linOf(idx, 0)
	ln := lenOfOperand(x, 0)
	var bad []string
	if !s.entails(linConst(0), i) {
		bad = append(bad, "0 <= index")
	}
	if !s.entails(i.plusConst(1), ln) {
		bad = append(bad, "index < len")
	}
	if len(bad) > 0 {
		return []boundsIssue{{in, fmt.Sprintf("index expression not proven in bounds (%v)", bad)}}
	}
	return nil
}

// nonNegForm: the linear form is syntactically non-negative (a sum of len terms with non-negative
// coefficients and a non-negative constant).
func nonNegForm(l lin) bool {
	if l.c.Sign() < 0 {
		return false
	}
	for t, c := range l.co {
		if !t.isLen || c.Sign() < 0 {
			return false
		}
	}
	return true
}

// pathEval evaluates integer values and slice lengths symbolically along one enumerated path, from the
// instruction after `start` up to (not including) `stop`, in terms of the values that existed at `start`
// (generation 0). Loop-carried phis take the value selected by the edge the path took; anything the path
// recomputes that is not understood becomes a fresh unknown (generation 1), so facts about its earlier
// instance are never applied to it.
type pathEval struct {
	ints map[ssa.Value]lin
	lens map[ssa.Value]lin
}

func (pe *pathEval) intOf(v ssa.Value) lin {
	if l, ok := pe.ints[v]; ok {
		return l
	}
	if c, ok := v.(*ssa.Const); ok {
		_ = c
		return linOf(v, 0)
	}
	return linOf1(v, pe)
}

// linOf1: like linOf, but sub-terms are looked up in the path environment first.
func linOf1(v ssa.Value, pe *pathEval) lin {
	if l, ok := pe.ints[v]; ok {
		return l
	}
	switch x := v.(type) {
	case *ssa.BinOp:
		if isIntType(x.Type()) {
			switch x.Op {
			case token.ADD:
				return linOf1(x.X, pe).plus(linOf1(x.Y, pe))
			case token.SUB:
				return linOf1(x.X, pe).minus(linOf1(x.Y, pe))
			case token.MUL:
				if k, ok := constIntVal(x.Y); ok {
					return newLin().addScaled(linOf1(x.X, pe), big.NewRat(k, 1))
				}
				if k, ok := constIntVal(x.X); ok {
					return newLin().addScaled(linOf1(x.Y, pe), big.NewRat(k, 1))
				}
			}
		}
	case *ssa.Call:
		if b, ok := x.Call.Value.(*ssa.Builtin); ok && b.Name() == "len" && len(x.Call.Args) == 1 {
			return pe.lenOf(x.Call.Args[0])
		}
	}
	return linOf(v, 0)
}

func (pe *pathEval) lenOf(v ssa.Value) lin {
	if l, ok := pe.lens[v]; ok {
		return l
	}
	if sl, ok := v.(*ssa.Slice); ok {
		var hi lin
		if sl.High != nil {
			hi = linOf1(sl.High, pe)
		} else if k, ok := arrayLen(sl.X.Type()); ok {
			hi = linConst(k)
		} else {
			hi = pe.lenOf(sl.X)
		}
		if sl.Low != nil {
			return hi.minus(linOf1(sl.Low, pe))
		}
		return hi
	}
	return lenOf(v, 0)
}

func evalPath(start, stop ssa.Instruction, st *pathState) *pathEval {
	pe := &pathEval{ints: map[ssa.Value]lin{}, lens: map[ssa.Value]lin{}}
	blocks := st.Blocks
	// st.Blocks starts at the block of `start`
	first := true
	for _, b := range blocks {
		from := 0
		if first {
			from = instrIndex(start) + 1
			first = false
		}
		// phis of a block are evaluated simultaneously against the environment on entry
		type upd struct {
			v    ssa.Value
			i, l *lin
		}
		var phiUpd []upd
		i := from
		for ; i < len(b.Instrs); i++ {
			ph, ok := b.Instrs[i].(*ssa.Phi)
			if !ok {
				break
			}
			sel, has := st.PhiSel[ph]
			if !has {
				continue
			}
			u := upd{v: ph}
			if isIntType(ph.Type()) {
				l := linOf1(sel, pe)
				u.i = &l
			} else {
				l := pe.lenOf(sel)
				u.l = &l
			}
			phiUpd = append(phiUpd, u)
		}
		for _, u := range phiUpd {
			if u.i != nil {
				pe.ints[u.v] = *u.i
			}
			if u.l != nil {
				pe.lens[u.v] = *u.l
			}
		}
		for ; i < len(b.Instrs); i++ {
			in := b.Instrs[i]
			if in == stop {
				return pe
			}
			v, ok := in.(ssa.Value)
			if !ok {
				continue
			}
			switch x := in.(type) {
			case *ssa.BinOp:
				if isIntType(x.Type()) {
					switch x.Op {
					case token.ADD, token.SUB, token.MUL:
						pe.ints[v] = linOf1(v, &pathEval{ints: without(pe.ints, v), lens: pe.lens})
						continue
					}
				}
			case *ssa.Slice:
				pe.lens[v] = (&pathEval{ints: pe.ints, lens: without(pe.lens, v)}).lenOf(v)
				continue
			case *ssa.Call:
				if bi, ok := x.Call.Value.(*ssa.Builtin); ok && bi.Name() == "len" && len(x.Call.Args) == 1 {
					pe.ints[v] = pe.lenOf(x.Call.Args[0])
					continue
				}
			}
			// recomputed and not understood: a fresh unknown
			if isIntType(v.Type()) {
				pe.ints[v] = linTerm(lterm{v: v, gen: 1})
			} else {
				pe.lens[v] = linTerm(lterm{v: v, isLen: true, gen: 1})
			}
		}
	}
	return pe
}

func without(m map[ssa.Value]lin, k ssa.Value) map[ssa.Value]lin {
	if _, ok := m[k]; !ok {
		return m
	}
	out := make(map[ssa.Value]lin, len(m))
	for a, b := range m {
		if a != k {
			out[a] = b
		}
	}
	return out
}

// provesNonNeg: do the constraints collected so far (without further term facts) already imply l >= 0?
func (s *lsys) provesNonNeg(l lin) bool {
	cons := append([]lin{}, s.cons...)
	// len terms are non-negative
	seen := map[lterm]bool{}
	for _, c := range append(cons, l) {
		for t := range c.co {
			if t.isLen && !seen[t] {
				seen[t] = true
				cons = append(cons, linTerm(t).addScaled(linTerm(t), big.NewRat(-2, 1))) // -len <= 0
			}
		}
	}
	// refute l <= -1  <=>  l + 1 <= 0
	cons = append(cons, l.plusConst(1))
	return infeasible(cons)
}

// canonFieldLoad: for a load `*(&base.f)` in a function that contains no store to field f (of any object) and
// hands base to no call in between, the first such load (same base value, same field) in the function — a
// canonical representative, so that `len(r.Data)` written twice is one term. nil if not applicable.
func canonFieldLoad(u *ssa.UnOp) ssa.Value {
	fa, ok := u.X.(*ssa.FieldAddr)
	if !ok {
		return nil
	}
	fn := u.Parent()
	if fn == nil {
		return nil
	}
	var first ssa.Value
	stored := false
	for _, b := range fn.Blocks {
		for _, in := range b.Instrs {
			switch x := in.(type) {
			case *ssa.Store:
				if fa2, ok := x.Addr.(*ssa.FieldAddr); ok && fa2.Field == fa.Field && types.Identical(fa2.X.Type(), fa.X.Type()) {
					stored = true
				}
			case *ssa.UnOp:
				if fa2, ok := x.X.(*ssa.FieldAddr); ok && x.Op == token.MUL && fa2.X == fa.X && fa2.Field == fa.Field && first == nil {
					first = x
				}
			}
		}
	}
	if stored || first == nil {
		return nil
	}
	return first
}
