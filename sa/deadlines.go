package main

// deadlines.go — deadline pairing: a deadline armed on a connection (for a handshake, a probe) must be
// disarmed in both directions on every path on which the connection lives on as an established session.
// net.Conn deadlines are sticky: an armed one that is left behind cuts the session — every read and/or write
// fails with "i/o timeout" — at a wall-clock time no test of the handshake ever reaches.

import (
	"fmt"
	"go/types"
	"sort"
	"strings"

	"golang.org/x/tools/go/ssa"
)

const (
	dlRead  = 1
	dlWrite = 2
)

type dlKey struct {
	base ssa.Value
	path string
}

// dlRecvKey: the connection a deadline call applies to, as (root value, field path): `conn.Connection`
// loaded twice is the same connection.
func dlRecvKey(v ssa.Value) dlKey {
	var parts []string
	for d := 0; d < 12; d++ {
		switch x := v.(type) {
		case *ssa.UnOp:
			v = x.X
			continue
		case *ssa.FieldAddr:
			if fv := fieldVarOf(x); fv != nil {
				parts = append([]string{fv.Name()}, parts...)
			}
			v = x.X
			continue
		case *ssa.Field:
			if fv := fieldVarOfField(x); fv != nil {
				parts = append([]string{fv.Name()}, parts...)
			}
			v = x.X
			continue
		case *ssa.MakeInterface:
			v = x.X
			continue
		case *ssa.ChangeInterface:
			v = x.X
			continue
		case *ssa.ChangeType:
			v = x.X
			continue
		case *ssa.TypeAssert:
			v = x.X
			continue
		case *ssa.Phi:
			// a phi of one underlying value
			var only ssa.Value
			same := true
			for _, e := range x.Edges {
				if only == nil {
					only = e
				} else if e != only {
					same = false
				}
			}
			if same && only != nil {
				v = only
				continue
			}
		}
		break
	}
	return dlKey{v, strings.Join(parts, ".")}
}

func dlKindOf(name string) int {
	switch name {
	case "SetDeadline":
		return dlRead | dlWrite
	case "SetReadDeadline":
		return dlRead
	case "SetWriteDeadline":
		return dlWrite
	}
	return 0
}

// dlCall: c is a deadline call; returns its receiver, the directions and whether it disarms (zero time).
func dlCall(c ssa.CallInstruction) (recv ssa.Value, kind int, zero bool, ok bool) {
	cc := c.Common()
	name := ""
	var arg ssa.Value
	if cc.IsInvoke() {
		name = cc.Method.Name()
		recv = cc.Value
		if len(cc.Args) == 1 {
			arg = cc.Args[0]
		}
	} else if f := sCallee(c); f != nil && f.Type().(*types.Signature).Recv() != nil {
		name = f.Name()
		if len(cc.Args) == 2 {
			recv, arg = cc.Args[0], cc.Args[1]
		}
	}
	kind = dlKindOf(name)
	if kind == 0 || arg == nil || recv == nil {
		return nil, 0, false, false
	}
	if n, isN := arg.Type().(*types.Named); !isN || n.Obj().Pkg() == nil || n.Obj().Pkg().Path() != "time" || n.Obj().Name() != "Time" {
		return nil, 0, false, false
	}
	if cst, isC := arg.(*ssa.Const); isC && cst.Value == nil {
		zero = true
	}
	return recv, kind, zero, true
}

func isSuccessReturn(st *pathState, fn *ssa.Function, ret *ssa.Return) bool {
	res := fn.Signature.Results()
	if res.Len() == 0 || !isErrorType(res.At(res.Len()-1).Type()) {
		return true
	}
	return isConstNil(st.Resolve(ret.Results[len(ret.Results)-1]))
}

var dlSummaryCache = map[string]int{}

// dlDisarmSummary: the directions fn disarms on its parameter pidx (at field path `path`) on EVERY successful
// path (intersection), following module callees that are handed the same connection.
func dlDisarmSummary(w *World, fn *ssa.Function, pidx int, path string, depth int) int {
	if fn == nil || len(fn.Blocks) == 0 || pidx >= len(fn.Params) || depth > 3 {
		return 0
	}
	ck := fmt.Sprintf("%s|%d|%s", ssaFuncKey(fn), pidx, path)
	if v, ok := dlSummaryCache[ck]; ok {
		return v
	}
	dlSummaryCache[ck] = 0 // recursion guard
	key := dlKey{fn.Params[pidx], path}
	all, n := dlRead|dlWrite, 0
	okp := enumPaths(fn, nil, func(in ssa.Instruction) bool { return dlEvent(w, in, key) }, nil, func(e pathExit) {
		ret, isRet := e.Last.(*ssa.Return)
		if !isRet || !isSuccessReturn(e.State, fn, ret) {
			return
		}
		n++
		got := 0
		for _, ev := range e.State.Events {
			got = dlApply(w, ev, key, got, depth, true)
		}
		all &= got
	})
	if !okp || n == 0 {
		all = 0
	}
	dlSummaryCache[ck] = all
	return all
}

// dlEvent: instructions relevant to the deadline state of `key`.
func dlEvent(w *World, in ssa.Instruction, key dlKey) bool {
	c, ok := in.(ssa.CallInstruction)
	if !ok {
		return false
	}
	if recv, _, _, ok := dlCall(c); ok {
		return dlRecvKey(recv) == key
	}
	if t := closeTarget(w, c); t != nil && dlRecvKey(t).base == key.base {
		return true
	}
	if sc := c.Common().StaticCallee(); sc != nil && inModule(sc) && len(sc.Blocks) > 0 {
		for _, a := range c.Common().Args {
			if k := dlRecvKey(a); k.base == key.base {
				return true
			}
		}
	}
	return false
}

// dlApply folds one event into the set of directions: in disarm mode (summary) `state` is the set of
// directions disarmed so far; otherwise the set still armed.
func dlApply(w *World, ev ssa.Instruction, key dlKey, state int, depth int, disarmMode bool) int {
	c := ev.(ssa.CallInstruction)
	if _, kind, zero, ok := dlCall(c); ok {
		if disarmMode {
			if zero {
				return state | kind
			}
			return state &^ kind // re-armed
		}
		if zero {
			return state &^ kind
		}
		return state | kind
	}
	if t := closeTarget(w, c); t != nil && dlRecvKey(t).base == key.base {
		if disarmMode {
			return dlRead | dlWrite // a closed connection needs no disarming
		}
		return 0
	}
	if sc := c.Common().StaticCallee(); sc != nil && inModule(sc) {
		for i, a := range c.Common().Args {
			k := dlRecvKey(a)
			if k.base != key.base || i >= len(sc.Params) {
				continue
			}
			// the callee sees the connection as parameter i; the field path below it is what remains of key.path
			rest := key.path
			if k.path != "" {
				if !strings.HasPrefix(key.path, k.path) {
					continue
				}
				rest = strings.TrimPrefix(strings.TrimPrefix(key.path, k.path), ".")
			}
			d := dlDisarmSummary(w, sc, i, rest, depth+1)
			if disarmMode {
				state |= d
			} else {
				state &^= d
			}
		}
	}
	return state
}

// ruleDeadlinePairing: every arming deadline call in the module (outside the forwarding Set*Deadline methods of
// the wrappers) is followed, on every path to a successful return on which the connection was not closed, by
// disarming calls covering every armed direction — directly or in the module functions the connection is
// handed to.
func ruleDeadlinePairing(w *World, r *Report, rule string) {
	narm := 0
	var fns []*ssa.Function
	for _, fn := range sortedModuleFuncs(w, w.SSA()) {
		fns = append(fns, fn)
	}
	sort.Slice(fns, func(i, j int) bool { return fns[i].Pos() < fns[j].Pos() })
	for _, fn := range fns {
		if dlKindOf(fn.Name()) != 0 {
			continue // a wrapper's forwarding method
		}
		for _, c := range callsIn(fn) {
			recv, kind, zero, ok := dlCall(c)
			if !ok || zero {
				continue
			}
			narm++
			key := dlRecvKey(recv)
			mname := "deadline"
			if c.Common().IsInvoke() {
				mname = c.Common().Method.Name()
			} else if f := sCallee(c); f != nil {
				mname = f.Name()
			}
			okey := fmt.Sprintf("arm:%s@%s", mname, ssaFuncKey(fn))
			bad := ""
			npaths := 0
			start, _ := c.(ssa.Instruction)
			okp := enumPaths(fn, start, func(in ssa.Instruction) bool { return dlEvent(w, in, key) }, nil, func(e pathExit) {
				ret, isRet := e.Last.(*ssa.Return)
				if !isRet || !isSuccessReturn(e.State, fn, ret) {
					return
				}
				npaths++
				armed := kind
				for _, ev := range e.State.Events {
					armed = dlApply(w, ev, key, armed, 0, false)
				}
				if armed != 0 && bad == "" {
					dir := map[int]string{dlRead: "read", dlWrite: "write", dlRead | dlWrite: "read and write"}[armed]
					bad = fmt.Sprintf("%s: the %s deadline armed here is still armed when %s returns successfully at %s: deadlines are sticky, so the established session is cut (%s fails with i/o timeout) once that wall-clock time passes", w.Pos(c.Pos()), dir, ssaFuncKey(fn), w.Pos(ret.Pos()), dir)
				}
			})
			if !okp {
				r.Undecided(rule, okey, w.Pos(c.Pos()), "path budget exceeded")
				continue
			}
			r.Check(bad == "", rule, okey, w.Pos(c.Pos()), fmt.Sprintf("%d successful path(s) after the arming call; every armed direction is disarmed (or the connection closed) on each", npaths), bad)
		}
	}
	if narm == 0 {
		r.Hold(rule, "arm:none", "-", "no deadline is armed anywhere in the module (only the wrappers' forwarding Set*Deadline methods exist): nothing can be left armed")
	}
}
