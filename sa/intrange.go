package main

import (
	"fmt"
	"go/constant"
	"go/token"
	"go/types"
	"math/big"

	"golang.org/x/tools/go/ssa"
)

// typeRange returns the value range of a sized integer type (int/uint are taken as 32 bit: the narrowest
// configuration the build supports, GOARCH=386).
func typeRange(t types.Type) (lo, hi *big.Int, ok bool) {
	b, isB := t.Underlying().(*types.Basic)
	if !isB || b.Info()&types.IsInteger == 0 {
		return nil, nil, false
	}
	bits := 0
	signed := b.Info()&types.IsUnsigned == 0
	switch b.Kind() {
	case types.Int8, types.Uint8:
		bits = 8
	case types.Int16, types.Uint16:
		bits = 16
	case types.Int32, types.Uint32, types.Int, types.Uint:
		bits = 32
	case types.Int64, types.Uint64, types.Uintptr:
		bits = 64
	default:
		return nil, nil, false
	}
	one := big.NewInt(1)
	if signed {
		hi = new(big.Int).Sub(new(big.Int).Lsh(one, uint(bits-1)), one)
		lo = new(big.Int).Neg(new(big.Int).Lsh(one, uint(bits-1)))
	} else {
		lo = big.NewInt(0)
		hi = new(big.Int).Sub(new(big.Int).Lsh(one, uint(bits)), one)
	}
	return lo, hi, true
}

// vacuousComparison reports a comparison of an integer value with a constant whose outcome is fixed
// by the value's type (for example a byte compared with > 255).
func vacuousComparison(b *ssa.BinOp) string {
	var v ssa.Value
	var c *ssa.Const
	op := b.Op
	if cy, ok := b.Y.(*ssa.Const); ok {
		v, c = b.X, cy
	} else if cx, ok := b.X.(*ssa.Const); ok {
		v, c = b.Y, cx
		switch op { // mirror
		case token.LSS:
			op = token.GTR
		case token.GTR:
			op = token.LSS
		case token.LEQ:
			op = token.GEQ
		case token.GEQ:
			op = token.LEQ
		}
	} else {
		return ""
	}
	if _, isC := v.(*ssa.Const); isC || c.Value == nil || c.Value.Kind() != constant.Int {
		return ""
	}
	lo, hi, ok := typeRange(v.Type())
	if !ok {
		return ""
	}
	k, ok2 := new(big.Int).SetString(c.Value.ExactString(), 10)
	if !ok2 {
		return ""
	}
	always := ""
	switch op {
	case token.GTR: // v > k
		if k.Cmp(hi) >= 0 {
			always = "false"
		}
	case token.GEQ:
		if k.Cmp(hi) > 0 {
			always = "false"
		}
	case token.LSS:
		if k.Cmp(lo) <= 0 {
			always = "false"
		}
	case token.LEQ:
		if k.Cmp(lo) < 0 {
			always = "false"
		}
	default:
		return ""
	}
	if always == "" {
		return ""
	}
	return fmt.Sprintf("the guard %s %s %s can never fire: %s is of type %s (range %s..%s), so the counter wraps around instead of the overflow being reported", v.Name(), op, k, v.Name(), v.Type(), lo, hi)
}

// narrowingRange: for an integer-to-integer conversion that can lose values, the target range.
func narrowingRange(c *ssa.Convert) (lo, hi int64, narrowing bool) {
	if _, isC := c.X.(*ssa.Const); isC {
		return 0, 0, false
	}
	flo, fhi, ok1 := typeRange(c.X.Type())
	tlo, thi, ok2 := typeRange(c.Type())
	if !ok1 || !ok2 {
		return 0, 0, false
	}
	if tlo.Cmp(flo) <= 0 && thi.Cmp(fhi) >= 0 {
		return 0, 0, false // every source value is representable
	}
	if !thi.IsInt64() || !tlo.IsInt64() {
		return 0, 0, false
	}
	return tlo.Int64(), thi.Int64(), true
}
