package main

// layout.go — A8: wire-layout extraction for Encode/Decode pairs of the DNS
// tunnel commands. For each function the successful CFG paths are enumerated
// and the sequence of buffer operations on each path is abstracted to
// u8 / fixed(N) / blob items (with the struct field they carry and, for u8
// writes, the constant written). An encoder layout is acceptable when some
// successful decoder path has the same item sequence, reads the same fields,
// and its branch conditions on the tag bytes hold for the constants written.

import (
	"fmt"
	"go/constant"
	"go/token"
	"go/types"
	"sort"
	"strings"

	"golang.org/x/tools/go/ssa"
)

type wireOp struct {
	Kind  string // "u8" | "fixed" | "blob"
	Size  int
	Field string    // struct field written/read ("" if a local)
	Const *int64    // constant written (encoder u8)
	Val   ssa.Value // decoder: value produced by ReadByte (for tag evaluation)
	In    ssa.Instruction
}

func (o wireOp) shape() string {
	switch o.Kind {
	case "fixed":
		return fmt.Sprintf("fixed%d", o.Size)
	}
	return o.Kind
}

type wirePath struct {
	Ops   []wireOp
	Facts map[ssa.Value]bool
	St    *pathState
}

func (p wirePath) shape() string {
	var s []string
	for _, o := range p.Ops {
		s = append(s, o.shape())
	}
	return strings.Join(s, ",")
}

type layoutInfo struct {
	Paths     []wirePath
	Orders    map[string]bool // byte order objects used
	Codec     string          // "param" | global name | "" (none)
	Header    string          // header helper used
	Undecided string
}

func typeSize(t types.Type) int {
	if p, ok := t.(*types.Pointer); ok {
		t = p.Elem()
	}
	if b, ok := t.Underlying().(*types.Basic); ok {
		switch b.Kind() {
		case types.Uint8, types.Int8, types.Bool:
			return 1
		case types.Uint16, types.Int16:
			return 2
		case types.Uint32, types.Int32, types.Float32:
			return 4
		case types.Uint64, types.Int64, types.Float64:
			return 8
		}
	}
	return 0
}

// fieldPathOf: v is a load of recv.A.B or the address &recv.A.B: "A.B".
func fieldPathOf(v ssa.Value) string {
	var parts []string
	for d := 0; d < 8; d++ {
		switch x := v.(type) {
		case *ssa.MakeInterface:
			v = x.X
		case *ssa.UnOp:
			if x.Op != token.MUL {
				return ""
			}
			v = x.X
		case *ssa.FieldAddr:
			if fv := fieldVarOf(x); fv != nil {
				parts = append([]string{fv.Name()}, parts...)
			}
			v = x.X
		case *ssa.Parameter:
			return strings.Join(parts, ".")
		default:
			return strings.Join(parts, ".")
		}
	}
	return strings.Join(parts, ".")
}

// helperOps: the (unique) operation sequence a module helper applies to the
// buffer passed as argument argIdx.
func helperOps(w *World, callee *ssa.Function, argIdx int, encode bool, depth int) ([]wireOp, bool) {
	if callee == nil || len(callee.Blocks) == 0 || depth > 2 || argIdx >= len(callee.Params) {
		return nil, false
	}
	li := extractLayout(w, callee, callee.Params[argIdx], encode, depth+1)
	if li.Undecided != "" {
		return nil, false
	}
	shapes := map[string][]wireOp{}
	for _, p := range li.Paths {
		shapes[p.shape()] = p.Ops
	}
	// error-only prefixes (shorter sequences) are tolerated: take the longest
	var best []wireOp
	for _, ops := range shapes {
		if len(ops) > len(best) {
			best = ops
		}
	}
	for _, ops := range shapes {
		for i := range ops {
			if i >= len(best) || ops[i].shape() != best[i].shape() {
				return nil, false
			}
		}
	}
	return best, true
}

func isBufferType(t types.Type) bool {
	if p, ok := t.(*types.Pointer); ok {
		if n, ok := p.Elem().(*types.Named); ok && n.Obj().Pkg() != nil && n.Obj().Pkg().Path() == "bytes" && n.Obj().Name() == "Buffer" {
			return true
		}
	}
	return false
}

// extractLayout enumerates successful paths of fn and abstracts operations on
// buffer `buf` (nil: any *bytes.Buffer created in fn).
func extractLayout(w *World, fn *ssa.Function, buf ssa.Value, encode bool, depth int) layoutInfo {
	li := layoutInfo{Orders: map[string]bool{}}
	onBuf := func(v ssa.Value) bool {
		if buf != nil {
			for _, root := range provenance(v, provOpts{}) {
				if root == buf {
					return true
				}
			}
			return v == buf
		}
		if isBufferType(v.Type()) {
			return true
		}
		for _, root := range provenance(v, provOpts{}) {
			if isBufferType(root.Type()) {
				return true
			}
		}
		return false
	}
	classify := func(in ssa.Instruction) ([]wireOp, bool) {
		c, ok := in.(*ssa.Call)
		if !ok {
			return nil, false
		}
		f := sCallee(c)
		if f == nil {
			return nil, false
		}
		args := c.Call.Args
		switch {
		case isPkgFunc(f, "encoding/binary", "Write") && encode, isPkgFunc(f, "encoding/binary", "Read") && !encode:
			if len(args) == 3 && onBuf(args[0]) {
				if u, ok := args[1].(*ssa.MakeInterface); ok {
					li.Orders[u.X.String()] = true
				} else {
					li.Orders[args[1].String()] = true
				}
				var dt types.Type
				if mi, ok := args[2].(*ssa.MakeInterface); ok {
					dt = mi.X.Type()
				} else {
					dt = args[2].Type()
				}
				sz := typeSize(dt)
				if sz == 0 {
					li.Undecided = fmt.Sprintf("%s: binary.%s of a value whose size is not statically fixed", w.Pos(c.Pos()), f.Name())
				}
				return []wireOp{{Kind: "fixed", Size: sz, Field: fieldPathOf(args[2]), In: in}}, true
			}
		case isMethod(f, "bytes", "Buffer", "WriteByte") && encode:
			if onBuf(args[0]) {
				op := wireOp{Kind: "u8", Size: 1, In: in}
				if cv, ok := constIntVal(args[1]); ok {
					op.Const = &cv
				} else {
					op.Val = args[1]
				}
				return []wireOp{op}, true
			}
		case isMethod(f, "bytes", "Buffer", "ReadByte") && !encode:
			if onBuf(args[0]) {
				var val ssa.Value
				for _, ref := range *c.Referrers() {
					if ex, ok := ref.(*ssa.Extract); ok && ex.Index == 0 {
						val = ex
					}
				}
				return []wireOp{{Kind: "u8", Size: 1, Val: val, In: in}}, true
			}
		case (isPkgFunc(f, "encoding/binary", "ReadUvarint") || isPkgFunc(f, "encoding/binary", "ReadVarint")) && !encode:
			if len(args) == 1 && onBuf(args[0]) {
				li.Undecided = fmt.Sprintf("%s: binary.%s reads an integer of value-dependent width (1..10 bytes): variable-width header fields are not modelled — the client's fragment budget reserves a constant number of bytes for the request header", w.Pos(c.Pos()), f.Name())
				return []wireOp{{Kind: "blob", In: in}}, true
			}
		case (isMethod(f, "bytes", "Buffer", "Write") || isMethod(f, "bytes", "Buffer", "WriteString")) && encode:
			if onBuf(args[0]) {
				if sl, ok := args[1].(*ssa.Slice); ok && sl.High != nil {
					for _, root := range provenance(sl.High, provOpts{}) {
						if rc, ok := root.(*ssa.Call); ok {
							if rf := sCallee(rc); isPkgFunc(rf, "encoding/binary", "PutUvarint") || isPkgFunc(rf, "encoding/binary", "PutVarint") {
								li.Undecided = fmt.Sprintf("%s: binary.%s writes an integer of value-dependent width (1..10 bytes): variable-width header fields are not modelled — the client's fragment budget reserves a constant number of bytes for the request header", w.Pos(c.Pos()), rf.Name())
							}
						}
					}
				}
				return []wireOp{{Kind: "blob", Field: fieldPathOf(args[1]), In: in}}, true
			}
		case (isMethod(f, "bytes", "Buffer", "Read") || isMethod(f, "bytes", "Buffer", "ReadString") || isMethod(f, "bytes", "Buffer", "Bytes") || isMethod(f, "bytes", "Buffer", "Next")) && !encode:
			if onBuf(args[0]) {
				return []wireOp{{Kind: "blob", In: in}}, true
			}
		case buf == nil && (f.Name() == "Encode" || f.Name() == "Decode") && f.Pkg() != nil && strings.HasSuffix(f.Pkg().Path(), "/util/enc") && (f.Name() == "Encode") == encode:
			// the payload handed to / taken from the codec without a bytes.Buffer in between is one blob
			if encode {
				arg := args[len(args)-1]
				for _, root := range provenance(arg, provOpts{}) {
					if rc, ok := root.(*ssa.Call); ok && isMethod(sCallee(rc), "bytes", "Buffer", "Bytes") {
						return nil, false
					}
				}
				return payloadOps(arg, in, 0), true
			}
			var res ssa.Value
			for _, ref := range *c.Referrers() {
				if ex, ok := ref.(*ssa.Extract); ok && ex.Index == 0 {
					res = ex
				}
			}
			if res == nil {
				return nil, false
			}
			wrapped := false
			allInstrs(fn, func(in2 ssa.Instruction) {
				c2, ok := in2.(*ssa.Call)
				if !ok {
					return
				}
				if f2 := sCallee(c2); f2 != nil && f2.Pkg() != nil && f2.Pkg().Path() == "bytes" && strings.HasPrefix(f2.Name(), "New") {
					for _, a := range c2.Call.Args {
						for _, root := range provenance(a, provOpts{}) {
							if root == res {
								wrapped = true
							}
						}
					}
				}
			})
			if wrapped {
				return nil, false
			}
			return []wireOp{{Kind: "blob", In: in}}, true
		default:
			// helper taking the buffer
			if sc := c.Call.StaticCallee(); sc != nil && inModule(sc) {
				for i, a := range args {
					if isBufferType(a.Type()) && onBuf(a) {
						ops, ok := helperOps(w, sc, i, encode, depth)
						if !ok {
							li.Undecided = fmt.Sprintf("%s: helper %s applies a layout that is not a single sequence", w.Pos(c.Pos()), ssaFuncKey(sc))
							return nil, true
						}
						out := make([]wireOp, len(ops))
						copy(out, ops)
						for k := range out {
							out[k].In = in
							out[k].Val = nil
						}
						return out, true
					}
				}
			}
		}
		return nil, false
	}
	isEv := func(in ssa.Instruction) bool {
		_, ok := classify(in)
		return ok
	}
	// codec + header helper
	allInstrs(fn, func(in ssa.Instruction) {
		c, ok := in.(ssa.CallInstruction)
		if !ok {
			return
		}
		cc := c.Common()
		if cc.IsInvoke() && (cc.Method.Name() == "Encode" || cc.Method.Name() == "Decode") && strings.HasSuffix(cc.Method.Pkg().Path(), "/util/enc") {
			name := ""
			for _, root := range provenance(cc.Value, provOpts{}) {
				if _, ok := root.(*ssa.Parameter); ok {
					name = "param"
				}
				if u, ok := root.(*ssa.UnOp); ok {
					if g, ok := u.X.(*ssa.Global); ok {
						name = g.Name()
					}
				}
			}
			if li.Codec != "" && li.Codec != name {
				li.Codec = li.Codec + "+" + name
			} else {
				li.Codec = name
			}
		}
		if f := sCallee(c); f != nil && f.Pkg() != nil && strings.HasSuffix(f.Pkg().Path(), "/dns/commands") {
			switch f.Name() {
			case "EncodeRequestHeader", "DecodeRequestHeader", "ValidateType", "EncodeUserId":
				if li.Header == "" {
					li.Header = f.Name()
				} else if !strings.Contains(li.Header, f.Name()) {
					li.Header += "+" + f.Name()
				}
			}
		}
	})
	okp := enumPaths(fn, nil, isEv, nil, func(e pathExit) {
		ret, isRet := e.Last.(*ssa.Return)
		if !isRet || len(ret.Results) == 0 {
			return
		}
		errv := e.State.Resolve(ret.Results[len(ret.Results)-1])
		if !isConstNil(errv) {
			if _, isErrT := errv.Type().Underlying().(*types.Interface); isErrT {
				if isNil, known := e.State.NilKnown(errv); known && !isNil {
					return // error path
				}
				// a freshly constructed error (errors.Errorf/New/Wrap...) is an error path too
				if c, ok := errv.(*ssa.Call); ok {
					if f := sCallee(c); f != nil && f.Pkg() != nil && strings.Contains(f.Pkg().Path(), "errors") {
						return
					}
				}
			}
		}
		var ops []wireOp
		for _, ev := range e.State.Events {
			o, _ := classify(ev)
			ops = append(ops, o...)
		}
		// a text followed by a NUL at the very end of the message is a NUL-terminated text: one blob, which a decoder
		// reads with ReadString(0) (whether the terminator is handled rightly there is R10.16's business)
		if encode && len(ops) >= 2 {
			last, prev := ops[len(ops)-1], ops[len(ops)-2]
			if last.Kind == "u8" && last.Const != nil && *last.Const == 0 && prev.Kind == "blob" {
				ops = ops[:len(ops)-1]
			}
		}
		facts := map[ssa.Value]bool{}
		for k, v := range e.State.Facts {
			facts[k] = v
		}
		li.Paths = append(li.Paths, wirePath{Ops: ops, Facts: facts, St: e.State})
	})
	if !okp {
		li.Undecided = "path budget exceeded in " + ssaFuncKey(fn)
	}
	return li
}

// evalWith evaluates a boolean/integer SSA expression given constant values
// for some SSA values (the tag bytes); ok=false if it depends on anything else.
func evalWith(v ssa.Value, env map[ssa.Value]int64) (constant.Value, bool) {
	if c, ok := v.(*ssa.Const); ok && c.Value != nil {
		return c.Value, true
	}
	if x, ok := env[v]; ok {
		return constant.MakeInt64(x), true
	}
	switch x := v.(type) {
	case *ssa.BinOp:
		a, ok1 := evalWith(x.X, env)
		b, ok2 := evalWith(x.Y, env)
		if !ok1 || !ok2 {
			return nil, false
		}
		switch x.Op {
		case token.EQL, token.NEQ, token.LSS, token.GTR, token.LEQ, token.GEQ:
			return constant.MakeBool(constant.Compare(a, x.Op, b)), true
		case token.AND, token.OR, token.XOR, token.ADD, token.SUB, token.MUL:
			if a.Kind() == constant.Int && b.Kind() == constant.Int {
				return constant.BinaryOp(a, x.Op, b), true
			}
		}
	case *ssa.Convert:
		return evalWith(x.X, env)
	case *ssa.UnOp:
		if x.Op == token.NOT {
			a, ok := evalWith(x.X, env)
			if ok && a.Kind() == constant.Bool {
				return constant.MakeBool(!constant.BoolVal(a)), true
			}
		}
	}
	return nil, false
}

// layoutsAgree: every encoder path has a decoder path with the same shape,
// the same fields, and tag conditions consistent with the constants written.
func layoutsAgree(enc, dec layoutInfo) (ok bool, why string, matched int) {
	if enc.Undecided != "" {
		return false, "undecided: " + enc.Undecided, 0
	}
	if dec.Undecided != "" {
		return false, "undecided: " + dec.Undecided, 0
	}
	if len(enc.Paths) == 0 {
		return false, "no successful encoder path found", 0
	}
	seenShape := map[string]bool{}
	for _, ep := range enc.Paths {
		key := ep.shape()
		for _, o := range ep.Ops {
			if o.Const != nil {
				key += fmt.Sprintf("|%d", *o.Const)
			}
		}
		if seenShape[key] {
			continue
		}
		seenShape[key] = true
		found := false
		reason := "no decoder path reads the sequence [" + ep.shape() + "]"
		for _, dp := range dec.Paths {
			if dp.shape() != ep.shape() {
				continue
			}
			// fields
			fieldsOK := true
			for i := range ep.Ops {
				fe, fd := ep.Ops[i].Field, dp.Ops[i].Field
				if ep.Ops[i].Kind == "fixed" && fe != "" && fd != "" && fe != fd {
					fieldsOK = false
					reason = fmt.Sprintf("item %d: the encoder writes field %s where the decoder reads into %s", i, fe, fd)
				}
			}
			if !fieldsOK {
				continue
			}
			// tag constants
			env := map[ssa.Value]int64{}
			for i := range ep.Ops {
				if ep.Ops[i].Kind == "u8" && ep.Ops[i].Const != nil && dp.Ops[i].Val != nil {
					env[dp.Ops[i].Val] = *ep.Ops[i].Const
				}
			}
			consistent := true
			for cond, truth := range dp.Facts {
				val, known := evalWith(cond, env)
				if !known || val.Kind() != constant.Bool {
					continue
				}
				if constant.BoolVal(val) != truth {
					consistent = false
				}
			}
			if !consistent {
				reason = "a decoder path reads the sequence [" + ep.shape() + "] but only under tag values the encoder does not write for it"
				continue
			}
			found = true
			break
		}
		if !found {
			return false, reason, matched
		}
		matched++
	}
	return true, "", matched
}

func sortedKeys(m map[string]bool) []string {
	var out []string
	for k := range m {
		out = append(out, k)
	}
	sort.Strings(out)
	return out
}

// payloadOps decomposes a payload slice built without a buffer: append(<literal bytes>, rest...) is the
// literal's bytes followed by the rest; anything else is one blob.
func payloadOps(v ssa.Value, in ssa.Instruction, depth int) []wireOp {
	if depth < 4 {
		if c, ok := v.(*ssa.Call); ok {
			if b, ok := c.Call.Value.(*ssa.Builtin); ok && b.Name() == "append" && len(c.Call.Args) == 2 {
				return append(payloadOps(c.Call.Args[0], in, depth+1), payloadOps(c.Call.Args[1], in, depth+1)...)
			}
		}
		if sl, ok := v.(*ssa.Slice); ok {
			if al, ok := sl.X.(*ssa.Alloc); ok {
				if pt, ok := al.Type().Underlying().(*types.Pointer); ok {
					if at, ok := pt.Elem().Underlying().(*types.Array); ok && typeSize(at.Elem()) == 1 && al.Referrers() != nil {
						ops := make([]wireOp, at.Len())
						for i := range ops {
							ops[i] = wireOp{Kind: "u8", Size: 1, In: in}
						}
						for _, ref := range *al.Referrers() {
							ia, ok := ref.(*ssa.IndexAddr)
							if !ok {
								continue
							}
							idx, isC := constIntVal(ia.Index)
							if !isC || idx < 0 || idx >= int64(len(ops)) || ia.Referrers() == nil {
								continue
							}
							for _, r2 := range *ia.Referrers() {
								if st, ok := r2.(*ssa.Store); ok {
									if cv, ok := constIntVal(st.Val); ok {
										c2 := cv
										ops[idx].Const = &c2
									} else {
										ops[idx].Val = st.Val
									}
								}
							}
						}
						return ops
					}
				}
			}
		}
		if cst, ok := v.(*ssa.Const); ok && cst.Value == nil {
			return nil // append(nil, ...)
		}
	}
	return []wireOp{{Kind: "blob", Field: fieldPathOf(v), In: in}}
}
