package main

// lenabs.go — A11: length abstraction of byte-packing codecs.
//
// An abstract interpretation of a codec's Encode / Decode over a small domain: integers that are known
// constants (loop counters, bit-window positions, the input *length*), slices and buffers of known *length*,
// errors of known nil-ness; everything that depends on the input's *contents* is "unknown". A branch on an
// unknown condition explores both successors; all explorations must agree on the result. For a given input
// length the interpretation yields the output length (and whether an error is returned) or "undetermined".
//
// What it decides is the length algebra of a hand-written bit packer: how many symbols Encode emits for n
// input bytes, and whether Decode accepts exactly that many and hands n bytes back. Contents are never
// looked at, no codec function is executed: the interpreter walks the SSA form of the module functions and
// applies transfer functions to the abstract state (library functions are either modelled in libLenModels
// or yield "unknown").

import (
	"fmt"
	"os"
	"go/constant"
	"go/token"
	"go/types"
	"sort"
	"strings"

	"golang.org/x/tools/go/ssa"
)

type lkind int

const (
	lUnknown lkind = iota
	lInt            // known integer (also booleans: 0/1)
	lSlice          // slice / string of known length
	lErr            // error of known nil-ness: I == 0 nil, I == 1 non-nil
	lBuf            // pointer to a modelled bytes.Buffer: I indexes state.bufs
	lNilSlice       // nil slice (length 0), kept apart so that `x == nil` can be decided
	lMade           // a slice made with a known non-zero length, not yet re-sliced: I indexes state.mades
	lFunc           // a function value naming one function (handed to a helper that calls it)
)

type lval struct {
	K lkind
	I int64
	U int64 // lSlice: number of elements of a made buffer that no path has written yet (they hold zero bytes)
	F *ssa.Function
}

// madeBuf: a buffer created by make([]T, n): which prefix of it has been written element by element.
type madeBuf struct {
	Len, Prefix int64
	Untracked   bool // written through an index the abstraction does not know: nothing is claimed
}

type addrRef struct {
	buf int64
	idx int64
}

func (v lval) String() string {
	switch v.K {
	case lInt:
		return fmt.Sprintf("%d", v.I)
	case lSlice:
		if v.U > 0 {
			return fmt.Sprintf("len=%d(%d never written)", v.I, v.U)
		}
		return fmt.Sprintf("len=%d", v.I)
	case lMade:
		return fmt.Sprintf("made#%d", v.I)
	case lNilSlice:
		return "nil-slice"
	case lErr:
		if v.I == 0 {
			return "err=nil"
		}
		return "err!=nil"
	case lBuf:
		return fmt.Sprintf("buf#%d", v.I)
	}
	return "?"
}

type lstate struct {
	env    map[ssa.Value]lval
	tuples map[ssa.Value][]lval
	bufs   []int64
	mades  []madeBuf
	addrs  map[ssa.Value]addrRef
}

// flat: what a made buffer looks like once it leaves the function that tracks it
func (s *lstate) flat(v lval) lval {
	if v.K != lMade {
		return v
	}
	m := s.mades[v.I]
	u := m.Len - m.Prefix
	if m.Untracked || u < 0 {
		u = 0
	}
	return lval{K: lSlice, I: m.Len, U: u}
}

func (s *lstate) clone() *lstate {
	q := &lstate{env: make(map[ssa.Value]lval, len(s.env)), tuples: make(map[ssa.Value][]lval, len(s.tuples)), bufs: append([]int64(nil), s.bufs...),
		mades: append([]madeBuf(nil), s.mades...), addrs: make(map[ssa.Value]addrRef, len(s.addrs))}
	for k, v := range s.addrs {
		q.addrs[k] = v
	}
	for k, v := range s.env {
		q.env[k] = v
	}
	for k, v := range s.tuples {
		q.tuples[k] = v
	}
	return q
}

type lenInterp struct {
	w      *World
	steps  int
	budget int
	fail   string
	// loop-head snapshots of the outermost function: header block -> sequence of known-int phi vectors
	snaps map[*ssa.BasicBlock][][]int64
	top   *ssa.Function
}

// libLenModels: length behaviour of library functions the codecs call, transcribed from the library sources
// in the module cache (listed under Trusted in the evidence).
func libLenModel(f *types.Func, args []lval) ([]lval, bool) {
	if f == nil || f.Pkg() == nil {
		return nil, false
	}
	full := f.FullName()
	ln := func(v lval) (int64, bool) {
		if v.K == lSlice {
			return v.I, true
		}
		if v.K == lNilSlice {
			return 0, true
		}
		return 0, false
	}
	switch full {
	case "go.chromium.org/luci/common/data/base128.DecodeString":
		// dLen = n*7/8; refuses unless EncodedLen(dLen) = (dLen*8+6)/7 equals n
		if n, ok := ln(args[0]); ok {
			d := n * 7 / 8
			if (d*8+6)/7 != n {
				return []lval{{K: lNilSlice, I: 0}, {K: lErr, I: 1}}, true
			}
			// ErrBit needs a symbol >= 0x80: contents, not decided here (R08.x alphabet rules)
			return []lval{{K: lSlice, I: d}, {K: lErr, I: 0}}, true
		}
	case "go.chromium.org/luci/common/data/base128.EncodedLen":
		if args[0].K == lInt {
			return []lval{{K: lInt, I: (args[0].I*8 + 6) / 7}}, true
		}
	case "go.chromium.org/luci/common/data/base128.DecodedLen":
		if args[0].K == lInt {
			return []lval{{K: lInt, I: args[0].I * 7 / 8}}, true
		}
	case "go.chromium.org/luci/common/data/base128.EncodeToString":
		if n, ok := ln(args[0]); ok {
			return []lval{{K: lSlice, I: (n*8 + 6) / 7}}, true
		}
	case "github.com/pkg/errors.WithStack", "github.com/pkg/errors.Wrap", "github.com/pkg/errors.Wrapf", "github.com/pkg/errors.WithMessage":
		if len(args) > 0 && args[0].K == lErr {
			return []lval{args[0]}, true
		}
	case "github.com/pkg/errors.New", "github.com/pkg/errors.Errorf", "errors.New", "fmt.Errorf":
		return []lval{{K: lErr, I: 1}}, true
	}
	return nil, false
}

func maskTo(t types.Type, v int64) int64 {
	b, ok := t.Underlying().(*types.Basic)
	if !ok {
		return v
	}
	switch b.Kind() {
	case types.Uint8:
		return v & 0xff
	case types.Uint16:
		return v & 0xffff
	case types.Uint32:
		return v & 0xffffffff
	case types.Int8:
		return int64(int8(v))
	case types.Int16:
		return int64(int16(v))
	case types.Int32:
		return int64(int32(v))
	}
	return v
}

func (li *lenInterp) val(st *lstate, v ssa.Value) lval {
	if f, ok := v.(*ssa.Function); ok {
		return lval{K: lFunc, F: f}
	}
	if c, ok := v.(*ssa.Const); ok {
		if c.Value == nil {
			if isErrorType(c.Type()) {
				return lval{K: lErr, I: 0}
			}
			if _, isSl := c.Type().Underlying().(*types.Slice); isSl {
				return lval{K: lNilSlice, I: 0}
			}
			return lval{}
		}
		switch c.Value.Kind() {
		case constant.Int:
			if x, ok := constant.Int64Val(c.Value); ok {
				return lval{K: lInt, I: x}
			}
		case constant.Bool:
			if constant.BoolVal(c.Value) {
				return lval{K: lInt, I: 1}
			}
			return lval{K: lInt, I: 0}
		case constant.String:
			return lval{K: lSlice, I: int64(len(constant.StringVal(c.Value)))}
		}
		return lval{}
	}
	return st.env[v]
}

func alenOf(v lval) (int64, bool) {
	switch v.K {
	case lMade:
		return v.U, true // a made buffer carries its length in U
	case lSlice:
		return v.I, true
	case lNilSlice:
		return 0, true
	}
	return 0, false
}

// run interprets fn with abstract arguments and returns every distinct result tuple the explorations reach.
func (li *lenInterp) run(fn *ssa.Function, args []lval, depth int) [][]lval {
	if len(fn.Blocks) == 0 || depth > 4 {
		return nil
	}
	st := &lstate{env: map[ssa.Value]lval{}, tuples: map[ssa.Value][]lval{}, addrs: map[ssa.Value]addrRef{}}
	for i, p := range fn.Params {
		if i < len(args) {
			st.env[p] = args[i]
		}
	}
	var results [][]lval
	seen := map[string]bool{}
	var walk func(b *ssa.BasicBlock, pred *ssa.BasicBlock, st *lstate)
	walk = func(b *ssa.BasicBlock, pred *ssa.BasicBlock, st *lstate) {
		for {
			if li.fail != "" {
				return
			}
			// phis first, simultaneously
			var phiVals []lval
			var phis []*ssa.Phi
			for _, in := range b.Instrs {
				ph, ok := in.(*ssa.Phi)
				if !ok {
					break
				}
				idx := -1
				for k, p := range b.Preds {
					if p == pred {
						idx = k
					}
				}
				if idx < 0 {
					phiVals = append(phiVals, lval{})
				} else {
					phiVals = append(phiVals, li.val(st, ph.Edges[idx]))
				}
				phis = append(phis, ph)
			}
			for k, ph := range phis {
				st.env[ph] = phiVals[k]
			}
			if fn == li.top && len(phis) > 0 && li.snaps != nil {
				var vec []int64
				for _, ph := range phis {
					if v := st.env[ph]; v.K == lInt || v.K == lSlice {
						vec = append(vec, v.I)
					} else {
						vec = append(vec, -1<<40)
					}
				}
				li.snaps[b] = append(li.snaps[b], vec)
			}
			var next *ssa.BasicBlock
			for _, in := range b.Instrs[len(phis):] {
				li.steps++
				if li.steps > li.budget {
					li.fail = "step budget exceeded"
					return
				}
				switch x := in.(type) {
				case *ssa.If:
					c := li.val(st, x.Cond)
					if c.K == lInt {
						if c.I != 0 {
							next = b.Succs[0]
						} else {
							next = b.Succs[1]
						}
					} else {
						// contents-dependent branch: both ways
						walk(b.Succs[0], b, st.clone())
						next = b.Succs[1]
					}
				case *ssa.Jump:
					next = b.Succs[0]
				case *ssa.Return:
					var res []lval
					for _, r := range x.Results {
						res = append(res, st.flat(li.val(st, r)))
					}
					// a returned buffer-backed slice was resolved at Bytes(); nothing else to do
					key := fmt.Sprint(res)
					if !seen[key] {
						seen[key] = true
						results = append(results, res)
					}
					return
				case *ssa.Panic:
					return
				default:
					li.exec(st, in, depth)
				}
			}
			if next == nil {
				return
			}
			pred, b = b, next
		}
	}
	walk(fn.Blocks[0], nil, st)
	return results
}

func (li *lenInterp) exec(st *lstate, in ssa.Instruction, depth int) {
	v, isVal := in.(ssa.Value)
	set := func(x lval) {
		if isVal {
			st.env[v] = x
		}
	}
	switch x := in.(type) {
	case *ssa.Alloc:
		t := x.Type().(*types.Pointer).Elem()
		if n, ok := t.(*types.Named); ok && n.Obj().Pkg() != nil && n.Obj().Pkg().Path() == "bytes" && n.Obj().Name() == "Buffer" {
			st.bufs = append(st.bufs, 0)
			set(lval{K: lBuf, I: int64(len(st.bufs) - 1)})
			return
		}
		if arr, ok := t.Underlying().(*types.Array); ok {
			set(lval{K: lSlice, I: arr.Len()}) // pointer to array: remembered by its length
			return
		}
		set(lval{})
	case *ssa.MakeSlice:
		if l := li.val(st, x.Len); l.K == lInt {
			if l.I > 0 {
				st.mades = append(st.mades, madeBuf{Len: l.I})
				set(lval{K: lMade, I: int64(len(st.mades) - 1), U: l.I})
			} else {
				set(lval{K: lSlice, I: l.I})
			}
		} else {
			set(lval{})
		}
	case *ssa.IndexAddr:
		base := li.val(st, x.X)
		if base.K == lMade {
			if ix := li.val(st, x.Index); ix.K == lInt {
				st.addrs[x] = addrRef{base.I, ix.I}
			} else {
				st.mades[base.I].Untracked = true
			}
		}
		set(lval{})
	case *ssa.Store:
		if a, ok := st.addrs[x.Addr]; ok {
			m := &st.mades[a.buf]
			if a.idx == m.Prefix {
				m.Prefix++
			} else if a.idx > m.Prefix {
				m.Untracked = true // written out of order: not followed
			}
		}
	case *ssa.Slice:
		base := li.val(st, x.X)
		bl, okb := alenOf(base)
		lo, hi := int64(0), bl
		okLo, okHi := true, okb
		if x.Low != nil {
			if l := li.val(st, x.Low); l.K == lInt {
				lo = l.I
			} else {
				okLo = false
			}
		}
		if x.High != nil {
			if h := li.val(st, x.High); h.K == lInt {
				hi, okHi = h.I, true
			} else {
				okHi = false
			}
		}
		if okLo && okHi && hi >= lo {
			set(lval{K: lSlice, I: hi - lo})
		} else {
			set(lval{})
		}
	case *ssa.Convert:
		a := li.val(st, x.X)
		if a.K == lInt {
			set(lval{K: lInt, I: maskTo(x.Type(), a.I)})
		} else if a.K == lSlice || a.K == lNilSlice {
			if n, ok := alenOf(a); ok && isStringOrBytes(x.Type()) {
				set(lval{K: lSlice, I: n})
			} else {
				set(lval{})
			}
		} else {
			set(lval{})
		}
	case *ssa.ChangeType:
		set(li.val(st, x.X))
	case *ssa.MakeInterface:
		a := li.val(st, x.X)
		if isErrorType(x.Type()) {
			set(lval{K: lErr, I: 1})
		} else {
			set(a)
		}
	case *ssa.UnOp:
		a := li.val(st, x.X)
		switch x.Op {
		case token.NOT:
			if a.K == lInt {
				set(lval{K: lInt, I: 1 - a.I})
				return
			}
		case token.SUB:
			if a.K == lInt {
				set(lval{K: lInt, I: maskTo(x.Type(), -a.I)})
				return
			}
		}
		set(lval{})
	case *ssa.BinOp:
		a, b := li.val(st, x.X), li.val(st, x.Y)
		// nil comparisons
		if x.Op == token.EQL || x.Op == token.NEQ {
			isNil := func(v lval, e ssa.Value) (bool, bool) {
				if c, ok := e.(*ssa.Const); ok && c.Value == nil {
					return true, true
				}
				switch v.K {
				case lErr:
					return v.I == 0, true
				case lNilSlice:
					return true, true
				case lSlice:
					return false, true
				}
				return false, false
			}
			_, cx := x.X.(*ssa.Const)
			_, cy := x.Y.(*ssa.Const)
			if (cx && isConstNil(x.X)) || (cy && isConstNil(x.Y)) {
				other, oe := a, x.X
				if cx && isConstNil(x.X) {
					other, oe = b, x.Y
				}
				if n, known := isNil(other, oe); known {
					r := n
					if x.Op == token.NEQ {
						r = !n
					}
					if r {
						set(lval{K: lInt, I: 1})
					} else {
						set(lval{K: lInt, I: 0})
					}
					return
				}
				set(lval{})
				return
			}
		}
		if a.K != lInt || b.K != lInt {
			set(lval{})
			return
		}
		var r int64
		bl := func(c bool) int64 {
			if c {
				return 1
			}
			return 0
		}
		switch x.Op {
		case token.ADD:
			r = a.I + b.I
		case token.SUB:
			r = a.I - b.I
		case token.MUL:
			r = a.I * b.I
		case token.QUO:
			if b.I == 0 {
				set(lval{})
				return
			}
			r = a.I / b.I
		case token.REM:
			if b.I == 0 {
				set(lval{})
				return
			}
			r = a.I % b.I
		case token.AND:
			r = a.I & b.I
		case token.OR:
			r = a.I | b.I
		case token.XOR:
			r = a.I ^ b.I
		case token.AND_NOT:
			r = a.I &^ b.I
		case token.SHL:
			if b.I < 0 || b.I > 62 {
				set(lval{})
				return
			}
			r = a.I << uint(b.I)
		case token.SHR:
			if b.I < 0 || b.I > 62 {
				set(lval{})
				return
			}
			r = a.I >> uint(b.I)
		case token.EQL:
			r = bl(a.I == b.I)
		case token.NEQ:
			r = bl(a.I != b.I)
		case token.LSS:
			r = bl(a.I < b.I)
		case token.LEQ:
			r = bl(a.I <= b.I)
		case token.GTR:
			r = bl(a.I > b.I)
		case token.GEQ:
			r = bl(a.I >= b.I)
		default:
			set(lval{})
			return
		}
		set(lval{K: lInt, I: maskTo(x.Type(), r)})
	case *ssa.Extract:
		if t, ok := st.tuples[x.Tuple]; ok && x.Index < len(t) {
			set(t[x.Index])
		} else {
			set(lval{})
		}
	case *ssa.Call:
		li.call(st, x, depth)
	case *ssa.FieldAddr, *ssa.DebugRef, *ssa.MapUpdate:
		if isVal {
			set(lval{})
		}
	default:
		if isVal {
			set(lval{})
		}
	}
}

func (li *lenInterp) call(st *lstate, c *ssa.Call, depth int) {
	var args, rawArgs []lval
	for _, a := range c.Call.Args {
		v := li.val(st, a)
		rawArgs = append(rawArgs, v)
		args = append(args, st.flat(v)) // a tracked buffer leaves this function's state as a plain slice
	}
	setRes := func(res []lval) {
		if c.Call.Signature().Results().Len() == 1 && len(res) >= 1 {
			st.env[c] = res[0]
		} else {
			st.tuples[c] = res
			st.env[c] = lval{}
		}
	}
	if b, ok := c.Call.Value.(*ssa.Builtin); ok {
		switch b.Name() {
		case "len":
			if n, ok := alenOf(args[0]); ok {
				st.env[c] = lval{K: lInt, I: n}
				return
			}
		case "append":
			n1, ok1 := alenOf(args[0])
			n2, ok2 := int64(0), true
			if len(args) > 1 {
				n2, ok2 = alenOf(args[1])
			}
			if ok1 && ok2 {
				st.env[c] = lval{K: lSlice, I: n1 + n2}
				return
			}
		case "copy":
			n1, ok1 := alenOf(args[0])
			n2, ok2 := alenOf(args[1])
			if ok1 && ok2 {
				if n2 < n1 {
					n1 = n2
				}
				if rawArgs[0].K == lMade {
					if m := &st.mades[rawArgs[0].I]; n1 > m.Prefix {
						m.Prefix = n1
					}
				}
				st.env[c] = lval{K: lInt, I: n1}
				return
			}
		}
		st.env[c] = lval{}
		return
	}
	f := sCallee(c)
	callee := c.Call.StaticCallee()
	if callee == nil && !c.Call.IsInvoke() {
		// a call through a function value that names one function
		if fv := li.val(st, c.Call.Value); fv.K == lFunc && fv.F != nil {
			callee = fv.F
			if o, ok := callee.Object().(*types.Func); ok {
				f = o
			}
		}
	}
	// bytes.Buffer model
	if f != nil && recvNamed(f) != nil && f.Pkg() != nil && f.Pkg().Path() == "bytes" && recvNamed(f).Obj().Name() == "Buffer" && len(args) > 0 && args[0].K == lBuf {
		bi := args[0].I
		switch f.Name() {
		case "WriteByte":
			st.bufs[bi]++
			st.env[c] = lval{K: lErr, I: 0}
			return
		case "Write", "WriteString":
			if n, ok := alenOf(args[1]); ok {
				st.bufs[bi] += n
				st.tuples[c] = []lval{{K: lInt, I: n}, {K: lErr, I: 0}}
				st.env[c] = lval{}
				return
			}
			li.fail = "bytes.Buffer." + f.Name() + " with a payload of undetermined length"
			return
		case "Len":
			st.env[c] = lval{K: lInt, I: st.bufs[bi]}
			return
		case "Bytes":
			st.env[c] = lval{K: lSlice, I: st.bufs[bi]}
			return
		case "String":
			st.env[c] = lval{K: lSlice, I: st.bufs[bi]}
			return
		}
	}
	for _, ra := range rawArgs {
		if ra.K == lMade {
			st.mades[ra.I].Untracked = true // handed to another function: it may fill it
		}
	}
	if res, ok := libLenModel(f, args); ok {
		setRes(res)
		return
	}
	if callee != nil && inModule(callee) && len(callee.Blocks) > 0 && depth < 3 {
		saved := li.top
		outs := li.run(callee, args, depth+1)
		li.top = saved
		if len(outs) == 1 {
			setRes(outs[0])
			return
		}
		if len(outs) > 1 {
			// keep what all explorations agree on
			merged := append([]lval(nil), outs[0]...)
			for _, o := range outs[1:] {
				for i := range merged {
					if i >= len(o) || o[i] != merged[i] {
						merged[i] = lval{}
					}
				}
			}
			setRes(merged)
			return
		}
	}
	if c.Call.Signature().Results().Len() > 1 {
		st.tuples[c] = nil
	}
	st.env[c] = lval{}
}

// lenProfile: output lengths of fn's first result for input lengths 0..K of its first []byte parameter (the
// receiver, if any, is unknown). ok[i] false: undetermined (contents-dependent or not modelled). errs[i]: the
// last result is an error known non-nil in some exploration.
type lenProfile struct {
	Unwritten []int64 // per length: the largest number of never-written elements in a returned made buffer
	Out     []int64
	Ok      []bool
	Err     []bool
	Why     string
	Periods map[string]int // loop header -> smallest affine period observed (0: none)
}

func lengthProfile(w *World, fn *ssa.Function, lengths []int64) lenProfile {
	lp := lenProfile{Periods: map[string]int{}}
	if fn == nil || len(fn.Blocks) == 0 {
		lp.Why = "no body"
		return lp
	}
	pidx := -1
	for i, p := range fn.Params {
		if _, ok := p.Type().Underlying().(*types.Slice); ok && pidx < 0 {
			pidx = i
		}
	}
	if pidx < 0 {
		lp.Why = "no []byte parameter"
		return lp
	}
	for k, n := range lengths {
		li := &lenInterp{w: w, budget: 60000, top: fn}
		if k == len(lengths)-1 {
			li.snaps = map[*ssa.BasicBlock][][]int64{}
		}
		args := make([]lval, len(fn.Params))
		args[pidx] = lval{K: lSlice, I: n}
		outs := li.run(fn, args, 0)
		ok, isErr := li.fail == "" && len(outs) > 0, false
		var out int64 = -1
		var unw int64
		for i, o := range outs {
			if len(o) == 0 {
				ok = false
				break
			}
			last := o[len(o)-1]
			if len(o) > 1 && last.K == lErr && last.I == 1 {
				isErr = true
				continue
			}
			if len(o) > 1 && last.K != lErr {
				ok = false
			}
			if o[0].K == lSlice && o[0].U > unw {
				unw = o[0].U
			}
			l, known := alenOf(o[0])
			if !known {
				ok = false
				if lp.Why == "" {
					lp.Why = fmt.Sprintf("result length undetermined for input length %d (%v)", n, o[0])
				}
			}
			if i > 0 && out >= 0 && l != out {
				ok = false
				if lp.Why == "" {
					lp.Why = fmt.Sprintf("result length depends on the contents for input length %d (%d or %d)", n, out, l)
				}
			}
			out = l
		}
		if li.fail != "" && lp.Why == "" {
			lp.Why = li.fail
		}
		if os.Getenv("SA_DEBUG") != "" {
			fmt.Fprintf(os.Stderr, "lenprofile %s n=%d outs=%v fail=%q\n", fn.Name(), n, outs, li.fail)
		}
		lp.Unwritten = append(lp.Unwritten, unw)
		lp.Out = append(lp.Out, out)
		lp.Ok = append(lp.Ok, (ok && out >= 0) || (isErr && len(outs) == 1))
		lp.Err = append(lp.Err, isErr)
		if !(ok && out >= 0) && !isErr {
			// outside the abstraction: no point in trying the other lengths
			for len(lp.Ok) < len(lengths) {
				lp.Out, lp.Ok, lp.Err, lp.Unwritten = append(lp.Out, -1), append(lp.Ok, false), append(lp.Err, false), append(lp.Unwritten, 0)
			}
			return lp
		}
		if li.snaps != nil {
			for b, seq := range li.snaps {
				if len(seq) < 6 {
					continue // not a loop head (visited a few times only)
				}
				p := affinePeriod(seq)
				lp.Periods[fmt.Sprintf("block %d", b.Index)] = p
			}
		}
	}
	return lp
}

// affinePeriod: smallest p such that seq[i+p]-seq[i] is the same vector for every i (0 if none <= len/3).
func affinePeriod(seq [][]int64) int {
	n := len(seq)
	for p := 1; p <= n/3; p++ {
		ok := true
		var d []int64
		for i := 0; i+p < n && ok; i++ {
			if len(seq[i]) != len(seq[i+p]) {
				ok = false
				break
			}
			cur := make([]int64, len(seq[i]))
			for k := range cur {
				cur[k] = seq[i+p][k] - seq[i][k]
			}
			if d == nil {
				d = cur
			} else {
				for k := range cur {
					if cur[k] != d[k] {
						ok = false
					}
				}
			}
		}
		if ok && d != nil {
			return p
		}
	}
	return 0
}

func periodsStr(m map[string]int) string {
	var ks []string
	for k := range m {
		ks = append(ks, k)
	}
	sort.Strings(ks)
	var out []string
	for _, k := range ks {
		out = append(out, fmt.Sprintf("%s: %d", k, m[k]))
	}
	return strings.Join(out, ", ")
}
