package main

// locks.go — self-deadlock rule: while a function holds a mutex field, nothing
// it calls synchronously (static callees, functions stored in func-typed
// struct fields, closures) may lock the same mutex field again. sync.Mutex is
// not re-entrant: the goroutine would block forever holding the lock, and with
// it every other user of that lock.

import (
	"fmt"
	"go/token"
	"go/types"
	"sort"
	"strings"

	"golang.org/x/tools/go/ssa"
)

func isSyncMutex(t types.Type) bool {
	if p, ok := t.(*types.Pointer); ok {
		t = p.Elem()
	}
	n, ok := t.(*types.Named)
	return ok && n.Obj().Pkg() != nil && n.Obj().Pkg().Path() == "sync" && (n.Obj().Name() == "Mutex" || n.Obj().Name() == "RWMutex")
}

// mutexFieldOf: the struct field a Lock/Unlock receiver denotes (nil for locals/globals).
func mutexFieldOf(v ssa.Value) *types.Var {
	if fa := asFieldAddr(v); fa != nil {
		return fieldVarOf(fa)
	}
	return nil
}

// fieldFuncValues: every function stored anywhere in the module into the func-typed field fv.
func fieldFuncValues(w *World, fv *types.Var) []*ssa.Function {
	var out []*ssa.Function
	for _, fn := range sortedModuleFuncs(w, w.SSA()) {
		allInstrs(fn, func(in ssa.Instruction) {
			st, ok := in.(*ssa.Store)
			if !ok {
				return
			}
			if fa := asFieldAddr(st.Addr); fa != nil && fieldVarOf(fa) == fv {
				out = append(out, funcValues(st.Val)...)
			}
		})
	}
	return out
}

// syncCallees: the module functions a call instruction may run synchronously.
func syncCallees(w *World, c ssa.CallInstruction) []*ssa.Function {
	if _, isGo := c.(*ssa.Go); isGo {
		return nil
	}
	cc := c.Common()
	if sc := cc.StaticCallee(); sc != nil {
		if inModule(sc) {
			return []*ssa.Function{sc}
		}
		return nil
	}
	if cc.IsInvoke() {
		var out []*ssa.Function
		for _, f := range w.calleesOf(c) {
			if inModule(f) {
				out = append(out, f)
			}
		}
		return out
	}
	// call through a function value
	var out []*ssa.Function
	for _, f := range funcValues(cc.Value) {
		if inModule(f) {
			out = append(out, f)
		}
	}
	if u, ok := cc.Value.(*ssa.UnOp); ok {
		if fa := asFieldAddr(u.X); fa != nil {
			if fv := fieldVarOf(fa); fv != nil {
				out = append(out, fieldFuncValues(w, fv)...)
			}
		}
	}
	return out
}

// locksField: does fn (through synchronous module calls, depth-bounded) lock mutex field m? Returns the chain.
func locksField(w *World, fn *ssa.Function, m *types.Var, seen map[*ssa.Function]bool, depth int) []string {
	if fn == nil || seen[fn] || depth > 8 || len(fn.Blocks) == 0 {
		return nil
	}
	seen[fn] = true
	for _, c := range callsIn(fn) {
		if _, isGo := c.(*ssa.Go); isGo {
			continue
		}
		if _, isDefer := c.(*ssa.Defer); isDefer {
			// deferred Unlock etc. — a deferred Lock would be odd; follow deferred module calls like ordinary ones
		}
		f := sCallee(c)
		if (isMethod(f, "sync", "Mutex", "Lock") || isMethod(f, "sync", "RWMutex", "Lock") || isMethod(f, "sync", "RWMutex", "RLock")) && len(c.Common().Args) > 0 {
			if mutexFieldOf(c.Common().Args[0]) == m {
				return []string{ssaFuncKey(fn) + " (" + f.Name() + ")"}
			}
			continue
		}
		for _, callee := range syncCallees(w, c) {
			if chain := locksField(w, callee, m, seen, depth+1); chain != nil {
				return append([]string{ssaFuncKey(fn)}, chain...)
			}
		}
	}
	return nil
}

// ruleNoReentrantLock checks every function of the packages in scope.
func ruleNoReentrantLock(w *World, r *Report, rule string, inScope func(pkgPath string) bool) {
	type res struct {
		n   int
		bad []string
		pos string
	}
	byField := map[string]*res{}
	for _, fn := range sortedModuleFuncs(w, w.SSA()) {
		f0 := fn
		for f0.Parent() != nil {
			f0 = f0.Parent()
		}
		if f0.Pkg == nil || !inScope(f0.Pkg.Pkg.Path()) {
			continue
		}
		// which mutex fields does fn lock?
		fields := map[*types.Var]bool{}
		for _, c := range callsIn(fn) {
			f := sCallee(c)
			if (isMethod(f, "sync", "Mutex", "Lock") || isMethod(f, "sync", "RWMutex", "Lock")) && len(c.Common().Args) > 0 {
				if m := mutexFieldOf(c.Common().Args[0]); m != nil {
					fields[m] = true
				}
			}
		}
		for m := range fields {
			region, _ := lockRegion(fn, func(v ssa.Value) bool { return mutexFieldOf(v) == m })
			key := "mutex:" + fieldOwner(m) + "." + m.Name()
			rs := byField[key]
			if rs == nil {
				rs = &res{pos: w.Pos(m.Pos())}
				byField[key] = rs
			}
			for _, c := range callsIn(fn) {
				if !region[c] {
					continue
				}
				if _, isGo := c.(*ssa.Go); isGo {
					continue
				}
				f := sCallee(c)
				if f != nil && f.Pkg() != nil && f.Pkg().Path() == "sync" {
					continue
				}
				rs.n++
				for _, callee := range syncCallees(w, c) {
					if chain := locksField(w, callee, m, map[*ssa.Function]bool{}, 0); chain != nil {
						rs.bad = append(rs.bad, fmt.Sprintf("%s: %s calls %s while holding %s, which locks the same mutex again (sync.Mutex is not re-entrant): the goroutine blocks forever with the lock held, and everything else that needs the lock — new peers' handshakes included — blocks behind it", w.Pos(c.Pos()), ssaFuncKey(fn), strings.Join(chain, " -> "), m.Name()))
					}
				}
			}
		}
	}
	if len(byField) == 0 {
		r.Undecided(rule, "mutex:*", "-", "no mutex field locked in the packages in scope (anchors moved?)")
		return
	}
	var keys []string
	for k := range byField {
		keys = append(keys, k)
	}
	sort.Strings(keys)
	for _, k := range keys {
		rs := byField[k]
		sort.Strings(rs.bad)
		r.Check(len(rs.bad) == 0, rule, k, rs.pos, fmt.Sprintf("%d synchronous call(s) made while the mutex is held, none reaches a Lock of the same mutex field", rs.n), strings.Join(rs.bad, "; "))
	}
}

func fieldOwner(fv *types.Var) string {
	if fv.Pkg() == nil {
		return "?"
	}
	sc := fv.Pkg().Scope()
	for _, nm := range sc.Names() {
		if tn, ok := sc.Lookup(nm).(*types.TypeName); ok {
			if st, ok := tn.Type().Underlying().(*types.Struct); ok {
				for i := 0; i < st.NumFields(); i++ {
					if st.Field(i) == fv {
						return relPkg(fv.Pkg()) + "." + tn.Name()
					}
				}
			}
		}
	}
	return relPkg(fv.Pkg())
}

// locksAnyField: all mutex fields fn may lock through synchronous module calls.
func locksAnyField(w *World, fn *ssa.Function, seen map[*ssa.Function]bool, depth int, out map[*types.Var]string, via string) {
	if fn == nil || seen[fn] || depth > 8 || len(fn.Blocks) == 0 {
		return
	}
	seen[fn] = true
	for _, c := range callsIn(fn) {
		if _, isGo := c.(*ssa.Go); isGo {
			continue
		}
		f := sCallee(c)
		if (isMethod(f, "sync", "Mutex", "Lock") || isMethod(f, "sync", "RWMutex", "Lock") || isMethod(f, "sync", "RWMutex", "RLock")) && len(c.Common().Args) > 0 {
			if m := mutexFieldOf(c.Common().Args[0]); m != nil {
				if _, ok := out[m]; !ok {
					out[m] = via + ssaFuncKey(fn)
				}
			}
			continue
		}
		for _, callee := range syncCallees(w, c) {
			locksAnyField(w, callee, seen, depth+1, out, via+ssaFuncKey(fn)+" -> ")
		}
	}
}

// ruleLockOrder: the "acquired while holding" relation between mutex fields is acyclic.
func ruleLockOrder(w *World, r *Report, rule string, inScope func(pkgPath string) bool) {
	type edge struct{ from, to *types.Var }
	edges := map[edge]string{}
	fields := map[*types.Var]bool{}
	for _, fn := range sortedModuleFuncs(w, w.SSA()) {
		f0 := fn
		for f0.Parent() != nil {
			f0 = f0.Parent()
		}
		if f0.Pkg == nil || !inScope(f0.Pkg.Pkg.Path()) {
			continue
		}
		held := map[*types.Var]bool{}
		for _, c := range callsIn(fn) {
			f := sCallee(c)
			if (isMethod(f, "sync", "Mutex", "Lock") || isMethod(f, "sync", "RWMutex", "Lock")) && len(c.Common().Args) > 0 {
				if m := mutexFieldOf(c.Common().Args[0]); m != nil {
					held[m] = true
					fields[m] = true
				}
			}
		}
		for m := range held {
			region, _ := lockRegion(fn, func(v ssa.Value) bool { return mutexFieldOf(v) == m })
			for _, c := range callsIn(fn) {
				if !region[c] {
					continue
				}
				if _, isGo := c.(*ssa.Go); isGo {
					continue
				}
				f := sCallee(c)
				if (isMethod(f, "sync", "Mutex", "Lock") || isMethod(f, "sync", "RWMutex", "Lock")) && len(c.Common().Args) > 0 {
					if m2 := mutexFieldOf(c.Common().Args[0]); m2 != nil && m2 != m {
						edges[edge{m, m2}] = w.Pos(c.Pos()) + " in " + ssaFuncKey(fn)
					}
					continue
				}
				for _, callee := range syncCallees(w, c) {
					acq := map[*types.Var]string{}
					locksAnyField(w, callee, map[*ssa.Function]bool{}, 0, acq, "")
					for m2, via := range acq {
						if m2 != m {
							if _, ok := edges[edge{m, m2}]; !ok {
								edges[edge{m, m2}] = w.Pos(c.Pos()) + " in " + ssaFuncKey(fn) + " via " + via
							}
						}
					}
				}
			}
		}
	}
	// cycle search
	adj := map[*types.Var][]*types.Var{}
	for e := range edges {
		adj[e.from] = append(adj[e.from], e.to)
	}
	name := func(m *types.Var) string { return fieldOwner(m) + "." + m.Name() }
	var cyc []string
	state := map[*types.Var]int{}
	var stack []*types.Var
	var dfs func(m *types.Var)
	dfs = func(m *types.Var) {
		state[m] = 1
		stack = append(stack, m)
		for _, n := range adj[m] {
			if state[n] == 1 && len(cyc) == 0 {
				i := 0
				for j, x := range stack {
					if x == n {
						i = j
					}
				}
				for j := i; j < len(stack); j++ {
					nx := n
					if j+1 < len(stack) {
						nx = stack[j+1]
					}
					cyc = append(cyc, fmt.Sprintf("%s -> %s (%s)", name(stack[j]), name(nx), edges[edge{stack[j], nx}]))
				}
			} else if state[n] == 0 {
				dfs(n)
			}
		}
		stack = stack[:len(stack)-1]
		state[m] = 2
	}
	var fl []*types.Var
	for m := range fields {
		fl = append(fl, m)
	}
	sort.Slice(fl, func(i, j int) bool { return name(fl[i]) < name(fl[j]) })
	for _, m := range fl {
		if state[m] == 0 {
			dfs(m)
		}
	}
	var es []string
	for e, at := range edges {
		es = append(es, name(e.from)+" -> "+name(e.to)+" @ "+at)
	}
	sort.Strings(es)
	if len(fl) == 0 {
		r.Undecided(rule, "lockorder", "-", "no mutex field locked in scope")
		return
	}
	r.Check(len(cyc) == 0, rule, "lockorder:"+fmt.Sprint(len(fl))+"-mutex-fields", "-", fmt.Sprintf("%d mutex field(s), %d held-while-acquiring edge(s), no cycle: %s", len(fl), len(edges), strings.Join(es, "; ")),
		"mutexes can be acquired in opposite orders by two goroutines (deadlock): "+strings.Join(cyc, " ; "))
}

// waitsIn: does fn, through synchronous module calls, reach an operation that parks the goroutine until
// somebody else acts (channel send/receive, blocking select, sync Wait, time.Sleep, a peer read)?
func waitsIn(w *World, fn *ssa.Function, seen map[*ssa.Function]bool, depth int) []string {
	if fn == nil || seen[fn] || depth > 8 || len(fn.Blocks) == 0 {
		return nil
	}
	seen[fn] = true
	for _, b := range fn.Blocks {
		for _, in := range b.Instrs {
			switch x := in.(type) {
			case *ssa.Send:
				if !bufferedLocalChan(x.Chan) {
					return []string{ssaFuncKey(fn) + " (channel send)"}
				}
			case *ssa.UnOp:
				if x.Op == token.ARROW {
					return []string{ssaFuncKey(fn) + " (channel receive)"}
				}
			case *ssa.Select:
				if x.Blocking {
					return []string{ssaFuncKey(fn) + " (blocking select)"}
				}
			case ssa.CallInstruction:
				if _, isGo := x.(*ssa.Go); isGo {
					continue
				}
				if _, isDefer := x.(*ssa.Defer); isDefer {
					continue
				}
				f := sCallee(x)
				if f != nil && f.Pkg() != nil {
					if f.Pkg().Path() == "sync" && f.Name() == "Wait" {
						return []string{ssaFuncKey(fn) + " (sync Wait)"}
					}
					if f.Pkg().Path() == "time" && f.Name() == "Sleep" {
						return []string{ssaFuncKey(fn) + " (time.Sleep)"}
					}
				}
				if p := blockingPrimitive(x); p != "" {
					return []string{ssaFuncKey(fn) + " (" + p + ")"}
				}
				if lockPeerWrites {
					if p := peerWritePrimitive(x); p != "" {
						return []string{ssaFuncKey(fn) + " (" + p + ")"}
					}
				}
				for _, callee := range syncCallees(w, x) {
					if chain := waitsIn(w, callee, seen, depth+1); chain != nil {
						return append([]string{ssaFuncKey(fn)}, chain...)
					}
				}
			}
		}
	}
	return nil
}

// bufferedLocalChan: a send on a channel created with a constant capacity >= 1 — in the same function, or
// stored into the struct field it is loaded from by every writer of that field — is treated as a mailbox
// post that does not park (trusted: the mailbox is sized for its producers, e.g. one slot per table entry).
func bufferedLocalChan(ch ssa.Value) bool {
	okAll, n := true, 0
	for _, root := range provenance(ch, provOpts{}) {
		n++
		switch x := root.(type) {
		case *ssa.MakeChan:
			if k, ok := constIntVal(x.Size); !ok || k < 1 {
				okAll = false
			}
		case *ssa.UnOp:
			fa := asFieldAddr(x.X)
			if fa == nil || fieldVarOf(fa) == nil || lockWorld == nil {
				okAll = false
				continue
			}
			fv := fieldVarOf(fa)
			stores := 0
			for _, fn := range sortedModuleFuncs(lockWorld, lockWorld.SSA()) {
				allInstrs(fn, func(in ssa.Instruction) {
					st, ok := in.(*ssa.Store)
					if !ok {
						return
					}
					if fa2 := asFieldAddr(st.Addr); fa2 != nil && fieldVarOf(fa2) == fv {
						stores++
						mk, ok := st.Val.(*ssa.MakeChan)
						if !ok {
							okAll = false
							return
						}
						if k, ok := constIntVal(mk.Size); !ok || k < 1 {
							okAll = false
						}
					}
				})
			}
			if stores == 0 {
				okAll = false
			}
		default:
			okAll = false
		}
	}
	return okAll && n > 0
}

var lockWorld *World

// ruleNoWaitUnderLock: while one of the given mutex fields is held, nothing is called that can wait for
// another party.
// lockPeerWrites: when set, a write to a peer (an invoke of Write / WriteMsg / WriteMessage / WriteTo on an
// interface-typed connection or response writer) counts as waiting for another party: over TCP it blocks as
// long as the peer does not drain its socket.
var lockPeerWrites bool

func peerWritePrimitive(c ssa.CallInstruction) string {
	cc := c.Common()
	if !cc.IsInvoke() {
		return ""
	}
	switch cc.Method.Name() {
	case "Write", "WriteMsg", "WriteMessage", "WriteTo", "WriteJSON":
		if cc.Method.Pkg() != nil && (cc.Method.Pkg().Path() == "github.com/sirupsen/logrus" || cc.Method.Pkg().Path() == "hash") {
			return ""
		}
		return "a write to the peer (" + cc.Method.FullName() + ")"
	}
	return ""
}

func ruleNoWaitUnderLock(w *World, r *Report, rule string, isWideLock func(m *types.Var) bool, consequence string) {
	lockWorld = w
	type res struct {
		n   int
		bad []string
		pos string
	}
	byField := map[string]*res{}
	for _, fn := range sortedModuleFuncs(w, w.SSA()) {
		fields := map[*types.Var]bool{}
		for _, c := range callsIn(fn) {
			f := sCallee(c)
			if (isMethod(f, "sync", "Mutex", "Lock") || isMethod(f, "sync", "RWMutex", "Lock")) && len(c.Common().Args) > 0 {
				if m := mutexFieldOf(c.Common().Args[0]); m != nil && isWideLock(m) {
					fields[m] = true
				}
			}
		}
		for m := range fields {
			region, _ := lockRegion(fn, func(v ssa.Value) bool { return mutexFieldOf(v) == m })
			key := "mutex:" + fieldOwner(m) + "." + m.Name() + "|no-wait"
			rs := byField[key]
			if rs == nil {
				rs = &res{pos: w.Pos(m.Pos())}
				byField[key] = rs
			}
			for _, b := range fn.Blocks {
				for _, in := range b.Instrs {
					if !region[in] {
						continue
					}
					switch x := in.(type) {
					case *ssa.Send:
						if !bufferedLocalChan(x.Chan) {
							rs.bad = append(rs.bad, fmt.Sprintf("%s: %s sends on a channel while holding %s: %s", w.Pos(in.Pos()), ssaFuncKey(fn), m.Name(), consequence))
						}
					case *ssa.UnOp:
						if x.Op == token.ARROW {
							rs.bad = append(rs.bad, fmt.Sprintf("%s: %s receives from a channel while holding %s: %s", w.Pos(in.Pos()), ssaFuncKey(fn), m.Name(), consequence))
						}
					case *ssa.Select:
						if x.Blocking {
							rs.bad = append(rs.bad, fmt.Sprintf("%s: %s blocks in a select while holding %s: %s", w.Pos(in.Pos()), ssaFuncKey(fn), m.Name(), consequence))
						}
					case ssa.CallInstruction:
						if _, isGo := x.(*ssa.Go); isGo {
							continue
						}
						f := sCallee(x)
						if f != nil && f.Pkg() != nil && f.Pkg().Path() == "sync" {
							continue
						}
						rs.n++
						if p := blockingPrimitive(x); p != "" {
							rs.bad = append(rs.bad, fmt.Sprintf("%s: %s calls %s while holding %s: %s", w.Pos(in.Pos()), ssaFuncKey(fn), p, m.Name(), consequence))
							continue
						}
						if lockPeerWrites {
							if p := peerWritePrimitive(x); p != "" {
								rs.bad = append(rs.bad, fmt.Sprintf("%s: %s performs %s while holding %s: %s", w.Pos(in.Pos()), ssaFuncKey(fn), p, m.Name(), consequence))
								continue
							}
						}
						for _, callee := range syncCallees(w, x) {
							if chain := waitsIn(w, callee, map[*ssa.Function]bool{}, 0); chain != nil {
								rs.bad = append(rs.bad, fmt.Sprintf("%s: %s calls %s while holding %s: %s", w.Pos(in.Pos()), ssaFuncKey(fn), strings.Join(chain, " -> "), m.Name(), consequence))
							}
						}
					}
				}
			}
		}
	}
	if len(byField) == 0 {
		r.Undecided(rule, "mutex:*|no-wait", "-", "none of the listener-wide mutexes is locked anywhere (anchors moved?)")
		return
	}
	var keys []string
	for k := range byField {
		keys = append(keys, k)
	}
	sort.Strings(keys)
	for _, k := range keys {
		rs := byField[k]
		sort.Strings(rs.bad)
		r.Check(len(rs.bad) == 0, rule, k, rs.pos, fmt.Sprintf("%d call(s) made while the mutex is held, none can wait for another party", rs.n), strings.Join(rs.bad, "; "))
	}
}

// ruleLocksetConsistent: Eraser-style, statically. For every struct type of the packages in scope that has
// mutex fields, and every other field of it that is written under one of those mutexes somewhere: all
// write sites outside constructors hold a common mutex. A field written under mutex A in one method and
// under mutex B in another is effectively unprotected.
func ruleLocksetConsistent(w *World, r *Report, rule string, inScope func(pkgPath string) bool, consequence string) {
	mods := allModuleFuncs(w, w.SSA())
	// struct types with mutex fields
	type tinfo struct {
		named   *types.Named
		mutexes []*types.Var
	}
	var tis []tinfo
	for _, p := range w.Pkgs {
		if !inScope(p.Types.Path()) {
			continue
		}
		sc := p.Types.Scope()
		for _, nm := range sc.Names() {
			tn, ok := sc.Lookup(nm).(*types.TypeName)
			if !ok {
				continue
			}
			n, ok := tn.Type().(*types.Named)
			if !ok {
				continue
			}
			st, ok := n.Underlying().(*types.Struct)
			if !ok {
				continue
			}
			ti := tinfo{named: n}
			for i := 0; i < st.NumFields(); i++ {
				if isSyncMutex(st.Field(i).Type()) {
					ti.mutexes = append(ti.mutexes, st.Field(i))
				}
			}
			if len(ti.mutexes) > 0 {
				tis = append(tis, ti)
			}
		}
	}
	if len(tis) == 0 {
		r.Undecided(rule, "lockset:*", "-", "no struct type with mutex fields in scope")
		return
	}
	regionCache := map[*ssa.Function]map[*types.Var]map[ssa.Instruction]bool{}
	region := func(f *ssa.Function, m *types.Var) map[ssa.Instruction]bool {
		if regionCache[f] == nil {
			regionCache[f] = map[*types.Var]map[ssa.Instruction]bool{}
		}
		if rg, ok := regionCache[f][m]; ok {
			return rg
		}
		rg, _ := lockRegion(f, func(v ssa.Value) bool { return mutexFieldOf(v) == m })
		regionCache[f][m] = rg
		return rg
	}
	var heldAt func(in ssa.Instruction, m *types.Var, depth int) bool
	heldAt = func(in ssa.Instruction, m *types.Var, depth int) bool {
		f := in.Parent()
		if region(f, m)[in] {
			return true
		}
		if depth > 3 {
			return false
		}
		// closures run where they are called; a helper is protected if every call site is
		var obj *types.Func
		if o, ok := f.Object().(*types.Func); ok {
			obj = o
		}
		if obj == nil {
			return false
		}
		n := 0
		for caller := range mods {
			for _, c := range callsIn(caller) {
				if sCallee(c) == obj && !c.Common().IsInvoke() {
					n++
					if _, isGo := c.(*ssa.Go); isGo {
						return false
					}
					if !heldAt(c, m, depth+1) {
						return false
					}
				}
			}
		}
		return n > 0
	}
	for _, ti := range tis {
		st := ti.named.Underlying().(*types.Struct)
		for i := 0; i < st.NumFields(); i++ {
			fv := st.Field(i)
			if isSyncMutex(fv.Type()) {
				continue
			}
			type site struct {
				in   ssa.Instruction
				held map[*types.Var]bool
			}
			var sites []site
			anyHeld := false
			for fn := range mods {
				// constructors: writes to a value allocated in the same function are not shared yet
				allInstrs(fn, func(in ssa.Instruction) {
					stt, ok := in.(*ssa.Store)
					if !ok {
						return
					}
					fa := asFieldAddr(stt.Addr)
					if fa == nil || fieldVarOf(fa) != fv {
						return
					}
					if _, fresh := fa.X.(*ssa.Alloc); fresh {
						return
					}
					h := map[*types.Var]bool{}
					for _, m := range ti.mutexes {
						if heldAt(in, m, 0) {
							h[m] = true
							anyHeld = true
						}
					}
					sites = append(sites, site{in, h})
				})
			}
			if !anyHeld || len(sites) < 2 {
				continue // never written under a lock (not a lock-protected field), or a single writer
			}
			key := "lockset:" + qualName(ti.named) + "." + fv.Name()
			common := map[*types.Var]bool{}
			for _, m := range ti.mutexes {
				common[m] = true
			}
			for _, s := range sites {
				for m := range common {
					if !s.held[m] {
						delete(common, m)
					}
				}
			}
			if len(common) > 0 {
				var ms []string
				for m := range common {
					ms = append(ms, m.Name())
				}
				sort.Strings(ms)
				r.Hold(rule, key, w.Pos(fv.Pos()), fmt.Sprintf("%d write site(s), all under %s", len(sites), strings.Join(ms, "+")))
				continue
			}
			var desc []string
			for _, s := range sites {
				var ms []string
				for m := range s.held {
					ms = append(ms, m.Name())
				}
				sort.Strings(ms)
				if len(ms) == 0 {
					ms = []string{"no lock"}
				}
				desc = append(desc, fmt.Sprintf("%s in %s under %s", w.Pos(s.in.Pos()), ssaFuncKey(s.in.Parent()), strings.Join(ms, "+")))
			}
			sort.Strings(desc)
			r.Violate(rule, key, w.Pos(fv.Pos()), fmt.Sprintf("field %s is written under different locks (%s): the writers do not exclude each other — %s", fv.Name(), strings.Join(desc, "; "), consequence))
		}
	}
}

// heldWithCallers: instruction `in` executes with the mutex (recognised by isMutexVal on the Lock receiver)
// held — inside a lock region of its own function, or its function is called only from such regions
// (static calls, never via go), transitively to the given depth.
func heldWithCallers(w *World, in ssa.Instruction, isMutexVal func(ssa.Value) bool, depth int) bool {
	f := in.Parent()
	region, _ := lockRegion(f, isMutexVal)
	if region[in] {
		return true
	}
	if depth > 3 {
		return false
	}
	obj, _ := f.Object().(*types.Func)
	if obj == nil {
		// an anonymous function: held if every closure made of it is handed to a helper that runs its function
		// parameter while holding the mutex (`s.withLock(func() { ... })`), or is called in a lock region
		if f.Parent() == nil {
			return false
		}
		nuse := 0
		okAll := true
		allInstrs(f.Parent(), func(pin ssa.Instruction) {
			mc, ok := pin.(*ssa.MakeClosure)
			if !ok || mc.Fn != ssa.Value(f) || mc.Referrers() == nil {
				return
			}
			for _, ref := range *mc.Referrers() {
				c, ok := ref.(ssa.CallInstruction)
				if !ok {
					if _, isDbg := ref.(*ssa.DebugRef); !isDbg {
						okAll = false
					}
					continue
				}
				if _, isGo := c.(*ssa.Go); isGo {
					okAll = false
					continue
				}
				nuse++
				if c.Common().Value == ssa.Value(mc) {
					// called right here
					if !heldWithCallers(w, c, isMutexVal, depth+1) {
						okAll = false
					}
					continue
				}
				h := c.Common().StaticCallee()
				idx := -1
				for i, a := range c.Common().Args {
					if a == ssa.Value(mc) {
						idx = i
					}
				}
				if h == nil || !inModule(h) || idx < 0 || idx >= len(h.Params) || len(h.Blocks) == 0 {
					okAll = false
					continue
				}
				// inside h: every call of that parameter lies in h's lock region, and the parameter goes nowhere else
				hregion, _ := lockRegion(h, isMutexVal)
				ncall := 0
				if refs := h.Params[idx].Referrers(); refs != nil {
					for _, r2 := range *refs {
						hc, ok := r2.(ssa.CallInstruction)
						if ok && hc.Common().Value == ssa.Value(h.Params[idx]) {
							if _, isGo := hc.(*ssa.Go); isGo || !hregion[hc] {
								okAll = false
							}
							ncall++
							continue
						}
						if _, isDbg := r2.(*ssa.DebugRef); !isDbg {
							okAll = false
						}
					}
				}
				if ncall == 0 {
					okAll = false
				}
			}
		})
		return nuse > 0 && okAll
	}
	n := 0
	for _, caller := range sortedModuleFuncs(w, w.SSA()) {
		for _, c := range callsIn(caller) {
			if sCallee(c) == obj && !c.Common().IsInvoke() {
				n++
				if _, isGo := c.(*ssa.Go); isGo {
					return false
				}
				if !heldWithCallers(w, c, isMutexVal, depth+1) {
					return false
				}
			}
		}
	}
	return n > 0
}

// ruleFlagBrackets: a function that raises a flag field (stores a non-zero constant, directly or through
// sync/atomic) and lowers it again (stores zero) brackets a region, like Lock/Unlock. Every path from the
// raise to a return must pass a lowering store — an early return inside the bracket leaves the flag up for
// good, and whoever tests it (the retransmission poller) stays switched off.
func ruleFlagBrackets(w *World, r *Report, rule string, inScope func(pkgPath string) bool, consequence string) {
	type ev struct {
		fld *types.Var
		up  bool
	}
	classify := func(in ssa.Instruction) (ev, bool) {
		switch x := in.(type) {
		case *ssa.Store:
			fa := asFieldAddr(x.Addr)
			if fa == nil {
				return ev{}, false
			}
			fv := fieldVarOf(fa)
			if fv == nil {
				return ev{}, false
			}
			if b, ok := constBool(x.Val); ok {
				return ev{fv, b}, true
			}
			if bt, ok := fv.Type().Underlying().(*types.Basic); ok && bt.Info()&types.IsInteger != 0 {
				if v, ok := constIntVal(x.Val); ok && (v == 0 || v == 1) {
					return ev{fv, v != 0}, true
				}
			}
		case *ssa.Call:
			f := sCallee(x)
			if f != nil && f.Pkg() != nil && f.Pkg().Path() == "sync/atomic" && strings.HasPrefix(f.Name(), "Store") && len(x.Call.Args) == 2 {
				fa := asFieldAddr(x.Call.Args[0])
				if fa == nil {
					return ev{}, false
				}
				if v, ok := constIntVal(x.Call.Args[1]); ok {
					return ev{fieldVarOf(fa), v != 0}, true
				}
			}
		}
		return ev{}, false
	}
	n := 0
	for _, fn := range sortedModuleFuncs(w, w.SSA()) {
		f0 := fn
		for f0.Parent() != nil {
			f0 = f0.Parent()
		}
		if f0.Pkg == nil || !inScope(f0.Pkg.Pkg.Path()) {
			continue
		}
		ups := map[*types.Var][]ssa.Instruction{}
		downs := map[*types.Var]bool{}
		allInstrs(fn, func(in ssa.Instruction) {
			if e, ok := classify(in); ok && e.fld != nil {
				if e.up {
					ups[e.fld] = append(ups[e.fld], in)
				} else {
					downs[e.fld] = true
				}
			}
		})
		for fld, raises := range ups {
			if !downs[fld] {
				continue // not a bracket in this function (e.g. closed = true)
			}
			// a bracket only if a lowering store can follow the raise (a setting chosen per branch —
			// `if ok { f = true; return }; f = false` — is not one)
			var bracketing []ssa.Instruction
			for _, up := range raises {
				if canReach(fn, up, nil, func(in ssa.Instruction) bool { c, ok := classify(in); return ok && c.fld == fld && !c.up }) != nil {
					bracketing = append(bracketing, up)
				}
			}
			raises = bracketing
			if len(raises) == 0 {
				continue
			}
			// the function must report through an error result: the bracket is "lowered on every successful
			// return"; the slip looked for is an error return that forgets the lowering
			res := fn.Signature.Results()
			if res.Len() == 0 || !types.Identical(res.At(res.Len()-1).Type(), types.Universe.Lookup("error").Type()) {
				continue
			}
			key := "flag:" + fieldOwner(fld) + "." + fld.Name() + "@" + ssaFuncKey(fn)
			bad := ""
			succAll, nsucc := true, 0
			var leaks []string
			for _, up := range raises {
				okp := enumPaths(fn, up, func(in ssa.Instruction) bool {
					e, ok := classify(in)
					return ok && e.fld == fld
				}, nil, func(e pathExit) {
					ret, isRet := e.Last.(*ssa.Return)
					if !isRet {
						return
					}
					lowered := false
					for _, x := range e.State.Events {
						if c, _ := classify(x); c.fld == fld {
							lowered = !c.up
						}
					}
					isSucc := isConstNil(e.State.Resolve(ret.Results[len(ret.Results)-1]))
					if isSucc {
						nsucc++
						if !lowered {
							succAll = false
						}
					} else if !lowered {
						leaks = append(leaks, fmt.Sprintf("%s: an error return leaves %s raised (raised at %s, lowered on every successful return): %s", w.Pos(ret.Pos()), fld.Name(), w.Pos(up.Pos()), consequence))
					}
				})
				if !okp {
					bad = "path budget exceeded"
				}
			}
			if !succAll || nsucc == 0 {
				continue // the successful outcome keeps the flag: a setting, not a bracket
			}
			n++
			if len(leaks) > 0 && bad == "" {
				sort.Strings(leaks)
				bad = leaks[0]
			}
			// a deferred lowering covers every return
			if bad != "" {
				allInstrs(fn, func(in ssa.Instruction) {
					if d, ok := in.(*ssa.Defer); ok {
						if mc, ok := d.Call.Value.(*ssa.MakeClosure); ok {
							allInstrs(mc.Fn.(*ssa.Function), func(x ssa.Instruction) {
								// the closure sees the field through its own FieldAddr on a captured receiver
								if c, ok := classify(x); ok && c.fld == fld && !c.up {
									bad = ""
								}
							})
						}
						if f := sCallee(d); f != nil && f.Pkg() != nil && f.Pkg().Path() == "sync/atomic" && strings.HasPrefix(f.Name(), "Store") {
							if fa := asFieldAddr(d.Call.Args[0]); fa != nil && fieldVarOf(fa) == fld {
								if v, ok := constIntVal(d.Call.Args[1]); ok && v == 0 {
									bad = ""
								}
							}
						}
					}
				})
			}
			r.Check(bad == "", rule, key, w.Pos(fn.Pos()), "every path from the raise to a return lowers the flag again", bad)
		}
	}
	if n == 0 {
		r.Hold(rule, "flag:*", "-", "no function raises and lowers a flag field (no bracket to check)")
	}
}

// ---------------------------------------------------------------------------------------------
// ruleUnlockHeld: the dual of "every Lock is released": every Unlock (RUnlock) releases a mutex that is held on
// EVERY path reaching it — locked earlier in the same function (directly or by a module helper with a
// constant net locking effect), or the function is only ever called from lock regions of that mutex.
// sync: "unlock of unlocked mutex" is a fatal runtime error, not a panic: no recover() contains it.

type muKey struct {
	base ssa.Value
	fld  *types.Var
}

func muKeyOf(v ssa.Value) muKey {
	k := dlRecvKey(v)
	return muKey{k.base, mutexFieldOf(v)}
}

// muOp: +1 for Lock/RLock, -1 for Unlock/RUnlock on a sync mutex; the receiver value.
func muOp(c ssa.CallInstruction) (int, ssa.Value) {
	f := sCallee(c)
	if f == nil || len(c.Common().Args) == 0 {
		return 0, nil
	}
	if !(isMethod(f, "sync", "Mutex", f.Name()) || isMethod(f, "sync", "RWMutex", f.Name())) {
		return 0, nil
	}
	switch f.Name() {
	case "Lock", "RLock":
		return 1, c.Common().Args[0]
	case "Unlock", "RUnlock":
		return -1, c.Common().Args[0]
	}
	return 0, nil
}

var muEffectCache = map[string][2]int{}

// muNetEffect: the net locking effect of calling g on the mutex field fld of its parameter pidx: (effect, 1)
// when every path to a return has the same net effect, (0, 0) when it differs or cannot be told.
func muNetEffect(w *World, g *ssa.Function, pidx int, fld *types.Var, depth int) (int, bool) {
	if g == nil || len(g.Blocks) == 0 || pidx >= len(g.Params) || depth > 2 {
		return 0, true // no body in the module: cannot touch an unexported mutex field
	}
	ck := fmt.Sprintf("%s|%d|%s", ssaFuncKey(g), pidx, fld.Name())
	if v, ok := muEffectCache[ck]; ok {
		return v[0], v[1] == 1
	}
	muEffectCache[ck] = [2]int{0, 1}
	key := muKey{g.Params[pidx], fld}
	first, eff, same := true, 0, true
	okp := enumPaths(g, nil, func(in ssa.Instruction) bool { return muEvent(w, in, key) }, nil, func(e pathExit) {
		if _, isRet := e.Last.(*ssa.Return); !isRet {
			return
		}
		d := 0
		for _, ev := range e.State.Events {
			x, known := muApply(w, ev, key, depth+1)
			if !known {
				same = false
			}
			d += x
		}
		// deferred unlocks run at the return
		allInstrs(g, func(in ssa.Instruction) {
			if df, ok := in.(*ssa.Defer); ok {
				if op, recv := muOp(df); op != 0 && muKeyOf(recv) == key {
					d += op
				}
			}
		})
		if first {
			eff, first = d, false
		} else if d != eff {
			same = false
		}
	})
	if !okp {
		same = false
	}
	if !same {
		eff = 0
	}
	v := [2]int{eff, 0}
	if same {
		v[1] = 1
	}
	muEffectCache[ck] = v
	return eff, same
}

func muEvent(w *World, in ssa.Instruction, key muKey) bool {
	c, ok := in.(*ssa.Call)
	if !ok {
		return false
	}
	if op, recv := muOp(c); op != 0 {
		return muKeyOf(recv) == key
	}
	if sc := c.Call.StaticCallee(); sc != nil && inModule(sc) && len(sc.Blocks) > 0 {
		for _, a := range c.Call.Args {
			if dlRecvKey(a).base == key.base && dlRecvKey(a).path == "" {
				return true
			}
		}
	}
	return false
}

func muApply(w *World, ev ssa.Instruction, key muKey, depth int) (int, bool) {
	c := ev.(*ssa.Call)
	if op, _ := muOp(c); op != 0 {
		return op, true
	}
	sc := c.Call.StaticCallee()
	total, known := 0, true
	for i, a := range c.Call.Args {
		if k := dlRecvKey(a); k.base == key.base && k.path == "" {
			e, ok := muNetEffect(w, sc, i, key.fld, depth)
			if !ok {
				known = false
			}
			total += e
		}
	}
	return total, known
}

func ruleUnlockHeld(w *World, r *Report, rule string, inScope func(pkgPath string) bool) {
	n := 0
	var fns []*ssa.Function
	for _, fn := range sortedModuleFuncs(w, w.SSA()) {
		f0 := fn
		for f0.Parent() != nil {
			f0 = f0.Parent()
		}
		if f0.Pkg != nil && inScope(f0.Pkg.Pkg.Path()) {
			fns = append(fns, fn)
		}
	}
	sort.Slice(fns, func(i, j int) bool { return fns[i].Pos() < fns[j].Pos() })
	for _, fn := range fns {
		ord := map[string]int{}
		for _, c := range callsIn(fn) {
			op, recv := muOp(c)
			if op != -1 {
				continue
			}
			if _, isGo := c.(*ssa.Go); isGo {
				continue
			}
			key := muKeyOf(recv)
			if key.fld == nil {
				continue // a local or package-level mutex: not modelled
			}
			n++
			at, _ := c.(ssa.Instruction)
			okey := fmt.Sprintf("func:%s|unlock:%s#%d", ssaFuncKey(fn), key.fld.Name(), ord[key.fld.Name()])
			ord[key.fld.Name()]++
			bad := ""
			npaths := 0
			unknown := false
			okp := enumPaths(fn, nil, func(in ssa.Instruction) bool { return in != at && muEvent(w, in, key) }, func(in ssa.Instruction) bool { return in == at }, func(e pathExit) {
				if e.Stop == nil {
					return
				}
				npaths++
				d := 0
				for _, ev := range e.State.Events {
					x, known := muApply(w, ev, key, 0)
					if !known {
						unknown = true
					}
					d += x
				}
				if d <= 0 && bad == "" {
					bad = fmt.Sprintf("a path reaches this Unlock of %s without having locked it", key.fld.Name())
				}
			})
			if !okp {
				r.Undecided(rule, okey, w.Pos(c.Pos()), "path budget exceeded")
				continue
			}
			if bad != "" {
				// the function may be a "called with the lock held" helper
				isMu := func(v ssa.Value) bool { return mutexFieldOf(v) == key.fld }
				if first := fn.Blocks[0].Instrs[0]; heldWithCallers(w, first, isMu, 1) {
					bad = ""
				}
			}
			if bad != "" {
				bad = w.Pos(c.Pos()) + ": " + bad + " (nor is the function only called from regions that hold it): sync reports 'unlock of unlocked mutex' as a fatal error that no recover() contains — the process dies"
			} else if unknown {
				r.Undecided(rule, okey, w.Pos(c.Pos()), "a helper with a path-dependent locking effect lies before this Unlock")
				continue
			}
			r.Check(bad == "", rule, okey, w.Pos(c.Pos()), fmt.Sprintf("held on all %d path(s) reaching it", npaths), bad)
		}
	}
	if n == 0 {
		r.Hold(rule, "unlock:none", "-", "no Unlock of a mutex field in scope")
	}
}
