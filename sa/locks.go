package main

// locks.go — self-deadlock rule: while a function holds a mutex field, nothing
// it calls synchronously (static callees, functions stored in func-typed
// struct fields, closures) may lock the same mutex field again. sync.Mutex is
// not re-entrant: the goroutine would block forever holding the lock, and with
// it every other user of that lock.

import (
	"fmt"
	"go/types"
	"sort"
	"strings"

	"golang.org/x/tools/go/ssa"
)

func isSyncMutex(t types.Type) bool {
	if p, ok := t.(*types.Pointer); ok {
		t = p.Elem()
	}
	n, ok := t.(*types.Named)
	return ok && n.Obj().Pkg() != nil && n.Obj().Pkg().Path() == "sync" && (n.Obj().Name() == "Mutex" || n.Obj().Name() == "RWMutex")
}

// mutexFieldOf: the struct field a Lock/Unlock receiver denotes (nil for locals/globals).
func mutexFieldOf(v ssa.Value) *types.Var {
	if fa := asFieldAddr(v); fa != nil {
		return fieldVarOf(fa)
	}
	return nil
}

// fieldFuncValues: every function stored anywhere in the module into the func-typed field fv.
func fieldFuncValues(w *World, fv *types.Var) []*ssa.Function {
	var out []*ssa.Function
	for fn := range allModuleFuncs(w, w.SSA()) {
		allInstrs(fn, func(in ssa.Instruction) {
			st, ok := in.(*ssa.Store)
			if !ok {
				return
			}
			if fa := asFieldAddr(st.Addr); fa != nil && fieldVarOf(fa) == fv {
				out = append(out, funcValues(st.Val)...)
			}
		})
	}
	return out
}

// syncCallees: the module functions a call instruction may run synchronously.
func syncCallees(w *World, c ssa.CallInstruction) []*ssa.Function {
	if _, isGo := c.(*ssa.Go); isGo {
		return nil
	}
	cc := c.Common()
	if sc := cc.StaticCallee(); sc != nil {
		if inModule(sc) {
			return []*ssa.Function{sc}
		}
		return nil
	}
	if cc.IsInvoke() {
		var out []*ssa.Function
		for _, f := range w.calleesOf(c) {
			if inModule(f) {
				out = append(out, f)
			}
		}
		return out
	}
	// call through a function value
	var out []*ssa.Function
	for _, f := range funcValues(cc.Value) {
		if inModule(f) {
			out = append(out, f)
		}
	}
	if u, ok := cc.Value.(*ssa.UnOp); ok {
		if fa := asFieldAddr(u.X); fa != nil {
			if fv := fieldVarOf(fa); fv != nil {
				out = append(out, fieldFuncValues(w, fv)...)
			}
		}
	}
	return out
}

// locksField: does fn (through synchronous module calls, depth-bounded) lock mutex field m? Returns the chain.
func locksField(w *World, fn *ssa.Function, m *types.Var, seen map[*ssa.Function]bool, depth int) []string {
	if fn == nil || seen[fn] || depth > 8 || len(fn.Blocks) == 0 {
		return nil
	}
	seen[fn] = true
	for _, c := range callsIn(fn) {
		if _, isGo := c.(*ssa.Go); isGo {
			continue
		}
		if _, isDefer := c.(*ssa.Defer); isDefer {
			// deferred Unlock etc. — a deferred Lock would be odd; follow deferred module calls like ordinary ones
		}
		f := sCallee(c)
		if (isMethod(f, "sync", "Mutex", "Lock") || isMethod(f, "sync", "RWMutex", "Lock") || isMethod(f, "sync", "RWMutex", "RLock")) && len(c.Common().Args) > 0 {
			if mutexFieldOf(c.Common().Args[0]) == m {
				return []string{ssaFuncKey(fn) + " (" + f.Name() + ")"}
			}
			continue
		}
		for _, callee := range syncCallees(w, c) {
			if chain := locksField(w, callee, m, seen, depth+1); chain != nil {
				return append([]string{ssaFuncKey(fn)}, chain...)
			}
		}
	}
	return nil
}

// ruleNoReentrantLock checks every function of the packages in scope.
func ruleNoReentrantLock(w *World, r *Report, rule string, inScope func(pkgPath string) bool) {
	type res struct {
		n   int
		bad []string
		pos string
	}
	byField := map[string]*res{}
	for fn := range allModuleFuncs(w, w.SSA()) {
		f0 := fn
		for f0.Parent() != nil {
			f0 = f0.Parent()
		}
		if f0.Pkg == nil || !inScope(f0.Pkg.Pkg.Path()) {
			continue
		}
		// which mutex fields does fn lock?
		fields := map[*types.Var]bool{}
		for _, c := range callsIn(fn) {
			f := sCallee(c)
			if (isMethod(f, "sync", "Mutex", "Lock") || isMethod(f, "sync", "RWMutex", "Lock")) && len(c.Common().Args) > 0 {
				if m := mutexFieldOf(c.Common().Args[0]); m != nil {
					fields[m] = true
				}
			}
		}
		for m := range fields {
			region, _ := lockRegion(fn, func(v ssa.Value) bool { return mutexFieldOf(v) == m })
			key := "mutex:" + fieldOwner(m) + "." + m.Name()
			rs := byField[key]
			if rs == nil {
				rs = &res{pos: w.Pos(m.Pos())}
				byField[key] = rs
			}
			for _, c := range callsIn(fn) {
				if !region[c] {
					continue
				}
				if _, isGo := c.(*ssa.Go); isGo {
					continue
				}
				f := sCallee(c)
				if f != nil && f.Pkg() != nil && f.Pkg().Path() == "sync" {
					continue
				}
				rs.n++
				for _, callee := range syncCallees(w, c) {
					if chain := locksField(w, callee, m, map[*ssa.Function]bool{}, 0); chain != nil {
						rs.bad = append(rs.bad, fmt.Sprintf("%s: %s calls %s while holding %s, which locks the same mutex again (sync.Mutex is not re-entrant): the goroutine blocks forever with the lock held, and everything else that needs the lock — new peers' handshakes included — blocks behind it", w.Pos(c.Pos()), ssaFuncKey(fn), strings.Join(chain, " -> "), m.Name()))
					}
				}
			}
		}
	}
	if len(byField) == 0 {
		r.Undecided(rule, "mutex:*", "-", "no mutex field locked in the packages in scope (anchors moved?)")
		return
	}
	var keys []string
	for k := range byField {
		keys = append(keys, k)
	}
	sort.Strings(keys)
	for _, k := range keys {
		rs := byField[k]
		sort.Strings(rs.bad)
		r.Check(len(rs.bad) == 0, rule, k, rs.pos, fmt.Sprintf("%d synchronous call(s) made while the mutex is held, none reaches a Lock of the same mutex field", rs.n), strings.Join(rs.bad, "; "))
	}
}

func fieldOwner(fv *types.Var) string {
	if fv.Pkg() == nil {
		return "?"
	}
	sc := fv.Pkg().Scope()
	for _, nm := range sc.Names() {
		if tn, ok := sc.Lookup(nm).(*types.TypeName); ok {
			if st, ok := tn.Type().Underlying().(*types.Struct); ok {
				for i := 0; i < st.NumFields(); i++ {
					if st.Field(i) == fv {
						return relPkg(fv.Pkg()) + "." + tn.Name()
					}
				}
			}
		}
	}
	return relPkg(fv.Pkg())
}
