package main

// sacheck — repository-specific static analysis of bokysan/socketace against
// the properties C01..C19 (see /verif/DESIGN.md). Decides structural clauses
// of each property from /repo's current source: no socketace code is run.

import (
	"flag"
	"fmt"
	"os"
	"runtime/debug"
	"sort"
	"time"
)

type propCheck func(w *World, r *Report)

var props = map[string]propCheck{}

func register(id string, f propCheck) { props[id] = f }

func main() {
	prop := flag.String("prop", "", "property id (C01..C19)")
	tier := flag.String("tier", "quick", "quick|thorough")
	repo := flag.String("repo", "/repo", "repository root")
	verif := flag.String("verif", "/verif", "verif directory (evidence, known findings)")
	goos := flag.String("goos", "", "load with this GOOS (thorough cross-configuration pass)")
	goarch := flag.String("goarch", "", "load with this GOARCH")
	noev := flag.Bool("no-evidence", false, "do not write evidence (used by cross-config and self-test sub-runs)")
	list := flag.Bool("list", false, "list properties")
	flag.Parse()
	if *list {
		var ids []string
		for id := range props {
			ids = append(ids, id)
		}
		sort.Strings(ids)
		for _, id := range ids {
			fmt.Println(id)
		}
		return
	}
	f, ok := props[*prop]
	if !ok {
		fmt.Fprintf(os.Stderr, "unknown property %q\n", *prop)
		os.Exit(2)
	}
	if *tier != "quick" && *tier != "thorough" {
		fmt.Fprintf(os.Stderr, "unknown tier %q\n", *tier)
		os.Exit(2)
	}
	r := NewReport(*prop, *tier)
	var extra []string
	if *goos != "" {
		extra = append(extra, "GOOS="+*goos)
	}
	if *goarch != "" {
		extra = append(extra, "GOARCH="+*goarch)
	}
	t0 := time.Now()
	w, err := Load(*repo, extra...)
	loadInfo := map[string]interface{}{}
	if err != nil {
		r.Undecided("framework", "load", "-", "undecided: "+err.Error())
	} else {
		loadInfo["packages"] = len(w.Pkgs)
		loadInfo["packages_with_deps"] = len(w.ByPath)
		loadInfo["load_s"] = time.Since(t0).Seconds()
		loadInfo["goos"] = *goos
		loadInfo["goarch"] = *goarch
		func() {
			defer func() {
				if e := recover(); e != nil {
					r.Undecided("framework", "panic", "-", fmt.Sprintf("analyser panic: %v\n%s", e, debug.Stack()))
				}
			}()
			f(w, r)
		}()
		if *tier == "thorough" && !*noev && *goos == "" && *goarch == "" {
			runThoroughExtras(*prop, *repo, *verif, r)
		}
		loadInfo["functions_analysed"] = w.countFuncs()
	}
	os.Exit(r.Finish(*verif, loadInfo, !*noev))
}
