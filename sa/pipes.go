package main

// pipes.go — analyses of streams.PipeData and its copiers, shared by
// C01 (R01.3), C14 (R14.1, R14.2) and C17 (R17.1, R17.2).

import (
	"strings"
	"fmt"
	"go/token"
	"go/types"
	"sort"

	"golang.org/x/tools/go/ssa"
)

// transparentIO: wrappers that keep the identity of a reader/writer/conn.
func transparentWrappers(w *World) func(c *ssa.Call) []int {
	return func(c *ssa.Call) []int {
		f := sCallee(c)
		if f == nil || f.Pkg() == nil {
			return nil
		}
		switch {
		case isPkgFunc(f, "io", "TeeReader"):
			return []int{0}
		case isPkgFunc(f, "io", "MultiWriter"):
			return []int{0} // variadic slice: handled by slice provenance below
		case isPkgFunc(f, "bufio", "NewReaderSize"), isPkgFunc(f, "bufio", "NewReader"):
			return []int{0}
		case isPkgFunc(f, "crypto/tls", "Client"), isPkgFunc(f, "crypto/tls", "Server"):
			return []int{0}
		}
		if f.Pkg().Path() == modPath+"/internal/streams" && len(f.Name()) > 3 && f.Name()[:3] == "New" &&
			f.Type().(*types.Signature).Recv() == nil {
			return []int{0}
		}
		return nil
	}
}

// rootsOf returns provenance roots with slice/varargs unpacking: a value
// stored into an element of a freshly allocated array that is then sliced
// (varargs) is followed too.
func rootsOf(w *World, v ssa.Value) []ssa.Value {
	tr := transparentWrappers(w)
	var out []ssa.Value
	seen := map[ssa.Value]bool{}
	var rec func(v ssa.Value)
	rec = func(v ssa.Value) {
		for _, r := range provenance(v, provOpts{Transparent: tr}) {
			if seen[r] {
				continue
			}
			seen[r] = true
			if sl, ok := r.(*ssa.Slice); ok {
				// varargs: find stores into the backing array's elements
				if al, ok := sl.X.(*ssa.Alloc); ok {
					found := false
					for _, ref := range *al.Referrers() {
						if ia, ok := ref.(*ssa.IndexAddr); ok {
							for _, st := range storesTo(ia) {
								found = true
								rec(st.Val)
							}
						}
					}
					if found {
						continue
					}
				}
			}
			out = append(out, r)
		}
	}
	rec(v)
	return out
}

func paramIndex(fn *ssa.Function, v ssa.Value) int {
	for i, p := range fn.Params {
		if p == v {
			return i
		}
	}
	return -1
}

// paramsOf returns the indexes of fn's parameters that v derives from.
func paramsOf(w *World, fn *ssa.Function, v ssa.Value) []int {
	var out []int
	for _, r := range rootsOf(w, v) {
		if i := paramIndex(fn, r); i >= 0 {
			out = append(out, i)
		}
	}
	sort.Ints(out)
	return out
}

// closeTarget: if the call closes something (TryClose/LogClose(x), x.Close()),
// return x.
func closeTarget(w *World, c ssa.CallInstruction) ssa.Value {
	cc := c.Common()
	cal := sCallee(c)
	if cal == nil {
		return nil
	}
	if cal == w.Func("internal/streams", "LogClose") || cal == w.Func("internal/streams", "TryClose") {
		if len(cc.Args) > 0 {
			return cc.Args[0]
		}
		return nil
	}
	if cal.Name() == "Close" && cal.Type().(*types.Signature).Recv() != nil && cal.Type().(*types.Signature).Params().Len() == 0 {
		if cc.IsInvoke() {
			return cc.Value
		}
		if len(cc.Args) > 0 {
			return cc.Args[0]
		}
	}
	// a module helper that closes one of its parameters on every path (or finds it nil)
	if sc := cc.StaticCallee(); sc != nil && inModule(sc) && len(sc.Blocks) > 0 {
		if idx := closesParamIndex(w, sc); idx >= 0 && idx < len(cc.Args) {
			return cc.Args[idx]
		}
	}
	return nil
}

var closesParamCache = map[*ssa.Function][]int{}

// closesParamIndex: the index of the first parameter that fn closes on every returning path (a nil
// parameter counts as nothing to close), or -1.
func closesParamIndex(w *World, fn *ssa.Function) int {
	if l := closesParamIndexes(w, fn); len(l) > 0 {
		return l[0]
	}
	return -1
}

func closesParamIndexes(w *World, fn *ssa.Function) []int {
	if v, ok := closesParamCache[fn]; ok {
		return v
	}
	closesParamCache[fn] = nil // recursion guard
	var res []int
	for i, p := range fn.Params {
		// only closer-like parameters
		ms := types.NewMethodSet(p.Type())
		if ms.Lookup(nil, "Close") == nil {
			continue
		}
		okAll, n := true, 0
		done := enumPaths(fn, nil, func(in ssa.Instruction) bool {
			c, ok := in.(ssa.CallInstruction)
			if !ok {
				return false
			}
			if _, isGo := in.(*ssa.Go); isGo {
				return false
			}
			t := closeTarget(w, c)
			if t == nil {
				return false
			}
			for _, root := range provenance(t, provOpts{}) {
				if root == ssa.Value(p) {
					return true
				}
			}
			return t == ssa.Value(p)
		}, nil, func(e pathExit) {
			if _, isRet := e.Last.(*ssa.Return); !isRet {
				return
			}
			n++
			if len(e.State.Events) > 0 {
				return
			}
			// nothing to close: the parameter was found nil on this path
			for v, t := range e.State.Facts {
				if x, eqNil, ok := nilTest(v); ok && t == eqNil && x == ssa.Value(p) {
					return
				}
			}
			okAll = false
		})
		if done && okAll && n > 0 {
			res = append(res, i)
		}
	}
	closesParamCache[fn] = res
	return res
}

// closeTargetsAll: every value a call closes (a helper may close several of its parameters).
func closeTargetsAll(w *World, c ssa.CallInstruction) []ssa.Value {
	t := closeTarget(w, c)
	if t == nil {
		return nil
	}
	out := []ssa.Value{t}
	cc := c.Common()
	if sc := cc.StaticCallee(); sc != nil && inModule(sc) && len(sc.Blocks) > 0 && sCallee(c) != w.Func("internal/streams", "LogClose") && sCallee(c) != w.Func("internal/streams", "TryClose") {
		for _, idx := range closesParamIndexes(w, sc) {
			if idx < len(cc.Args) && cc.Args[idx] != t {
				out = append(out, cc.Args[idx])
			}
		}
	}
	return out
}

type pipeInfo struct {
	Fn       *ssa.Function
	Obj      *types.Func
	Copiers  []*ssa.Go // go copier(ch, r, w) — in PipeData or in a helper it calls with its own parameters
	ChanOf   map[*ssa.Go]ssa.Value
	ReaderOf map[*ssa.Go]int // param index of PipeData the copier reads from
	WriterOf map[*ssa.Go]int
	Callees  map[*ssa.Go][]*ssa.Function // possible copier functions (a func-valued variable may select one)
	RArg     map[*ssa.Go]int             // argument positions of reader / writer in the go call
	WArg     map[*ssa.Go]int
}

// funcValues resolves a called value to the set of functions it may denote.
func funcValues(v ssa.Value) []*ssa.Function {
	return funcValuesD(v, 0)
}

func funcValuesD(v ssa.Value, depth int) []*ssa.Function {
	var out []*ssa.Function
	for _, root := range provenance(v, provOpts{}) {
		switch x := root.(type) {
		case *ssa.Function:
			out = append(out, x)
		case *ssa.MakeClosure:
			out = append(out, x.Fn.(*ssa.Function))
		case *ssa.Call:
			// a selector helper returning one of several functions
			if sc := x.Call.StaticCallee(); sc != nil && inModule(sc) && depth < 3 {
				for _, b := range sc.Blocks {
					if len(b.Instrs) == 0 {
						continue
					}
					if ret, ok := b.Instrs[len(b.Instrs)-1].(*ssa.Return); ok && len(ret.Results) == 1 {
						out = append(out, funcValuesD(ret.Results[0], depth+1)...)
					}
				}
			}
		}
	}
	return out
}

func analysePipeData(w *World) (*pipeInfo, string) {
	obj := w.Func("internal/streams", "PipeData")
	if obj == nil {
		return nil, "anchor unresolved: streams.PipeData"
	}
	fn := w.SSAFunc(obj)
	if fn == nil || len(fn.Params) != 2 {
		return nil, "streams.PipeData: unexpected signature"
	}
	pi := &pipeInfo{Fn: fn, Obj: obj, ChanOf: map[*ssa.Go]ssa.Value{}, ReaderOf: map[*ssa.Go]int{}, WriterOf: map[*ssa.Go]int{},
		Callees: map[*ssa.Go][]*ssa.Function{}, RArg: map[*ssa.Go]int{}, WArg: map[*ssa.Go]int{}}
	// scan f; pmap maps f's parameter index to PipeData's parameter index
	var scan func(f *ssa.Function, pmap map[int]int, depth int)
	scan = func(f *ssa.Function, pmap map[int]int, depth int) {
		toRoot := func(v ssa.Value) []int {
			var out []int
			for _, i := range paramsOf(w, f, v) {
				if r, ok := pmap[i]; ok {
					out = append(out, r)
				}
			}
			return out
		}
		allInstrs(f, func(in ssa.Instruction) {
			switch g := in.(type) {
			case *ssa.Go:
				var callees []*ssa.Function
				if sc := g.Call.StaticCallee(); sc != nil {
					callees = []*ssa.Function{sc}
				} else {
					callees = funcValues(g.Call.Value)
				}
				if len(callees) == 0 {
					return
				}
				sig := callees[0].Signature
				var ch ssa.Value
				rd, wr, ra, wa := -1, -1, -1, -1
				for i, a := range g.Call.Args {
					if i >= sig.Params().Len() {
						break
					}
					pt := sig.Params().At(i).Type()
					if _, isChan := pt.Underlying().(*types.Chan); isChan {
						roots := rootsOf(w, a)
						if len(roots) == 1 {
							ch = roots[0]
						}
						continue
					}
					ps := toRoot(a)
					if len(ps) != 1 {
						continue
					}
					if isReaderType(w, pt) && rd < 0 {
						rd, ra = ps[0], i
					} else if isWriterType(w, pt) && wr < 0 {
						wr, wa = ps[0], i
					}
				}
				if ch != nil && rd >= 0 && wr >= 0 {
					pi.Copiers = append(pi.Copiers, g)
					pi.ChanOf[g], pi.ReaderOf[g], pi.WriterOf[g] = ch, rd, wr
					pi.Callees[g], pi.RArg[g], pi.WArg[g] = callees, ra, wa
				}
			case *ssa.Call:
				if depth >= 2 {
					return
				}
				sc := g.Call.StaticCallee()
				if sc == nil || !inModule(sc) || len(sc.Blocks) == 0 {
					return
				}
				sub := map[int]int{}
				for i, a := range g.Call.Args {
					ps := toRoot(a)
					if len(ps) == 1 {
						sub[i] = ps[0]
					}
				}
				if len(sub) == 2 {
					scan(sc, sub, depth+1)
				}
			}
		})
	}
	scan(fn, map[int]int{0: 0, 1: 1}, 0)
	return pi, ""
}

func ioIface(w *World, name string) *types.Interface {
	p := w.ByPath["io"]
	if p == nil {
		return nil
	}
	tn, _ := p.Types.Scope().Lookup(name).(*types.TypeName)
	if tn == nil {
		return nil
	}
	i, _ := tn.Type().Underlying().(*types.Interface)
	return i
}

func isReaderType(w *World, t types.Type) bool {
	return implementsIface(t, ioIface(w, "Reader")) && !implementsIface(t, ioIface(w, "Writer"))
}
func isWriterType(w *World, t types.Type) bool {
	return implementsIface(t, ioIface(w, "Writer")) && !implementsIface(t, ioIface(w, "Reader"))
}

// copierReachesCopy: does fn (reader param rIdx, writer param wIdx) hand
// exactly these to io.Copy/io.CopyBuffer, directly or through module callees?
func copierReachesCopy(w *World, fn *ssa.Function, rIdx, wIdx int, depth int) (bool, string) {
	if fn == nil || depth > 4 {
		return false, "copier body unavailable"
	}
	found := false
	why := "copier never calls io.Copy/io.CopyBuffer with its reader and writer (single-shot Read/Write loses data beyond one buffer)"
	for _, c := range callsIn(fn) {
		if _, isGo := c.(*ssa.Go); isGo {
			continue
		}
		cal := sCallee(c)
		args := c.Common().Args
		if isPkgFunc(cal, "io", "Copy") || isPkgFunc(cal, "io", "CopyBuffer") {
			if len(args) >= 2 {
				dst := paramsOf(w, fn, args[0])
				src := paramsOf(w, fn, args[1])
				if len(dst) == 1 && dst[0] == wIdx && len(src) == 1 && src[0] == rIdx {
					found = true
				} else {
					why = fmt.Sprintf("io.Copy* called with dst from params %v, src from params %v; want dst=%d src=%d", dst, src, wIdx, rIdx)
				}
			}
			continue
		}
		callee := c.Common().StaticCallee()
		if callee != nil && inModule(callee) && len(callee.Blocks) > 0 {
			// map our params to callee params
			r2, w2 := -1, -1
			for i, a := range args {
				ps := paramsOf(w, fn, a)
				if len(ps) == 1 && ps[0] == rIdx {
					r2 = i
				}
				if len(ps) == 1 && ps[0] == wIdx {
					w2 = i
				}
			}
			if r2 >= 0 && w2 >= 0 {
				if ok, _ := copierReachesCopy(w, callee, r2, w2, depth+1); ok {
					found = true
				}
			}
		}
	}
	return found, why
}

// ---------------------------------------------------------------- R01.3

func ruleR01_3(w *World, r *Report) {
	pi, msg := analysePipeData(w)
	if pi == nil {
		r.Undecided("R01.3", "func:streams.PipeData", "-", msg)
		return
	}
	pos := w.Pos(pi.Obj.Pos())
	// group go statements by block: each group must be exactly {(0,1),(1,0)}
	byBlock := map[*ssa.BasicBlock][]*ssa.Go{}
	for _, g := range pi.Copiers {
		byBlock[g.Block()] = append(byBlock[g.Block()], g)
	}
	if len(pi.Copiers) == 0 {
		r.Violate("R01.3", "func:streams.PipeData|wiring", pos, "PipeData starts no copier goroutine taking (chan, reader, writer) derived from its parameters")
		return
	}
	bad := ""
	for b, gs := range byBlock {
		pairs := map[[2]int]int{}
		for _, g := range gs {
			pairs[[2]int{pi.ReaderOf[g], pi.WriterOf[g]}]++
		}
		if len(gs) != 2 || pairs[[2]int{0, 1}] != 1 || pairs[[2]int{1, 0}] != 1 {
			bad = fmt.Sprintf("block %d starts copiers with (reader,writer) parameter pairs %v; want exactly one down->up and one up->down", b.Index, pairs)
		}
	}
	r.Check(bad == "", "R01.3", "func:streams.PipeData|wiring", pos,
		fmt.Sprintf("%d copier start(s) in %d branch(es): each branch starts down->up and up->down", len(pi.Copiers), len(byBlock)), bad,
		"copiers", len(pi.Copiers))
	seen := map[*ssa.Function]bool{}
	for _, g := range pi.Copiers {
		for _, callee := range pi.Callees[g] {
			if seen[callee] {
				continue
			}
			seen[callee] = true
			ok, why := copierReachesCopy(w, callee, pi.RArg[g], pi.WArg[g], 0)
			r.Check(ok, "R01.3", "func:streams."+callee.Name()+"|copy-loop", w.Pos(callee.Pos()),
				"copier hands its reader and writer to io.Copy/io.CopyBuffer (loops until EOF, handles short writes)", why)
		}
	}
}

// ---------------------------------------------------------------- R14.1

// ruleChanCapacity: for every channel made in a module function and handed
// to goroutines that send on it: sends <= capacity + guaranteed receives.
func ruleR14_1(w *World, r *Report) {
	prog := w.SSA()
	for _, p := range w.Pkgs {
		sp := prog.Package(p.Types)
		if sp == nil {
			continue
		}
		var fns []*ssa.Function
		for _, m := range sp.Members {
			if f, ok := m.(*ssa.Function); ok {
				withAnon(f, func(x *ssa.Function) { fns = append(fns, x) })
			}
		}
		for _, tn := range p.Types.Scope().Names() {
			if t, ok := p.Types.Scope().Lookup(tn).(*types.TypeName); ok {
				if n, ok := t.Type().(*types.Named); ok {
					for i := 0; i < n.NumMethods(); i++ {
						if f := prog.FuncValue(n.Method(i)); f != nil {
							withAnon(f, func(x *ssa.Function) { fns = append(fns, x) })
						}
					}
				}
			}
		}
		sort.Slice(fns, func(i, j int) bool { return fns[i].Pos() < fns[j].Pos() })
		for _, fn := range fns {
			chanCapacityIn(w, r, fn)
		}
	}
}

func chanCapacityIn(w *World, r *Report, fn *ssa.Function) {
	ord := -1
	allInstrs(fn, func(in ssa.Instruction) {
		mk, ok := in.(*ssa.MakeChan)
		if !ok {
			return
		}
		ord++
		// goroutines receiving this channel as an argument
		type sender struct {
			g     *ssa.Go
			sends int
			loop  bool
		}
		var senders []sender
		escapes := false
		recvGuaranteed := 0
		var visitRefs func(v ssa.Value)
		seen := map[ssa.Value]bool{}
		selectRecv := false
		// visitCell follows a channel kept in a local variable: loads in the creator are further views of the
		// channel; closures that capture the variable and are started with `go` are senders. False when the
		// variable is assigned a second time or a capturing closure is used in another way.
		visitCell := func(cell *ssa.Alloc, init *ssa.Store) bool {
			if cell.Referrers() == nil {
				return false
			}
			for _, ref := range *cell.Referrers() {
				switch x := ref.(type) {
				case *ssa.Store:
					if x != init {
						return false
					}
				case *ssa.UnOp:
					if x.Op != token.MUL {
						return false
					}
					visitRefs(x)
				case *ssa.DebugRef:
				case *ssa.MakeClosure:
					cl, _ := x.Fn.(*ssa.Function)
					if cl == nil {
						return false
					}
					var fv *ssa.FreeVar
					for i, b := range x.Bindings {
						if b == cell && i < len(cl.FreeVars) {
							fv = cl.FreeVars[i]
						}
					}
					if fv == nil || fv.Referrers() == nil {
						return false
					}
					n, loop, recvOnly := 0, false, true
					for _, r2 := range *fv.Referrers() {
						ld, ok := r2.(*ssa.UnOp)
						if !ok || ld.Op != token.MUL {
							return false // re-assigned or captured again one level down
						}
						k, l, esc := sendsOnParam(cl, ld, 0)
						if esc {
							return false
						}
						n += k
						loop = loop || l
						if k > 0 {
							recvOnly = false
						}
					}
					if recvOnly {
						continue // the closure only receives from (or closes) the channel
					}
					if x.Referrers() == nil {
						return false
					}
					for _, r3 := range *x.Referrers() {
						g, ok := r3.(*ssa.Go)
						if !ok || g.Call.Value != x {
							return false
						}
						senders = append(senders, sender{g: g, sends: n, loop: loop})
					}
				default:
					return false
				}
			}
			return true
		}
		visitRefs = func(v ssa.Value) {
			if seen[v] {
				return
			}
			seen[v] = true
			refs := v.Referrers()
			if refs == nil {
				return
			}
			for _, ref := range *refs {
				switch x := ref.(type) {
				case *ssa.ChangeType:
					visitRefs(x)
				case *ssa.MakeInterface, *ssa.Store, *ssa.Return, *ssa.MakeClosure, *ssa.Phi:
					// a receive-only view of the channel cannot add senders
					if ct, ok := v.Type().Underlying().(*types.Chan); ok && ct.Dir() == types.RecvOnly {
						continue
					}
					// a local variable captured by closures: `done := make(chan error); go func() { done <- f() }()`
					if st, ok := x.(*ssa.Store); ok && st.Val == v {
						if cell, ok := st.Addr.(*ssa.Alloc); ok && cell.Parent() == fn {
							if !visitCell(cell, st) {
								escapes = true
							}
							continue
						}
					}
					escapes = true
				case *ssa.Go:
					var callees []*ssa.Function
					if sc := x.Call.StaticCallee(); sc != nil {
						callees = []*ssa.Function{sc}
					} else {
						callees = funcValues(x.Call.Value)
					}
					if len(callees) == 0 {
						escapes = true
						continue
					}
					for i, a := range x.Call.Args {
						if a != v {
							continue
						}
						best := sender{g: x}
						for _, callee := range callees {
							if len(callee.Blocks) == 0 || i >= len(callee.Params) {
								escapes = true
								continue
							}
							n, loop, esc := sendsOnParam(callee, callee.Params[i], 0)
							if esc {
								escapes = true
							}
							if n > best.sends {
								best.sends = n
							}
							best.loop = best.loop || loop
						}
						senders = append(senders, best)
					}
				case *ssa.Call:
					escapes = true
				case *ssa.Defer:
					escapes = true
				case *ssa.Send:
					// creator itself sends: out of scope of this rule
					escapes = true
				case *ssa.UnOp:
					if x.Op == token.ARROW {
						// receive: guaranteed if it post-dominates the function exit paths — approximated:
						// count only receives in blocks that dominate every return
						if dominatesAllReturns(fn, x.Block()) {
							recvGuaranteed++
						}
					}
				case *ssa.Select:
					selectRecv = true
				}
			}
		}
		visitRefs(mk)
		if len(senders) == 0 || escapes {
			return
		}
		capv, capConst := constIntVal(mk.Size)
		// senders started in different blocks of one branch set are alternatives
		// only if neither block reaches the other; sum per block, take the max
		// over mutually unreachable blocks, sum over the rest
		perBlock := map[*ssa.BasicBlock]int{}
		loop := false
		for _, s := range senders {
			perBlock[s.g.Block()] += s.sends
			loop = loop || s.loop
		}
		total := 0
		for b, n := range perBlock {
			// add the sends of every other block that can run in the same execution (reaches or is reached by b)
			sum := n
			for b2, n2 := range perBlock {
				if b2 != b && (blockReaches(b, b2) || blockReaches(b2, b)) {
					sum += n2
				}
			}
			if sum > total {
				total = sum
			}
		}
		key := fmt.Sprintf("func:%s|chan#%d", ssaFuncKey(fn), ord)
		pos := w.Pos(mk.Pos())
		if loop {
			return // sender loops: a stream channel, not a completion report
		}
		// a goroutine that runs a listener until shutdown and then reports why it stopped exists once per endpoint
		// for the life of the process: it is not the completion report of a connection
		serverLifetime := true
		for _, sd := range senders {
			callees := []*ssa.Function{}
			if sc := sd.g.Call.StaticCallee(); sc != nil {
				callees = append(callees, sc)
			} else {
				callees = append(callees, funcValues(sd.g.Call.Value)...)
			}
			for _, callee := range callees {
				found := false
				allInstrs(callee, func(in2 ssa.Instruction) {
					snd, ok := in2.(*ssa.Send)
					if !ok {
						return
					}
					for _, root := range provenance(snd.X, provOpts{}) {
						if c, ok := root.(*ssa.Call); ok {
							if f := sCallee(c); f != nil && !inModuleFunc(f) {
								switch f.Name() {
								case "ListenAndServe", "ListenAndServeTLS", "Serve", "ServeTLS", "ActivateAndServe":
									found = true
								}
							}
						}
					}
				})
				if !found {
					serverLifetime = false
				}
			}
		}
		if serverLifetime && len(senders) > 0 {
			return
		}
		if !capConst {
			r.Undecided("R14.1", key, pos, "channel capacity is not a constant")
			return
		}
		okc := int64(total) <= capv+int64(recvGuaranteed)
		msg := fmt.Sprintf("goroutines send up to %d value(s); capacity %d, receives guaranteed on every path %d", total, capv, recvGuaranteed)
		if selectRecv {
			msg += " (a select over several channels consumes only one of them)"
		}
		r.Check(okc, "R14.1", key, pos, msg, msg+": a sender blocks forever once the receiver has returned, pinning its goroutine and both connections",
			"sends", total, "capacity", capv, "guaranteed_receives", recvGuaranteed)
	})
}

func blockReaches(a, b *ssa.BasicBlock) bool {
	seen := map[*ssa.BasicBlock]bool{}
	st := append([]*ssa.BasicBlock(nil), a.Succs...)
	for len(st) > 0 {
		x := st[len(st)-1]
		st = st[:len(st)-1]
		if x == b {
			return true
		}
		if seen[x] {
			continue
		}
		seen[x] = true
		st = append(st, x.Succs...)
	}
	return false
}

func ssaFuncKey(fn *ssa.Function) string {
	if o, ok := fn.Object().(*types.Func); ok {
		return funcKey(o)
	}
	if fn.Parent() != nil {
		return ssaFuncKey(fn.Parent()) + "$" + fn.Name()
	}
	return fn.String()
}

func dominatesAllReturns(fn *ssa.Function, b *ssa.BasicBlock) bool {
	for _, bb := range fn.Blocks {
		if len(bb.Instrs) == 0 {
			continue
		}
		if _, ok := bb.Instrs[len(bb.Instrs)-1].(*ssa.Return); ok {
			if !(b == bb || b.Dominates(bb)) {
				return false
			}
		}
	}
	return true
}

// sendsOnParam: max number of sends on channel parameter p along any path of
// fn, following static module callees that receive it. loop=true if a send
// sits in a cycle.
func sendsOnParam(fn *ssa.Function, p ssa.Value, depth int) (n int, loop bool, escapes bool) {
	if depth > 4 || len(fn.Blocks) == 0 {
		return 0, false, true
	}
	type ev struct {
		in ssa.Instruction
		n  int
	}
	weight := map[ssa.Instruction]int{}
	aliases := map[ssa.Value]bool{p: true}
	changed := true
	for changed {
		changed = false
		allInstrs(fn, func(in ssa.Instruction) {
			if ct, ok := in.(*ssa.ChangeType); ok && aliases[ct.X] && !aliases[ct] {
				aliases[ct] = true
				changed = true
			}
		})
	}
	allInstrs(fn, func(in ssa.Instruction) {
		switch x := in.(type) {
		case *ssa.Send:
			if aliases[x.Chan] {
				weight[in] = 1
			}
		case *ssa.Call:
			callee := x.Call.StaticCallee()
			for i, a := range x.Call.Args {
				if aliases[a] {
					if callee == nil || len(callee.Blocks) == 0 || i >= len(callee.Params) {
						escapes = true
						continue
					}
					k, l, e := sendsOnParam(callee, callee.Params[i], depth+1)
					if l {
						loop = true
					}
					if e {
						escapes = true
					}
					weight[in] += k
				}
			}
		case *ssa.Go, *ssa.Defer:
			for _, a := range x.(ssa.CallInstruction).Common().Args {
				if aliases[a] {
					escapes = true
				}
			}
		case *ssa.Store:
			if aliases[x.Val] {
				escapes = true
			}
		case *ssa.MakeClosure:
			for _, b := range x.Bindings {
				if aliases[b] {
					escapes = true
				}
			}
		}
	})
	best := 0
	okb := enumPaths(fn, nil, func(in ssa.Instruction) bool { return weight[in] > 0 }, nil, func(e pathExit) {
		s := 0
		cnt := map[ssa.Instruction]int{}
		for _, evn := range e.State.Events {
			s += weight[evn]
			cnt[evn]++
			if cnt[evn] > 1 {
				loop = true
			}
		}
		if s > best {
			best = s
		}
	})
	if !okb {
		escapes = true
	}
	return best, loop, escapes
}

// ---------------------------------------------------------------- R14.2 / R17.2

// closedParamsOnAllPaths returns which of PipeData's two parameters are closed
// on every returning path.
func closedOnAllPaths(w *World, fn *ssa.Function, after ssa.Instruction, targets []ssa.Value) (closed []bool, paths int, ok bool) {
	closed = make([]bool, len(targets))
	for i := range closed {
		closed[i] = true
	}
	matches := func(v ssa.Value, t ssa.Value) bool {
		if v == t {
			return true
		}
		tr := rootsOf(w, t)
		for _, a := range rootsOf(w, v) {
			if a == t {
				return true
			}
			for _, b := range tr {
				if a == b {
					return true
				}
			}
		}
		return false
	}
	// deferred closes anywhere in the function count for every path
	deferred := make([]bool, len(targets))
	allInstrs(fn, func(in ssa.Instruction) {
		d, isD := in.(*ssa.Defer)
		if !isD {
			return
		}
		if t := closeTarget(w, d); t != nil {
			for i, tg := range targets {
				if matches(t, tg) {
					deferred[i] = true
				}
			}
		}
		// deferred closure: look inside for closes of captured targets
		if mc, ok := d.Call.Value.(*ssa.MakeClosure); ok {
			cf := mc.Fn.(*ssa.Function)
			for _, c := range callsIn(cf) {
				t := closeTarget(w, c)
				if t == nil {
					continue
				}
				for _, root := range rootsOf(w, t) {
					// captured free variable -> binding
					for fi, fv := range cf.FreeVars {
						if loadsFrom(root, fv) && fi < len(mc.Bindings) {
							for i, tg := range targets {
								if bindingHolds(w, mc.Bindings[fi], tg) {
									deferred[i] = true
								}
							}
						}
					}
				}
			}
		}
	})
	isEv := func(in ssa.Instruction) bool {
		c, isC := in.(ssa.CallInstruction)
		if !isC {
			return false
		}
		if _, isD := in.(*ssa.Defer); isD {
			return false
		}
		if _, isG := in.(*ssa.Go); isG {
			return false
		}
		return closeTarget(w, c) != nil
	}
	ok = enumPaths(fn, after, isEv, nil, func(e pathExit) {
		if _, isRet := e.Last.(*ssa.Return); !isRet {
			return
		}
		paths++
		for i, tg := range targets {
			hit := deferred[i]
			for _, evn := range e.State.Events {
				if matches(closeTarget(w, evn.(ssa.CallInstruction)), tg) {
					hit = true
				}
			}
			if !hit {
				closed[i] = false
			}
		}
	})
	return
}

func loadsFrom(v ssa.Value, addr ssa.Value) bool {
	if v == addr {
		return true
	}
	if u, ok := v.(*ssa.UnOp); ok && u.Op == token.MUL {
		return u.X == addr
	}
	return false
}

// bindingHolds: the closure binding (address of a local, or a value) refers to target.
func bindingHolds(w *World, b ssa.Value, target ssa.Value) bool {
	if b == target {
		return true
	}
	// binding is the address of a local that holds target
	for _, st := range storesTo(b) {
		for _, r := range rootsOf(w, st.Val) {
			if r == target {
				return true
			}
			for _, tr := range rootsOf(w, target) {
				if r == tr {
					return true
				}
			}
		}
	}
	return false
}

func ruleBothEndsClosed(w *World, r *Report, rule string) {
	pi, msg := analysePipeData(w)
	if pi == nil {
		r.Undecided(rule, "func:streams.PipeData", "-", msg)
		return
	}
	fn := pi.Fn
	closed, paths, ok := closedOnAllPaths(w, fn, nil, []ssa.Value{fn.Params[0], fn.Params[1]})
	pos := w.Pos(pi.Obj.Pos())
	if !ok {
		r.Undecided(rule, "func:streams.PipeData|closes", pos, "path budget exceeded")
		return
	}
	if closed[0] && closed[1] {
		r.Hold(rule, "func:streams.PipeData|closes", pos, fmt.Sprintf("both ends are closed on all %d returning paths of PipeData, so every call site is covered", paths), "paths", paths)
	}
	// call sites
	nsites := 0
	prog := w.SSA()
	for _, fnc := range sortedModuleFuncs(w, prog) {
		for _, c := range callsIn(fnc) {
			if sCallee(c) != pi.Obj {
				continue
			}
			nsites++
			key := fmt.Sprintf("call:streams.PipeData@%s", ssaFuncKey(fnc))
			cpos := w.Pos(c.Pos())
			if closed[0] && closed[1] {
				r.Hold(rule, key, cpos, "covered by PipeData closing both ends itself")
				continue
			}
			var need []ssa.Value
			var names []string
			for i := 0; i < 2; i++ {
				if !closed[i] {
					need = append(need, c.Common().Args[i])
					names = append(names, fn.Params[i].Name())
				}
			}
			cl, _, ok2 := closedOnAllPaths(w, fnc, c, need)
			if !ok2 {
				r.Undecided(rule, key, cpos, "path budget exceeded")
				continue
			}
			var missing []string
			for i := range need {
				if !cl[i] {
					// one level up: argument is a parameter of the caller and every static caller closes it
					if pidx := paramIndex(fnc, soleRoot(w, need[i])); pidx >= 0 && callersClose(w, prog, fnc, pidx) {
						continue
					}
					missing = append(missing, names[i])
				}
			}
			r.Check(len(missing) == 0, rule, key, cpos, "ends not closed inside PipeData are closed by the caller on every path after the call",
				fmt.Sprintf("after PipeData returns (it closes only the side opposite to the one that ended) the %v connection is not closed on every path of %s, of its deferred calls, or of its callers", missing, ssaFuncKey(fnc)))
		}
	}
	if nsites == 0 {
		r.Undecided(rule, "call:streams.PipeData", "-", "no call site of PipeData found")
	}
}

func soleRoot(w *World, v ssa.Value) ssa.Value {
	rs := rootsOf(w, v)
	if len(rs) == 1 {
		return rs[0]
	}
	return nil
}

// callersClose: every static call site of fn in the module closes argument
// pidx on all paths after the call (or by defer).
func callersClose(w *World, prog *ssa.Program, fn *ssa.Function, pidx int) bool {
	obj, _ := fn.Object().(*types.Func)
	if obj == nil {
		return false
	}
	n := 0
	good := true
	for _, caller := range sortedModuleFuncs(w, prog) {
		for _, c := range callsIn(caller) {
			if sCallee(c) != obj || c.Common().IsInvoke() {
				continue
			}
			n++
			if _, isGo := c.(*ssa.Go); isGo {
				good = false
				continue
			}
			args := c.Common().Args
			if pidx >= len(args) {
				good = false
				continue
			}
			cl, _, ok := closedOnAllPaths(w, caller, c, []ssa.Value{args[pidx]})
			if !ok || !cl[0] {
				good = false
			}
		}
	}
	return n > 0 && good
}

// allModuleFuncs returns every SSA function (incl. anonymous) of the module.
func allModuleFuncs(w *World, prog *ssa.Program) map[*ssa.Function]bool {
	if w.modFuncs != nil {
		return w.modFuncs
	}
	out := map[*ssa.Function]bool{}
	for _, p := range w.Pkgs {
		sp := prog.Package(p.Types)
		if sp == nil {
			continue
		}
		for _, m := range sp.Members {
			if f, ok := m.(*ssa.Function); ok {
				withAnon(f, func(x *ssa.Function) { out[x] = true })
			}
		}
		sc := p.Types.Scope()
		for _, tn := range sc.Names() {
			if t, ok := sc.Lookup(tn).(*types.TypeName); ok {
				if n, ok := t.Type().(*types.Named); ok {
					for i := 0; i < n.NumMethods(); i++ {
						if f := prog.FuncValue(n.Method(i)); f != nil {
							withAnon(f, func(x *ssa.Function) { out[x] = true })
						}
					}
				}
			}
		}
	}
	w.modFuncs = out
	return out
}

// ---------------------------------------------------------------- R17.1

func ruleR17_1(w *World, r *Report) {
	pi, msg := analysePipeData(w)
	if pi == nil {
		r.Undecided("R17.1", "func:streams.PipeData", "-", msg)
		return
	}
	fn := pi.Fn
	pos := w.Pos(pi.Obj.Pos())
	chans := map[ssa.Value]bool{}
	for _, g := range pi.Copiers {
		chans[pi.ChanOf[g]] = true
	}
	isReport := func(ch ssa.Value) bool {
		if chans[soleRoot(w, ch)] {
			return true
		}
		// completion channels handed back by a helper that started the copiers
		if ct, ok := ch.Type().Underlying().(*types.Chan); ok && len(pi.Copiers) > 0 {
			if n, ok := ct.Elem().(*types.Named); ok && n.Obj().Name() == "error" && n.Obj().Pkg() == nil {
				for _, root := range provenance(ch, provOpts{}) {
					if ex, ok := root.(*ssa.Extract); ok {
						if c, ok := ex.Tuple.(*ssa.Call); ok && c.Call.StaticCallee() != nil && inModule(c.Call.StaticCallee()) {
							return true
						}
					}
				}
			}
		}
		return false
	}
	// receives: select over completion channels or unary receive
	var recvs []ssa.Instruction
	allInstrs(fn, func(in ssa.Instruction) {
		switch x := in.(type) {
		case *ssa.Select:
			for _, st := range x.States {
				if st.Dir == types.RecvOnly && isReport(st.Chan) {
					recvs = append(recvs, in)
					return
				}
			}
		case *ssa.UnOp:
			if x.Op == token.ARROW && isReport(x.X) {
				recvs = append(recvs, in)
			}
		}
	})
	ncl := 0
	bad := ""
	for _, c := range callsIn(fn) {
		t := closeTarget(w, c)
		if t == nil {
			continue
		}
		if len(paramsOf(w, fn, t)) == 0 {
			continue
		}
		ncl++
		if _, isDefer := c.(*ssa.Defer); isDefer {
			continue // runs at return, after the receive below
		}
		dom := false
		for _, rc := range recvs {
			if instrDominates(rc, c) {
				dom = true
			}
		}
		if !dom {
			bad = fmt.Sprintf("%s: a connection is closed before any copier reported completion (data still in flight is cut off)", w.Pos(c.Pos()))
		}
	}
	if len(recvs) == 0 {
		bad = "PipeData never waits for a copier's completion report"
	}
	r.Check(bad == "", "R17.1", "func:streams.PipeData|close-after-copy", pos,
		fmt.Sprintf("all %d close call(s) are dominated by a receive of a copier's completion report (%d receive site(s))", ncl, len(recvs)), bad,
		"closes", ncl, "receives", len(recvs))

	// R17.6: once the first copier has reported, neither close may wait for the second report — the second
	// copier may be parked in a Write/Read that only that very close interrupts
	{
		isRecv := map[ssa.Instruction]bool{}
		for _, rc := range recvs {
			isRecv[rc] = true
		}
		var first []ssa.Instruction
		for _, rc := range recvs {
			dominated := false
			for _, o := range recvs {
				if o != rc && instrDominates(o, rc) {
					dominated = true
				}
			}
			if !dominated {
				first = append(first, rc)
			}
		}
		bad6 := ""
		n6 := 0
		for _, c := range callsIn(fn) {
			t := closeTarget(w, c)
			if t == nil || len(paramsOf(w, fn, t)) == 0 {
				continue
			}
			if _, isDefer := c.(*ssa.Defer); isDefer {
				continue
			}
			n6++
			free := false
			for _, rc := range first {
				if canReach(fn, rc, func(in ssa.Instruction) bool { return isRecv[in] }, func(in ssa.Instruction) bool { return in == c.(ssa.Instruction) }) != nil {
					free = true
				}
			}
			if !free {
				bad6 = fmt.Sprintf("%s: this close happens only after a second completion report was received: the other copier can be parked in a Write (peer stopped reading) or a Read that only this close interrupts, so PipeData never returns and the connection is never closed", w.Pos(c.Pos()))
			}
		}
		if len(first) > 0 {
			r.Check(bad6 == "", "R17.6", "func:streams.PipeData|closes-do-not-wait-for-second-report", pos, fmt.Sprintf("%d close call(s), each reachable from the first completion receive without a further receive", n6), bad6)
		}
	}

	// copiers: EOF only on err == nil of the copy, and exactly one report per path after the copy
	seen := map[*ssa.Function]bool{}
	var work []*ssa.Function
	for _, g := range pi.Copiers {
		work = append(work, pi.Callees[g]...)
	}
	eofVar := w.ByPath["io"].Types.Scope().Lookup("EOF")
	for len(work) > 0 {
		cf := work[0]
		work = work[1:]
		if cf == nil || seen[cf] {
			continue
		}
		seen[cf] = true
		var copyCall *ssa.Call
		var sends []*ssa.Send
		allInstrs(cf, func(in ssa.Instruction) {
			switch x := in.(type) {
			case *ssa.Call:
				cal := sCallee(x)
				if isPkgFunc(cal, "io", "Copy") || isPkgFunc(cal, "io", "CopyBuffer") {
					copyCall = x
				} else if sc := x.Call.StaticCallee(); sc != nil && inModule(sc) {
					for _, a := range x.Call.Args {
						if _, isChan := a.Type().Underlying().(*types.Chan); isChan {
							work = append(work, sc)
						}
					}
				}
			case *ssa.Send:
				sends = append(sends, x)
			}
		})
		if copyCall == nil {
			continue // a forwarding wrapper (pipeDebugData)
		}
		key := "func:streams." + cf.Name() + "|report"
		cpos := w.Pos(cf.Pos())
		bad := ""
		isErrOfCopy := func(v ssa.Value) bool {
			x, _, ok := nilTest(v)
			if !ok {
				return false
			}
			for _, root := range provenance(x, provOpts{}) {
				if ex, ok := root.(*ssa.Extract); ok && ex.Tuple == ssa.Value(copyCall) && ex.Index == 1 {
					return true
				}
			}
			return false
		}
		for _, s := range sends {
			if !instrDominates(copyCall, s) {
				bad = "completion is reported before the copy has run"
			}
			isEOF := false
			if u, ok := s.X.(*ssa.UnOp); ok && u.Op == token.MUL {
				if g, ok := u.X.(*ssa.Global); ok && g.Object() == eofVar {
					isEOF = true
				}
			}
			if isEOF {
				// must be on the err == nil edge
				okEdge := false
				for _, b := range cf.Blocks {
					if len(b.Instrs) == 0 {
						continue
					}
					ifi, ok := b.Instrs[len(b.Instrs)-1].(*ssa.If)
					if !ok || !isErrOfCopy(ifi.Cond) {
						continue
					}
					_, eqNil, _ := nilTest(ifi.Cond)
					succ := 1
					if eqNil {
						succ = 0
					}
					if edgeDominates(b, succ, s.Block()) {
						okEdge = true
					}
				}
				if !okEdge {
					bad = "io.EOF (the orderly-end marker) is reported on a path where the copy's error was not tested nil"
				}
			}
		}
		// every path after the copy sends exactly once
		cnt := map[int]int{}
		enumPaths(cf, copyCall, func(in ssa.Instruction) bool { _, ok := in.(*ssa.Send); return ok }, nil, func(e pathExit) {
			cnt[len(e.State.Events)]++
		})
		for k := range cnt {
			if k != 1 {
				bad = fmt.Sprintf("a path after the copy reports %d times (want exactly once)", k)
			}
		}
		r.Check(bad == "", "R17.1", key, cpos, "copier reports exactly once after io.Copy*, io.EOF only when the copy returned nil", bad)
	}
}

// ---------------------------------------------------------------------------------------------
// rulePoolMemoryStaysLocal: memory taken from a sync.Pool goes back to the pool and is handed to the next
// taker, whoever that is (another session's request, the next answer). It may therefore be used as scratch
// space only: it must not be stored into a field or an element of anything, nor returned — a record that keeps
// the slice is packed after the buffer was recycled, a parked packet is overwritten by the next request
// decoded. Conversions to string copy and are fine.
func poolOrigin(v ssa.Value) bool {
	seen := map[ssa.Value]bool{}
	var walk func(v ssa.Value, d int) bool
	walk = func(v ssa.Value, d int) bool {
		if v == nil || seen[v] || d > 12 {
			return false
		}
		seen[v] = true
		switch x := v.(type) {
		case *ssa.Call:
			if f := sCallee(x); f != nil && isMethod(f, "sync", "Pool", "Get") {
				return true
			}
			if b, ok := x.Call.Value.(*ssa.Builtin); ok && b.Name() == "append" && len(x.Call.Args) > 0 {
				return walk(x.Call.Args[0], d+1)
			}
		case *ssa.Slice:
			return walk(x.X, d+1)
		case *ssa.UnOp:
			return walk(x.X, d+1)
		case *ssa.TypeAssert:
			return walk(x.X, d+1)
		case *ssa.Extract:
			return walk(x.Tuple, d+1)
		case *ssa.ChangeType:
			return walk(x.X, d+1)
		case *ssa.MakeInterface:
			return walk(x.X, d+1)
		case *ssa.Phi:
			for _, e := range x.Edges {
				if walk(e, d+1) {
					return true
				}
			}
		case *ssa.Alloc:
			for _, st := range storesTo(x) {
				if walk(st.Val, d+1) {
					return true
				}
			}
		}
		return false
	}
	return walk(v, 0)
}

func rulePoolMemoryStaysLocal(w *World, r *Report, rule string, inScope func(pkgPath string) bool) {
	npool := 0
	var bad []string
	for _, fn := range sortedModuleFuncs(w, w.SSA()) {
		f0 := fn
		for f0.Parent() != nil {
			f0 = f0.Parent()
		}
		if f0.Pkg == nil || !inScope(f0.Pkg.Pkg.Path()) {
			continue
		}
		allInstrs(fn, func(in ssa.Instruction) {
			switch x := in.(type) {
			case *ssa.Call:
				if f := sCallee(x); f != nil && isMethod(f, "sync", "Pool", "Get") {
					npool++
				}
			case *ssa.Store:
				switch a := x.Addr.(type) {
				case *ssa.FieldAddr, *ssa.IndexAddr:
					// objects of the tunnel's data path: DNS records and messages, decoded requests / responses, packets
					// and queues. (A wrapper that owns a pooled buffer for its own lifetime and hands it back in its
					// Close is a different pattern and not judged here.)
					if fa, ok := a.(*ssa.FieldAddr); ok {
						fv := fieldVarOf(fa)
						if fv == nil || fv.Pkg() == nil || !(strings.HasPrefix(fv.Pkg().Path(), modPath+"/internal/streams/dns") || fv.Pkg().Path() == "github.com/miekg/dns") {
							return
						}
					}
					if isByteSliceOrPtr(x.Val.Type()) && poolOrigin(x.Val) {
						bad = append(bad, fmt.Sprintf("%s: memory taken from a sync.Pool is stored into a field/element in %s: whatever keeps that reference reads (or is overwritten by) the next taker's data once the buffer is back in the pool", w.Pos(x.Pos()), ssaFuncKey(fn)))
					}
				}
			case *ssa.Return:
				// handing pooled memory out of an exported function of the data path (a codec or wrapper result)
				if fn.Object() != nil && fn.Object().Exported() {
					for _, res := range x.Results {
						if isByteSliceOrPtr(res.Type()) && poolOrigin(res) {
							bad = append(bad, fmt.Sprintf("%s: memory taken from a sync.Pool is returned by the exported %s", w.Pos(x.Pos()), ssaFuncKey(fn)))
						}
					}
				}
			}
		})
	}
	sort.Strings(bad)
	if npool == 0 {
		r.Hold(rule, "pool:none", "-", "no sync.Pool is used in scope: no recycled memory can be shared between requests, answers or sessions")
		return
	}
	r.Check(len(bad) == 0, rule, "pool:escapes", "-", fmt.Sprintf("%d sync.Pool.Get site(s); pooled memory is used as scratch space only (never stored into a field/element, never returned)", npool), strings.Join(bad, "; "))
}

func isByteSliceOrPtr(t types.Type) bool {
	if p, ok := t.Underlying().(*types.Pointer); ok {
		t = p.Elem()
	}
	if s, ok := t.Underlying().(*types.Slice); ok {
		if b, ok := s.Elem().Underlying().(*types.Basic); ok && b.Kind() == types.Uint8 {
			return true
		}
	}
	return false
}
