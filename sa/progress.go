package main

// progress.go — A9: loop progress. For every loop whose exit conditions depend
// on header phis (loop-carried variables), every cyclic path header->header
// must give at least one of those variables a new value; a cyclic path that
// changes none of them repeats the same decisions forever whenever the
// external answers on that path repeat.

import (
	"fmt"
	"sort"

	"golang.org/x/tools/go/ssa"
)

type loopFinding struct {
	Header   *ssa.BasicBlock
	Pos      string
	Vars     []string
	Msg      string
	NoVars   bool
	Paths    int
	Exceeded bool
}

func loopHeaders(fn *ssa.Function) []*ssa.BasicBlock {
	var out []*ssa.BasicBlock
	for _, b := range fn.Blocks {
		for _, p := range b.Preds {
			if b.Dominates(p) || b == p {
				out = append(out, b)
				break
			}
		}
	}
	return out
}

func loopBlocks(h *ssa.BasicBlock) map[*ssa.BasicBlock]bool {
	body := map[*ssa.BasicBlock]bool{h: true}
	var st []*ssa.BasicBlock
	for _, p := range h.Preds {
		if h.Dominates(p) || p == h {
			st = append(st, p)
		}
	}
	for len(st) > 0 {
		x := st[len(st)-1]
		st = st[:len(st)-1]
		if body[x] {
			continue
		}
		body[x] = true
		st = append(st, x.Preds...)
	}
	return body
}

// exitPhis: header phis the loop's exit conditions depend on.
func exitPhis(h *ssa.BasicBlock, body map[*ssa.BasicBlock]bool) (phis map[*ssa.Phi]bool, hasExit bool, callsOnly bool) {
	phis = map[*ssa.Phi]bool{}
	callsOnly = true
	seen := map[ssa.Value]bool{}
	var slice func(v ssa.Value, d int)
	slice = func(v ssa.Value, d int) {
		if v == nil || seen[v] || d > 12 {
			return
		}
		seen[v] = true
		switch x := v.(type) {
		case *ssa.Phi:
			if x.Block() == h {
				phis[x] = true
				return
			}
			for _, e := range x.Edges {
				slice(e, d+1)
			}
		case *ssa.BinOp:
			slice(x.X, d+1)
			slice(x.Y, d+1)
		case *ssa.UnOp:
			slice(x.X, d+1)
		case *ssa.Convert:
			slice(x.X, d+1)
		case *ssa.ChangeType:
			slice(x.X, d+1)
		case *ssa.Extract:
			slice(x.Tuple, d+1)
		case *ssa.Call:
			for _, a := range x.Call.Args {
				slice(a, d+1)
			}
		case *ssa.Next:
			slice(x.Iter, d+1)
		case *ssa.Field:
			slice(x.X, d+1)
		case *ssa.Index:
			slice(x.X, d+1)
			slice(x.Index, d+1)
		case *ssa.Lookup:
			slice(x.X, d+1)
		case *ssa.TypeAssert:
			slice(x.X, d+1)
		case *ssa.Slice:
			slice(x.X, d+1)
		}
	}
	for b := range body {
		if len(b.Instrs) == 0 {
			continue
		}
		ifi, ok := b.Instrs[len(b.Instrs)-1].(*ssa.If)
		if !ok {
			continue
		}
		exits := false
		for _, s := range b.Succs {
			if !body[s] {
				exits = true
			}
		}
		if !exits {
			continue
		}
		hasExit = true
		slice(ifi.Cond, 0)
	}
	return phis, hasExit, len(phis) == 0
}

// checkLoopProgress analyses every loop of fn.
func checkLoopProgress(w *World, fn *ssa.Function) []loopFinding {
	var out []loopFinding
	for _, h := range loopHeaders(fn) {
		body := loopBlocks(h)
		phis, hasExit, _ := exitPhis(h, body)
		lf := loopFinding{Header: h}
		// position: first instruction with a position in the header
		for _, in := range h.Instrs {
			if in.Pos().IsValid() {
				lf.Pos = w.Pos(in.Pos())
				break
			}
		}
		if lf.Pos == "" {
			for b := range body {
				for _, in := range b.Instrs {
					if in.Pos().IsValid() && lf.Pos == "" {
						lf.Pos = w.Pos(in.Pos())
					}
				}
			}
		}
		for p := range phis {
			lf.Vars = append(lf.Vars, p.Comment)
		}
		sort.Strings(lf.Vars) // the message must not depend on map order
		if !hasExit {
			// no conditional exit inside the loop: leaves only by return/break elsewhere — treat returns as exits
			lf.NoVars = true
			out = append(out, lf)
			continue
		}
		if len(phis) == 0 {
			lf.NoVars = true
			out = append(out, lf)
			continue
		}
		// enumerate cyclic paths
		var first ssa.Instruction
		for _, in := range h.Instrs {
			if _, isPhi := in.(*ssa.Phi); !isPhi {
				first = in
				break
			}
		}
		if first == nil {
			continue
		}
		// start right before `first`: use the last phi (or fabricate by walking from block start)
		var startAfter ssa.Instruction
		idx := instrIndex(first)
		if idx > 0 {
			startAfter = h.Instrs[idx-1]
		}
		stopAt := h.Instrs[0]
		enter := 0
		ok := enumPathsFromHeader(fn, h, startAfter, func(in ssa.Instruction) bool {
			if in == stopAt {
				enter++
				return true
			}
			return false
		}, func(e pathExit) {
			if e.Stop == nil {
				return
			}
			lf.Paths++
			// left the loop and came back? paths are confined by construction: blocks outside the body cannot return to h except via h's preds in body
			changed := false
			for p := range phis {
				nv, has := e.State.PhiSel[p]
				if !has {
					changed = true
					continue
				}
				if e.State.Resolve(nv) != ssa.Value(p) && nv != ssa.Value(p) {
					// p + k - k is not progress either
					if base, off, lin := linearOf(e.State, nv, p); lin && base == ssa.Value(p) && off == 0 {
						continue
					}
					changed = true
				}
			}
			if !changed && lf.Msg == "" {
				var blocks []int
				for _, b := range e.State.Blocks {
					blocks = append(blocks, b.Index)
				}
				lf.Msg = fmt.Sprintf("a cyclic path (blocks %v) returns to the loop head without changing any of the variables its exit depends on %v", blocks, lf.Vars)
			}
		})
		if !ok {
			lf.Exceeded = true
		}
		out = append(out, lf)
	}
	return out
}

// enumPathsFromHeader: like enumPaths but starts at the header block (after
// its phis, with no phi selection) and lets the stop predicate fire on the
// header's first instruction when the header is re-entered.
func enumPathsFromHeader(fn *ssa.Function, h *ssa.BasicBlock, startAfter ssa.Instruction, isStop func(ssa.Instruction) bool, atExit func(pathExit)) bool {
	if startAfter != nil {
		return enumPaths(fn, startAfter, nil, isStop, atExit)
	}
	// header has no phis at all: cannot happen for loops with exit phis
	return true
}

// linearOf resolves v (through the path's phi selections) to base + constant.
func linearOf(st *pathState, v ssa.Value, stop ssa.Value) (base ssa.Value, off int64, ok bool) {
	for i := 0; i < 32; i++ {
		if v == stop {
			return v, off, true
		}
		if ph, isPhi := v.(*ssa.Phi); isPhi {
			sel, has := st.PhiSel[ph]
			if !has || sel == v {
				return v, off, true
			}
			v = sel
			continue
		}
		b, isB := v.(*ssa.BinOp)
		if !isB {
			return v, off, true
		}
		c, isC := constIntVal(b.Y)
		if !isC {
			return v, off, true
		}
		switch b.Op.String() {
		case "+":
			off += c
		case "-":
			off -= c
		default:
			return v, off, true
		}
		v = b.X
	}
	return v, off, false
}
