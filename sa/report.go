package main

// report.go — obligations, verdicts, evidence files, known findings and the
// exit protocol (DESIGN.md §2.2, §2.5).

import (
	"bufio"
	"encoding/json"
	"fmt"
	"os"
	"path/filepath"
	"sort"
	"strconv"
	"strings"
	"time"
)

type Verdict string

const (
	Holds     Verdict = "holds"
	Violated  Verdict = "violated"
	Undecided Verdict = "undecided"
)

// Obligation is one decided instance of a rule on one construct. Key is
// semantic (rule + construct), never a line number; Pos is for the reader.
type Obligation struct {
	Rule    string                 `json:"rule"`
	Key     string                 `json:"construct"`
	Pos     string                 `json:"at"`
	Verdict Verdict                `json:"verdict"`
	Msg     string                 `json:"reason"`
	Facts   map[string]interface{} `json:"facts,omitempty"`
}

type RuleInfo struct {
	ID   string `json:"id"`
	Text string `json:"text"`
	Min  int    `json:"min_instances"`
}

type Report struct {
	Prop        string
	Tier        string
	Rules       []RuleInfo
	Obs         []Obligation
	Explanation string
	NotDecided  []string
	Trusted     []string
	Assumptions []string
	Extra       map[string]interface{}
	start       time.Time
}

func NewReport(prop, tier string) *Report {
	return &Report{Prop: prop, Tier: tier, Extra: map[string]interface{}{}, start: time.Now()}
}

// Rule declares a rule with the minimum number of instances confirmed by
// reading the pinned tree. A rule that matches fewer fails as vacuous.
func (r *Report) Rule(id, text string, min int) {
	r.Rules = append(r.Rules, RuleInfo{id, text, min})
}

func (r *Report) add(rule, key, pos string, v Verdict, msg string, facts ...interface{}) {
	o := Obligation{Rule: rule, Key: key, Pos: pos, Verdict: v, Msg: msg}
	if len(facts) > 0 {
		o.Facts = map[string]interface{}{}
		for i := 0; i+1 < len(facts); i += 2 {
			o.Facts[fmt.Sprint(facts[i])] = facts[i+1]
		}
	}
	r.Obs = append(r.Obs, o)
}

func (r *Report) Hold(rule, key, pos, msg string, facts ...interface{}) {
	r.add(rule, key, pos, Holds, msg, facts...)
}
func (r *Report) Violate(rule, key, pos, msg string, facts ...interface{}) {
	r.add(rule, key, pos, Violated, msg, facts...)
}
func (r *Report) Undecided(rule, key, pos, msg string, facts ...interface{}) {
	r.add(rule, key, pos, Undecided, msg, facts...)
}

// Check records holds/violated from a boolean.
func (r *Report) Check(ok bool, rule, key, pos, okMsg, badMsg string, facts ...interface{}) bool {
	if ok {
		r.Hold(rule, key, pos, okMsg, facts...)
	} else {
		r.Violate(rule, key, pos, badMsg, facts...)
	}
	return ok
}

// ---------------------------------------------------------------- findings

type Finding struct {
	Status    string `json:"status"` // "known" | "fixed"
	Property  string `json:"property"`
	Rule      string `json:"rule"`
	Construct string `json:"construct"`
	What      string `json:"what"`
	Witness   string `json:"witness,omitempty"`
	Commit    string `json:"commit,omitempty"`
}

func loadFindings(path string) ([]Finding, error) {
	f, err := os.Open(path)
	if err != nil {
		if os.IsNotExist(err) {
			return nil, nil
		}
		return nil, err
	}
	defer f.Close()
	var out []Finding
	sc := bufio.NewScanner(f)
	sc.Buffer(make([]byte, 1<<20), 1<<20)
	for sc.Scan() {
		line := strings.TrimSpace(sc.Text())
		if line == "" || strings.HasPrefix(line, "#") {
			continue
		}
		var fd Finding
		if err := json.Unmarshal([]byte(line), &fd); err != nil {
			return nil, fmt.Errorf("known_findings: %v in %q", err, line)
		}
		out = append(out, fd)
	}
	return out, sc.Err()
}

// ---------------------------------------------------------------- finish

// Finish applies vacuity checks, matches violations against the known
// findings file, writes evidence and returns the process exit code.
func (r *Report) Finish(verifDir string, loadInfo map[string]interface{}, writeEv bool) int {
	// vacuity: every declared rule needs >= Min obligations
	count := map[string]int{}
	for _, o := range r.Obs {
		count[o.Rule]++
	}
	for _, ri := range r.Rules {
		if count[ri.ID] < ri.Min {
			r.Undecided(ri.ID, "vacuity|"+ri.ID, "-", fmt.Sprintf("rule matched %d constructs, expected at least %d (confirmed by reading the pinned tree): anchors moved or rule no longer sees the code", count[ri.ID], ri.Min))
		}
	}
	declared := map[string]bool{}
	for _, ri := range r.Rules {
		declared[ri.ID] = true
	}
	for _, o := range r.Obs {
		if !declared[o.Rule] {
			r.Rules = append(r.Rules, RuleInfo{o.Rule, "(undeclared)", 0})
			declared[o.Rule] = true
		}
	}
	sort.SliceStable(r.Obs, func(i, j int) bool {
		if r.Obs[i].Rule != r.Obs[j].Rule {
			return r.Obs[i].Rule < r.Obs[j].Rule
		}
		return r.Obs[i].Key < r.Obs[j].Key
	})

	findings, ferr := loadFindings(filepath.Join(verifDir, "known_findings.jsonl"))
	known := map[string]Finding{}
	for _, f := range findings {
		if f.Status == "known" && f.Property == r.Prop {
			known[f.Rule+"\x00"+f.Construct] = f
		}
	}

	var newViol, knownViol []Obligation
	discharged := 0
	distinct := map[string]bool{}
	for _, o := range r.Obs {
		if !strings.HasPrefix(o.Key, "vacuity|") {
			distinct[o.Rule+"\x00"+o.Key] = true
		}
		switch o.Verdict {
		case Holds:
			discharged++
		case Violated:
			if _, ok := known[o.Rule+"\x00"+o.Key]; ok {
				knownViol = append(knownViol, o)
			} else {
				newViol = append(newViol, o)
			}
		default:
			newViol = append(newViol, o)
		}
	}
	if ferr != nil {
		newViol = append(newViol, Obligation{Rule: "framework", Key: "known_findings.jsonl", Verdict: Undecided, Msg: ferr.Error()})
	}

	seed := 0
	if s := os.Getenv("VERIF_SEED"); s != "" {
		if v, err := strconv.Atoi(s); err == nil {
			seed = v
		}
	}
	samples := []Obligation{}
	// samples: up to 4 per rule so every rule is visible, violations first
	perRule := map[string]int{}
	for _, pass := range []Verdict{Violated, Undecided, Holds} {
		for _, o := range r.Obs {
			if o.Verdict == pass && perRule[o.Rule] < 4 {
				samples = append(samples, o)
				perRule[o.Rule]++
			}
		}
	}
	cov := map[string]interface{}{
		"explanation":         r.Explanation,
		"not_decided":         r.NotDecided,
		"evaluations":         len(r.Obs),
		"distinct_nontrivial": len(distinct),
		"rule":                "one obligation per (rule, construct) where a rule's anchor pattern matched a construct of /repo's current source (function, call site, field store, table entry, CFG path set); distinct = distinct (rule, construct) keys; a rule matching fewer constructs than its min_instances fails as vacuous",
		"samples":             samples,
		"obligations":         len(r.Obs),
		"discharged":          discharged,
		"known_findings":      len(knownViol),
		"rules":               r.Rules,
		"trusted_base":        r.Trusted,
		"checker_cmd":         fmt.Sprintf("/verif/check %s %s", r.Prop, r.Tier),
		"all_obligations":     r.Obs,
	}
	for k, v := range loadInfo {
		cov[k] = v
	}
	for k, v := range r.Extra {
		cov[k] = v
	}
	ev := map[string]interface{}{
		"property_id": r.Prop,
		"tier":        r.Tier,
		"seed":        seed,
		"level":       "other",
		"coverage":    cov,
		"assumptions": append([]string{"go/types and go/ssa model Go semantics faithfully", "libraries (smux, go-multistream, gorilla/websocket, kcp-go, miekg/dns, crypto/tls, encoding/*) are trusted, not analysed"}, r.Assumptions...),
		"wall_s":      time.Since(r.start).Seconds(),
		"violations":  len(newViol),
	}
	evdir := filepath.Join(verifDir, "evidence")
	if writeEv {
		os.MkdirAll(evdir, 0o755)
		writeJSON(filepath.Join(evdir, r.Prop+".json"), ev)
	}

	for _, o := range knownViol {
		f := known[o.Rule+"\x00"+o.Key]
		fmt.Printf("KNOWN-FINDING: property=%s rule=%s at=%s (%s) %s\n", r.Prop, o.Rule, o.Key, o.Pos, f.What)
	}
	vpath := filepath.Join(evdir, r.Prop+".violations.json")
	if !writeEv {
		vpath = "-"
		for _, o := range newViol {
			fmt.Printf("%s: %s: %s: %s [%s]\n", o.Pos, o.Rule, o.Key, o.Msg, o.Verdict)
		}
		if len(newViol) > 0 {
			fmt.Printf("VIOLATION property=%s replay=-\n", r.Prop)
			return 1
		}
		fmt.Printf("OK property=%s obligations=%d\n", r.Prop, len(r.Obs))
		return 0
	}
	if len(newViol) == 0 {
		os.Remove(vpath)
		fmt.Printf("OK property=%s tier=%s obligations=%d discharged=%d known_findings=%d rules=%d wall=%.1fs\n",
			r.Prop, r.Tier, len(r.Obs), discharged, len(knownViol), len(r.Rules), time.Since(r.start).Seconds())
		return 0
	}
	writeJSON(vpath, map[string]interface{}{"property_id": r.Prop, "tier": r.Tier, "violations": newViol,
		"replay": fmt.Sprintf("/verif/check %s %s   # deterministic: re-runs the same rules on /repo's current source", r.Prop, r.Tier)})
	for _, o := range newViol {
		fmt.Printf("%s: %s: %s: %s [%s]\n", o.Pos, o.Rule, o.Key, o.Msg, o.Verdict)
	}
	fmt.Printf("VIOLATION property=%s replay=%s\n", r.Prop, vpath)
	return 1
}

func writeJSON(path string, v interface{}) {
	b, err := json.MarshalIndent(v, "", " ")
	if err != nil {
		fmt.Fprintln(os.Stderr, "evidence marshal:", err)
		os.Exit(2)
	}
	tmp := path + ".tmp"
	if err := os.WriteFile(tmp, append(b, '\n'), 0o644); err != nil {
		fmt.Fprintln(os.Stderr, "evidence write:", err)
		os.Exit(2)
	}
	os.Rename(tmp, path)
}
