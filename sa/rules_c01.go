package main

// C01 — End-to-end byte-stream fidelity over every transport.

import (
	"fmt"
	"go/token"
	"go/types"
	"sort"
	"strings"

	"golang.org/x/tools/go/ssa"
)

func init() { register("C01", checkC01) }

func checkC01(w *World, r *Report) {
	r.Explanation = "Decides four structural necessary conditions of loss-free carriage through the adapters this repository wrote: (R01.1) no Read([]byte) method fails because the caller's buffer is small, and whenever a Read copies from a source that is not the caller's buffer the uncopied remainder is stored back into receiver state on every path; (R01.2) after the handshake the buffered reader stays in the read path: BufferedInputConnection.Read delegates to its bufio.Reader, connections returned by the handshake functions derive from the buffered connection, and neither the raw carrier nor the embedded unbuffered connection is used again; (R01.3) PipeData starts exactly one copier per direction and each copier hands its reader/writer to io.Copy*; (R01.4) both smux configurations start from smux.DefaultConfig() with a constant MaxFrameSize inside smux's admissible range. Not decided: equality of delivered bytes for any payload, behaviour of smux/gorilla/kcp/crypto/tls, partial-write handling, TLS record sizes."
	r.NotDecided = []string{"byte equality for any payload", "library behaviour (smux, gorilla/websocket, kcp-go, crypto/tls)", "partial-write handling inside Write methods"}
	r.Trusted = []string{"io.Reader contract", "smux.VerifyConfig bounds (0 < MaxFrameSize <= 65535, v1.5.14)", "bufio.Reader.Read drains its buffer before reading the underlying reader"}
	r.Rule("R01.1", "short-buffer rule for every Read([]byte) method", 5)
	r.Rule("R01.2", "handshake read-ahead is handed on to the next layer", 6)
	r.Rule("R01.3", "pipe wiring and copy loops", 2)
	r.Rule("R01.4", "multiplexer configuration admissible", 2)
	r.Rule("R01.5", "websocket Write splits without gaps or overlaps", 1)
	r.Rule("R01.6", "Write methods report the full count on success", 4)
	r.Rule("R01.9", "a websocket read limit, if any, admits the largest message the tunnel's own Write sends", 1)
	r.Rule("R01.8", "receive/send buffers that are written under a mutex are written under the same mutex everywhere", 3)
	r.Rule("R01.7", "every serving goroutine works on the connection accepted for it (no shared re-assigned variable)", 1)

	c01Reads(w, r)
	c01ReadAhead(w, r)
	ruleR01_3(w, r)
	c01Smux(w, r)
	c01WsWrite(w, r)
	c01WriteCounts(w, r)
	c01WsReadLimit(w, r)
	r.Rule("R01.15", "the DNS carrier's memory of acknowledged sequence numbers is bounded and forgets oldest first (numbers are reused after 65536 chunks: a stale acknowledgement retires an unsent chunk)", 2)
	ruleAckMemory(w, r, "R01.15")
	r.Rule("R01.14", "the client forgets its shared physical connection only when that connection is dead or has just been closed (a living session left behind shares the re-dialled connection: cross-delivery)", 1)
	ruleSharedConnectionForgottenOnlyWhenDead(w, r, "R01.14")
	r.Rule("R01.13", "records of a multi-record DNS answer are put back in order by a comparator that indexes the slice being sorted (resolvers reorder record sets)", 1)
	ruleSortComparatorIndexesSortedSlice(w, r, "R01.13", func(p string) bool { return strings.HasPrefix(p, modPath+"/internal/streams/dns") })
	r.Rule("R01.12", "no codec of the DNS carrier cuts a payload short: ascii85.Decode has worst-case room or its consumed count is checked (a zero-heavy fragment decodes to more bytes than its text is long)", 1)
	ruleAscii85Room(w, r, "R01.12")
	r.Rule("R01.11", "a logical connection is piped to the channel whose exact name was negotiated (the stream's bytes reach the target the client asked for)", 1)
	c03OpenGuard(w, r, "R01.11")
	r.Rule("R01.10", "a deadline armed on a connection is disarmed in both directions before the connection lives on as a session", 1)
	ruleDeadlinePairing(w, r, "R01.10")
	ruleLocksetConsistent(w, r, "R01.8", func(p string) bool { return connPkgs(p) || p == modPath+"/internal/streams/dns/util" }, "a reader overlapping a writer of the same buffer sees it half-updated: bytes delivered twice, lost or torn")
	ruleLoopVarEscape(w, r, "R01.7", connPkgs, "the goroutine started for connection N reads the variable after the loop stored connection N+1 into it: N is never served and N+1 is served twice, its bytes torn between two handlers")
}

// connPkgs: the packages that accept, dial and serve connections.
func connPkgs(path string) bool {
	for _, p := range []string{"/internal/server", "/internal/client", "/internal/client/listener", "/internal/client/upstream", "/internal/socketace", "/internal/streams", "/internal/streams/dns"} {
		if path == modPath+p {
			return true
		}
	}
	return false
}

// c01WriteCounts: R01.6 — every Write([]byte) (int, error) method of the
// module reports, on success, either len() of the buffer exactly as it was
// passed in or a count obtained from the writer it delegates to. A Write that
// succeeds with a smaller count makes io.Copy / io.MultiWriter abort the stream
// with ErrShortWrite.
func c01WriteCounts(w *World, r *Report) { c01WriteCountsRule(w, r, "R01.6") }

func c01WriteCountsRule(w *World, r *Report, rule string) {
	var fns []*ssa.Function
	for _, fn := range sortedModuleFuncs(w, w.SSA()) {
		obj := fnObj(fn)
		if obj == nil || obj.Name() != "Write" {
			continue
		}
		sig := obj.Type().(*types.Signature)
		if sig.Recv() == nil || sig.Params().Len() != 1 || sig.Results().Len() != 2 {
			continue
		}
		if sl, ok := sig.Params().At(0).Type().(*types.Slice); !ok || !types.Identical(sl.Elem(), types.Typ[types.Byte]) {
			continue
		}
		fns = append(fns, fn)
	}
	sort.Slice(fns, func(i, j int) bool { return fns[i].Pos() < fns[j].Pos() })
	for _, fn := range fns {
		key := "method:" + ssaFuncKey(fn) + "|count"
		p := fn.Params[1]
		bad := ""
		n := 0
		enumPaths(fn, nil, nil, nil, func(e pathExit) {
			ret, ok := e.Last.(*ssa.Return)
			if !ok || len(ret.Results) != 2 {
				return
			}
			errv := e.State.Resolve(ret.Results[1])
			if isNil, known := e.State.NilKnown(errv); known && !isNil {
				return
			}
			if !isConstNil(errv) {
				// delegated error: the count comes from the same call — accept
				return
			}
			n++
			cv := e.State.Resolve(ret.Results[0])
			if isLenOf(cv, p) {
				return
			}
			for _, root := range provenance(cv, provOpts{}) {
				root = e.State.Resolve(root)
				if isLenOf(root, p) {
					return
				}
				if ex, ok := root.(*ssa.Extract); ok && ex.Index == 0 {
					if _, isCall := ex.Tuple.(*ssa.Call); isCall {
						return
					}
				}
			}
			bad = fmt.Sprintf("%s: on success the count reported is not len() of the caller's buffer (nor a delegated writer's count): %s", w.Pos(ret.Pos()), cv.String())
		})
		if n == 0 {
			r.Hold(rule, key, w.Pos(fn.Pos()), "delegates count and error to an inner writer")
			continue
		}
		r.Check(bad == "", rule, key, w.Pos(fn.Pos()), fmt.Sprintf("%d success return(s) report len(p) of the buffer as passed", n), bad)
	}
}

// isLenOf: v is len(x) for x == target.
func isLenOf(v ssa.Value, target ssa.Value) bool {
	c, ok := v.(*ssa.Call)
	if !ok {
		return false
	}
	b, ok := c.Call.Value.(*ssa.Builtin)
	return ok && b.Name() == "len" && len(c.Call.Args) == 1 && c.Call.Args[0] == target
}

func c01Reads(w *World, r *Report) {
	prog := w.SSA()
	var fns []*ssa.Function
	for _, fn := range sortedModuleFuncs(w, prog) {
		obj, ok := fn.Object().(*types.Func)
		if !ok || obj.Name() != "Read" {
			continue
		}
		sig := obj.Type().(*types.Signature)
		if sig.Recv() == nil || sig.Params().Len() != 1 || sig.Results().Len() != 2 {
			continue
		}
		if sl, ok := sig.Params().At(0).Type().(*types.Slice); !ok || !types.Identical(sl.Elem(), types.Typ[types.Byte]) {
			continue
		}
		fns = append(fns, fn)
	}
	sort.Slice(fns, func(i, j int) bool { return fns[i].Pos() < fns[j].Pos() })
	for _, fn := range fns {
		key := "method:" + ssaFuncKey(fn)
		pos := w.Pos(fn.Pos())
		if len(fn.Params) < 2 {
			continue
		}
		p := fn.Params[1]
		bad := ""
		// (i) error returns that depend on len(p)
		for _, b := range fn.Blocks {
			if len(b.Instrs) == 0 {
				continue
			}
			ifi, ok := b.Instrs[len(b.Instrs)-1].(*ssa.If)
			if !ok {
				continue
			}
			core, _ := stripNot(ifi.Cond)
			bo, ok := core.(*ssa.BinOp)
			if !ok {
				continue
			}
			var other ssa.Value
			if isLenOf(bo.X, p) {
				other = bo.Y
			} else if isLenOf(bo.Y, p) {
				other = bo.X
			} else {
				continue
			}
			if z, isC := constIntVal(other); isC && z == 0 {
				continue // len(p) == 0 is the only buffer-size test a Reader may fail/return early on
			}
			for si := range b.Succs {
				for _, rb := range fn.Blocks {
					if len(rb.Instrs) == 0 {
						continue
					}
					ret, ok := rb.Instrs[len(rb.Instrs)-1].(*ssa.Return)
					if !ok || len(ret.Results) != 2 {
						continue
					}
					if edgeDominates(b, si, rb) && !isConstNil(ret.Results[1]) {
						bad = fmt.Sprintf("%s: Read returns an error because the caller's buffer is smaller than the pending data (comparison at %s): the data is dropped and the stream dies, although io.Reader must accept any buffer size", w.Pos(ret.Pos()), w.Pos(ifi.Pos()))
					}
				}
			}
		}
		// (ii) remainder of a partial copy survives
		ncopy := 0
		for _, c := range callsIn(fn) {
			call, ok := c.(*ssa.Call)
			if !ok {
				continue
			}
			bi, ok := call.Call.Value.(*ssa.Builtin)
			if !ok || bi.Name() != "copy" {
				continue
			}
			dstFromP := false
			for _, root := range provenance(call.Call.Args[0], provOpts{}) {
				if root == ssa.Value(p) {
					dstFromP = true
				}
				if sl, ok := root.(*ssa.Slice); ok && sl.X == ssa.Value(p) {
					dstFromP = true
				}
			}
			if !dstFromP {
				continue
			}
			ncopy++
			src := call.Call.Args[1]
			// a store into receiver state of src[n:] (same value, or reload of the same field)
			isRemainderStore := func(in ssa.Instruction) bool {
				st, ok := in.(*ssa.Store)
				if !ok {
					return false
				}
				if _, ok := st.Addr.(*ssa.FieldAddr); !ok {
					return false
				}
				sl, ok := st.Val.(*ssa.Slice)
				if !ok || sl.Low != ssa.Value(call) {
					return false
				}
				if sl.X == src {
					return true
				}
				// same field reloaded
				fa1, fa2 := asFieldAddr(sl.X), asFieldAddr(src)
				return fa1 != nil && fa2 != nil && fieldVarOf(fa1) == fieldVarOf(fa2)
			}
			isRet := func(in ssa.Instruction) bool { _, ok := in.(*ssa.Return); return ok }
			if t := canReach(fn, call, isRemainderStore, isRet); t != nil {
				bad = fmt.Sprintf("%s: after copy(p, src) a return is reachable (%s) without storing src[n:] back: when the caller's buffer is shorter than the pending data the rest is lost", w.Pos(call.Pos()), w.Pos(t.Pos()))
			}
		}
		kind := "delegates"
		if ncopy > 0 {
			kind = fmt.Sprintf("%d copy site(s), remainder stored back on all paths", ncopy)
		}
		r.Check(bad == "", "R01.1", key, pos, "no buffer-size dependent failure; "+kind, bad, "copies", ncopy)
	}
}

func c01ReadAhead(w *World, r *Report) {
	bic := w.Named("internal/streams", "BufferedInputConnection")
	if bic == nil {
		r.Undecided("R01.2", "type:streams.BufferedInputConnection", "-", "anchor unresolved")
		return
	}
	// (a) Read delegates to the bufio.Reader field
	rd := methodOf(bic, "Read")
	fn := w.SSAFunc(rd)
	key := "method:" + funcKey(rd) + "|delegates"
	if fn == nil {
		r.Undecided("R01.2", key, "-", "no body")
	} else {
		var viaBufio, other int
		for _, c := range callsIn(fn) {
			f := sCallee(c)
			if isMethod(f, "bufio", "Reader", "Read") {
				viaBufio++
			} else if f != nil && f.Name() == "Read" {
				other++
			}
		}
		r.Check(viaBufio == 1 && other == 0, "R01.2", key, w.Pos(rd.Pos()), "Read goes through the bufio.Reader that holds the handshake's read-ahead",
			"BufferedInputConnection.Read bypasses its bufio.Reader: bytes read ahead while parsing the handshake headers (start of TLS / multiplexer traffic) are lost")
	}
	// (b) the embedded unbuffered connection is not used outside package streams
	embedded := fieldOf(bic, "Connection")
	nuse := 0
	badUse := ""
	for _, f := range sortedModuleFuncs(w, w.SSA()) {
		pk := ""
		if f.Pkg != nil {
			pk = f.Pkg.Pkg.Path()
		} else if f.Parent() != nil && f.Parent().Pkg != nil {
			pk = f.Parent().Pkg.Pkg.Path()
		}
		if pk == modPath+"/internal/streams" {
			continue
		}
		allInstrs(f, func(in ssa.Instruction) {
			switch x := in.(type) {
			case *ssa.FieldAddr:
				if fieldVarOf(x) == embedded && embedded != nil {
					// promoted method calls (Write, Close, RemoteAddr...) go through this too; only flag when the
					// field value itself escapes into a call argument / constructor / return
					for _, ref := range *x.Referrers() {
						if u, ok := ref.(*ssa.UnOp); ok && u.Op == token.MUL {
							for _, ref2 := range *u.Referrers() {
								switch y := ref2.(type) {
								case ssa.CallInstruction:
									cc := y.Common()
									if cc.IsInvoke() && cc.Value == ssa.Value(u) {
										if cc.Method.Name() == "Read" {
											nuse++
											badUse = fmt.Sprintf("%s: Read is invoked on the unbuffered connection embedded in the BufferedInputConnection", w.Pos(y.Pos()))
										}
										continue
									}
									nuse++
									badUse = fmt.Sprintf("%s: the unbuffered connection embedded in the BufferedInputConnection is handed on (%s): the next layer would read past the handshake's read-ahead", w.Pos(y.Pos()), describeCall(y))
								case *ssa.Return, *ssa.MakeInterface, *ssa.Store, *ssa.Phi:
									nuse++
									badUse = fmt.Sprintf("%s: the unbuffered connection embedded in the BufferedInputConnection escapes", w.Pos(ref2.Pos()))
								}
							}
						}
					}
				}
			}
		})
	}
	r.Check(badUse == "", "R01.2", "field:streams.BufferedInputConnection.Connection|no-bypass", w.Pos(bic.Obj().Pos()), "outside package streams the embedded unbuffered connection is only used through promoted non-read methods", badUse, "escapes", nuse)

	// (c) handshake functions return connections derived from the buffered connection
	nbi := w.Func("internal/streams", "NewBufferedInputConnection")
	for _, spec := range [][2]string{{"ServerConnection", "upgrade"}, {"ClientConnection", "upgrade"}, {"ClientConnection", "startTls"}} {
		m := w.Method("internal/socketace", spec[0], spec[1])
		f := w.SSAFunc(m)
		key := "method:" + funcKey(m) + "|returns-buffered"
		if f == nil || len(f.Params) < 2 {
			r.Undecided("R01.2", key, "-", "anchor unresolved")
			continue
		}
		connParam := f.Params[1]
		bad := ""
		n := 0
		allInstrs(f, func(in ssa.Instruction) {
			ret, ok := in.(*ssa.Return)
			if !ok || len(ret.Results) != 2 || isConstNil(ret.Results[0]) {
				return
			}
			n++
			from := false
			for _, root := range rootsThroughHelpers(w, ret.Results[0], 0) {
				if root == ssa.Value(connParam) {
					from = true
				}
			}
			if !from {
				bad = fmt.Sprintf("%s: the returned connection does not derive from the buffered connection parameter", w.Pos(ret.Pos()))
			}
		})
		r.Check(bad == "" && n > 0, "R01.2", key, w.Pos(m.Pos()), fmt.Sprintf("%d non-nil return(s), each derived from the buffered connection", n), bad)
	}
	for _, name := range []string{"NewServerConnection", "NewClientConnection"} {
		f := w.SSAFunc(w.Func("internal/socketace", name))
		key := "func:socketace." + name + "|raw-carrier-wrapped-once"
		if f == nil || len(f.Params) == 0 {
			r.Undecided("R01.2", key, "-", "anchor unresolved")
			continue
		}
		raw := f.Params[0]
		bad := ""
		wraps := 0
		for _, ref := range *raw.Referrers() {
			switch x := ref.(type) {
			case ssa.CallInstruction:
				if sCallee(x) == nbi {
					wraps++
					continue
				}
				if fcal := sCallee(x); fcal != nil && fcal.Pkg() != nil && strings.Contains(fcal.Pkg().Path(), "logrus") {
					continue
				}
				// address accessors consume no bytes and bypass no buffer
				if x.Common().IsInvoke() && x.Common().Value == ssa.Value(raw) && (x.Common().Method.Name() == "RemoteAddr" || x.Common().Method.Name() == "LocalAddr") {
					continue
				}
				bad = fmt.Sprintf("%s: the raw carrier is used again after being wrapped (%s)", w.Pos(x.Pos()), describeCall(x))
			case *ssa.MakeInterface, *ssa.ChangeInterface:
				// conversions for logging varargs: follow one level
				v := ref.(ssa.Value)
				for _, r2 := range *v.Referrers() {
					if c2, ok := r2.(ssa.CallInstruction); ok {
						if sCallee(c2) == nbi {
							wraps++
						} else if fcal := sCallee(c2); fcal == nil || fcal.Pkg() == nil || !strings.Contains(fcal.Pkg().Path(), "logrus") {
							bad = fmt.Sprintf("%s: the raw carrier is used again after being wrapped (%s)", w.Pos(c2.Pos()), describeCall(c2))
						}
					}
				}
			case *ssa.DebugRef:
			default:
				bad = fmt.Sprintf("%s: the raw carrier flows somewhere other than NewBufferedInputConnection (%T)", w.Pos(ref.Pos()), ref)
			}
		}
		if wraps != 1 {
			bad = fmt.Sprintf("raw carrier wrapped %d times by NewBufferedInputConnection (want exactly once)", wraps)
		}
		r.Check(bad == "", "R01.2", key, w.Pos(f.Pos()), "the raw carrier is wrapped exactly once and never used directly afterwards", bad)
	}
}

func describeCall(c ssa.CallInstruction) string {
	if f := sCallee(c); f != nil {
		return funcKey(f)
	}
	return c.String()
}

// rootsThroughHelpers: rootsOf, additionally looking through module helpers
// that return (conn, error): the helper's non-nil returned connections are
// traced inside it and mapped back to the call's arguments.
func rootsThroughHelpers(w *World, v ssa.Value, depth int) []ssa.Value {
	var out []ssa.Value
	for _, root := range rootsOf(w, v) {
		ex, ok := root.(*ssa.Extract)
		if !ok || depth > 2 {
			out = append(out, root)
			continue
		}
		call, ok := ex.Tuple.(*ssa.Call)
		if !ok || ex.Index != 0 {
			out = append(out, root)
			continue
		}
		callee := call.Call.StaticCallee()
		if callee == nil || !inModule(callee) || len(callee.Blocks) == 0 {
			out = append(out, root)
			continue
		}
		mapped := false
		allInstrs(callee, func(in ssa.Instruction) {
			ret, ok := in.(*ssa.Return)
			if !ok || len(ret.Results) == 0 || isConstNil(ret.Results[0]) {
				return
			}
			for _, r2 := range rootsThroughHelpers(w, ret.Results[0], depth+1) {
				if i := paramIndex(callee, r2); i >= 0 && i < len(call.Call.Args) {
					mapped = true
					out = append(out, rootsThroughHelpers(w, call.Call.Args[i], depth+1)...)
				}
			}
		})
		if !mapped {
			out = append(out, root)
		}
	}
	return out
}

func c01Smux(w *World, r *Report) {
	n := 0
	for _, fn := range sortedModuleFuncs(w, w.SSA()) {
		allInstrs(fn, func(in ssa.Instruction) {
			c, ok := in.(*ssa.Call)
			if !ok {
				return
			}
			f := sCallee(c)
			if f == nil || f.Pkg() == nil || f.Pkg().Path() != "github.com/xtaci/smux" || (f.Name() != "Client" && f.Name() != "Server") {
				return
			}
			n++
			key := "call:smux." + f.Name() + "@" + ssaFuncKey(fn)
			pos := w.Pos(c.Pos())
			cfg := c.Call.Args[1]
			bad := ""
			fromDefault := false
			// the configuration object(s): the argument itself and, when a builder helper returns it, the
			// DefaultConfig() result inside that helper
			cfgVals := map[ssa.Value]bool{cfg: true}
			var tracePtr func(p ssa.Value, d int)
			var traceStruct func(sv ssa.Value, d int)
			other := false
			tracePtr = func(p ssa.Value, d int) {
				if d > 6 {
					other = true
					return
				}
				for _, root := range provInter(p, 0) {
					if dc, ok := root.(*ssa.Call); ok {
						if df := sCallee(dc); df != nil && df.Pkg() != nil && df.Pkg().Path() == "github.com/xtaci/smux" && df.Name() == "DefaultConfig" {
							fromDefault = true
							cfgVals[dc] = true
							continue
						}
					}
					if isConstNil(root) {
						fromDefault = true // smux uses DefaultConfig for nil
						continue
					}
					// a local copy: `settings := *smux.DefaultConfig()` (or the struct a builder returns), passed by address
					if al, ok := root.(*ssa.Alloc); ok && al.Referrers() != nil {
						if _, isStruct := al.Type().(*types.Pointer).Elem().Underlying().(*types.Struct); isStruct {
							cfgVals[al] = true
							whole := 0
							for _, ref := range *al.Referrers() {
								if st, ok := ref.(*ssa.Store); ok && st.Addr == ssa.Value(al) {
									whole++
									traceStruct(st.Val, d+1)
								}
							}
							if whole == 0 {
								other = true // built field by field from the zero value
							}
							continue
						}
					}
					other = true
				}
			}
			traceStruct = func(sv ssa.Value, d int) {
				switch x := sv.(type) {
				case *ssa.UnOp:
					if x.Op == token.MUL {
						tracePtr(x.X, d+1)
						return
					}
				case *ssa.Call:
					if g := x.Call.StaticCallee(); g != nil && inModule(g) && len(g.Blocks) > 0 {
						nret := 0
						allInstrs(g, func(in ssa.Instruction) {
							if ret, ok := in.(*ssa.Return); ok && len(ret.Results) > 0 {
								nret++
								traceStruct(ret.Results[0], d+1)
							}
						})
						if nret > 0 {
							return
						}
					}
				}
				other = true
			}
			tracePtr(cfg, 0)
			if other {
				bad = "the smux configuration does not start from smux.DefaultConfig()"
			}
			if !fromDefault && bad == "" {
				bad = "the smux configuration does not start from smux.DefaultConfig()"
			}
			// stores into the config's fields
			cfgFuncs := map[*ssa.Function]bool{fn: true}
			for v := range cfgVals {
				if in, ok := v.(ssa.Instruction); ok && in.Parent() != nil {
					cfgFuncs[in.Parent()] = true
				}
			}
			for cf := range cfgFuncs {
				allInstrs(cf, func(in2 ssa.Instruction) {
					st, ok := in2.(*ssa.Store)
					if !ok {
						return
					}
					fa, ok := st.Addr.(*ssa.FieldAddr)
					if !ok {
						return
					}
					isCfg := cfgVals[fa.X]
					if !isCfg {
						for _, root := range provenance(fa.X, provOpts{}) {
							if cfgVals[root] {
								isCfg = true
							}
						}
					}
					if !isCfg {
						return
					}
					fv := fieldVarOf(fa)
					v, isC := constIntVal(st.Val)
					switch fv.Name() {
					case "MaxFrameSize":
						if !isC {
							bad = "MaxFrameSize is not a constant: admissibility cannot be decided"
						} else if v <= 0 || v > 65535 {
							bad = fmt.Sprintf("MaxFrameSize = %d is outside smux's admissible range (0, 65535]: smux.%s refuses to start and nothing is carried", v, f.Name())
						}
					case "Version":
						if isC && v != 1 && v != 2 {
							bad = fmt.Sprintf("smux Version %d is not supported", v)
						}
					case "MaxReceiveBuffer", "MaxStreamBuffer":
						if isC && v <= 0 {
							bad = fmt.Sprintf("%s = %d is not positive: smux refuses the configuration", fv.Name(), v)
						}
					}
				})
			}
			r.Check(bad == "", "R01.4", key, pos, "configuration starts from smux.DefaultConfig(); constant overrides lie inside smux.VerifyConfig's bounds", bad)
		})
	}
	if n == 0 {
		r.Undecided("R01.4", "call:smux.Client/Server", "-", "no smux session construction found")
	}
}

// c01WsWrite: R01.5 — the websocket Write splits the caller's bytes into
// messages without gaps or overlaps: the prefix sent is p[:K] and the loop
// continues with p[K:] for the same K; the whole remainder is sent when it is
// not larger than K; the byte count reported is len(p) at entry.
func c01WsWrite(w *World, r *Report) {
	m := w.Method("internal/streams", "WebsocketTunnelConnection", "Write")
	fn := w.SSAFunc(m)
	key := "method:(*streams.WebsocketTunnelConnection).Write|chunking"
	if fn == nil || len(fn.Params) < 2 {
		r.Undecided("R01.5", key, "-", "anchor unresolved")
		return
	}
	var sentHigh, restLow []int64
	wholeSent := false
	allInstrs(fn, func(in ssa.Instruction) {
		sl, ok := in.(*ssa.Slice)
		if !ok {
			return
		}
		if sl.High != nil && sl.Low == nil {
			if v, ok := constIntVal(sl.High); ok {
				sentHigh = append(sentHigh, v)
			}
		}
		if sl.Low != nil && sl.High == nil {
			if v, ok := constIntVal(sl.Low); ok {
				restLow = append(restLow, v)
			}
		}
	})
	// a WriteMessage call whose payload is the (phi of the) buffer itself
	forwardsToWriteMessage := func(g *ssa.Function, argIdx int) bool {
		if g == nil || !inModule(g) || argIdx >= len(g.Params) {
			return false
		}
		for _, c2 := range callsIn(g) {
			if f2 := sCallee(c2); f2 != nil && f2.Name() == "WriteMessage" {
				a2 := c2.Common().Args[len(c2.Common().Args)-1]
				if a2 == ssa.Value(g.Params[argIdx]) {
					return true
				}
			}
		}
		return false
	}
	for _, c := range callsIn(fn) {
		f := sCallee(c)
		args := c.Common().Args
		isSend := f != nil && f.Name() == "WriteMessage"
		payload := ssa.Value(nil)
		if isSend {
			payload = args[len(args)-1]
		} else if sc := c.Common().StaticCallee(); sc != nil {
			for i, a := range args {
				if _, isBytes := a.Type().Underlying().(*types.Slice); isBytes && forwardsToWriteMessage(sc, i) {
					isSend, payload = true, a
				}
			}
		}
		if isSend && payload != nil {
			if _, isSlice := payload.(*ssa.Slice); !isSlice {
				wholeSent = true
			}
		}
	}
	bad := ""
	if len(sentHigh) != 1 || len(restLow) != 1 {
		bad = fmt.Sprintf("chunking idiom not recognised (sent prefixes %v, continuations %v)", sentHigh, restLow)
	} else if sentHigh[0] != restLow[0] {
		bad = fmt.Sprintf("a message carries p[:%d] but the loop continues with p[%d:]: bytes are %s", sentHigh[0], restLow[0], mapStr(sentHigh[0] < restLow[0], "dropped")+mapStr(sentHigh[0] > restLow[0], "sent twice"))
	} else if !wholeSent {
		bad = "the final remainder is never sent as a whole"
	}
	// returned count = len(p) at entry
	okCount := false
	allInstrs(fn, func(in ssa.Instruction) {
		if ret, ok := in.(*ssa.Return); ok && len(ret.Results) == 2 && isConstNil(ret.Results[1]) {
			if isLenOf(ret.Results[0], fn.Params[1]) {
				okCount = true
			}
		}
	})
	if bad == "" && !okCount {
		bad = "on success Write does not report len(p) of the caller's buffer"
	}
	r.Check(bad == "", "R01.5", key, w.Pos(m.Pos()), "messages carry p[:K], the loop continues with p[K:], the remainder is sent whole, len(p) is reported", bad)
}

// c01WsReadLimit: R01.9 — WebsocketTunnelConnection.Write sends messages of up to buffers.BufferSize bytes
// (R01.5). gorilla's SetReadLimit makes the receiving end fail the connection on any larger message — and
// the tunnel's Read turns that failure into a clean io.EOF. A limit below the writer's chunk size therefore
// truncates bulk transfers silently.
func c01WsReadLimit(w *World, r *Report) { ruleWsReadLimit(w, r, "R01.9") }

func ruleWsReadLimit(w *World, r *Report, rule string) {
	chunk, ok := intConstOf(w, "internal/util/buffers", "BufferSize")
	if !ok {
		r.Undecided(rule, "call:websocket.SetReadLimit", "-", "anchor unresolved: buffers.BufferSize")
		return
	}
	n := 0
	var bad []string
	for _, fn := range sortedModuleFuncs(w, w.SSA()) {
		for _, c := range callsIn(fn) {
			f := sCallee(c)
			if f == nil || f.Name() != "SetReadLimit" || f.Pkg() == nil || !strings.Contains(f.Pkg().Path(), "gorilla/websocket") {
				continue
			}
			n++
			args := c.Common().Args
			v, isC := constIntVal(args[len(args)-1])
			if !isC {
				bad = append(bad, fmt.Sprintf("%s: the websocket read limit is not a constant: it cannot be compared with the writer's message size", w.Pos(c.Pos())))
			} else if v > 0 && v < chunk {
				bad = append(bad, fmt.Sprintf("%s: the websocket read limit %d is below the %d bytes a single message of the tunnel's own Write can carry (a full multiplexer frame is payload plus its 8-byte header): the receiver fails the connection on such a message and Read reports a clean end-of-stream — a bulk transfer is cut short without an error", w.Pos(c.Pos()), v, chunk))
			}
		}
	}
	sort.Strings(bad)
	r.Check(len(bad) == 0, rule, "call:websocket.SetReadLimit", "-", fmt.Sprintf("%d read limit(s) set; none below the writer's message size of %d", n, chunk), strings.Join(bad, "; "))
}
