package main

// C03 — Channel routing and exposure control.

import (
	"fmt"
	"go/ast"
	"go/constant"
	"go/token"
	"go/types"
	"strings"

	"golang.org/x/tools/go/ssa"
)

func init() { register("C03", checkC03) }

func checkC03(w *World, r *Report) {
	r.Explanation = "Decides the dataflow and guard facts the routing guarantee reduces to: (R03.1) the channel list given to AcceptConnection at every server endpoint derives only from (*Channels).Filter applied to that endpoint's own allow-list — through fields, captured variables and parameters — never from the unfiltered Startup parameter; (R03.2) the handler's channel list is written only from AcceptConnection's parameter; (R03.3) Channel.OpenConnection is invoked only in the multiplexer handler, under a string equality between the requested protocol and \"/\"+Name() of the very channel opened; (R03.4) name matching in Find/Filter/muxHandler uses ==/!= only (no prefix, case-folding or regexp helpers); (R03.5) Filter returns, for a non-empty allow-list, only results of Find on listed names under err==nil, and the unfiltered table only when the list is empty; (R03.6) NetworkChannel dials its own configured (scheme, host) and net.Dial occurs nowhere else in package server; handlers are registered as \"/\"+Name() over the handler's own list. go-multistream's exact-match lookup is trusted."
	r.NotDecided = []string{"that the dialled socket is the configured service", "YAML/JSON decoding of allow-lists", "go-multistream and smux internals"}
	r.Trusted = []string{"go-multistream AddHandler/Handle match protocol ids exactly (fulltextMatch, v0.1.2)"}
	r.Rule("R03.1", "AcceptConnection receives only the endpoint's filtered channel list", 4)
	r.Rule("R03.2", "ConnectionHandler.channels written only from AcceptConnection's parameter", 1)
	r.Rule("R03.3", "OpenConnection only under protocol == \"/\"+Name() of the same channel", 1)
	r.Rule("R03.4", "exact name matching only", 3)
	r.Rule("R03.5", "Filter returns Find results for listed names only", 2)
	r.Rule("R03.6", "channels dial their own address; handlers registered per own list", 2)
	r.Rule("R03.7", "per-endpoint state is not read through a loop variable's address after the iteration", 1)

	acc := w.Func("internal/server", "AcceptConnection")
	filter := w.Method("internal/server", "Channels", "Filter")
	find := w.Method("internal/server", "Channels", "Find")
	if acc == nil || filter == nil || find == nil {
		r.Undecided("R03.1", "anchor", "-", "anchor unresolved: server.AcceptConnection / Channels.Filter / Channels.Find")
		return
	}
	prog := w.SSA()
	mods := allModuleFuncs(w, prog)

	// ------------------------------------------------------------ R03.1
	var derives func(v ssa.Value, fn *ssa.Function, depth int, seen map[ssa.Value]bool) (bool, string)
	fieldOK := map[*types.Var]string{}
	derives = func(v ssa.Value, fn *ssa.Function, depth int, seen map[ssa.Value]bool) (bool, string) {
		if depth > 8 {
			return false, "provenance too deep"
		}
		if seen[v] {
			return true, ""
		}
		seen[v] = true
		for _, root := range provenance(v, provOpts{}) {
			switch x := root.(type) {
			case *ssa.Extract:
				c, ok := x.Tuple.(*ssa.Call)
				if !ok || sCallee(c) != filter || x.Index != 0 {
					return false, "derives from " + x.String() + ", not from Channels.Filter"
				}
				// the allow-list argument must be a field load (the endpoint's own list)
				al := c.Call.Args[len(c.Call.Args)-1]
				okAl := false
				for _, ar := range provenance(al, provOpts{}) {
					if asFieldAddr(ar) != nil {
						okAl = true
					}
					if f, ok := ar.(*ssa.Field); ok && f != nil {
						okAl = true
					}
				}
				if !okAl {
					return false, "Filter is not applied to an allow-list field of the endpoint (" + al.String() + ")"
				}
			case *ssa.UnOp:
				if x.Op != token.MUL {
					return false, "derives from " + x.String()
				}
				if fv, ok := x.X.(*ssa.FreeVar); ok {
					vals := freeVarStores(fv)
					if len(vals) == 0 {
						return false, "captured variable never assigned"
					}
					for _, sv := range vals {
						if okd, why := derives(sv, fv.Parent().Parent(), depth+1, seen); !okd {
							return false, why
						}
					}
					continue
				}
				fa, ok := x.X.(*ssa.FieldAddr)
				if !ok {
					return false, "derives from a load of " + x.X.String()
				}
				fld := fieldVarOf(fa)
				if why, done := fieldOK[fld]; done {
					if why != "" {
						return false, why
					}
					continue
				}
				fieldOK[fld] = ""
				nst := 0
				for f2 := range mods {
					var bad string
					allInstrs(f2, func(in ssa.Instruction) {
						st, ok := in.(*ssa.Store)
						if !ok {
							return
						}
						fa2, ok := st.Addr.(*ssa.FieldAddr)
						if !ok || fieldVarOf(fa2) != fld {
							return
						}
						nst++
						if okd, why := derives(st.Val, f2, depth+1, seen); !okd {
							bad = fmt.Sprintf("field %s is assigned at %s a value that %s", fld.Name(), w.Pos(st.Pos()), why)
						}
					})
					if bad != "" {
						fieldOK[fld] = bad
						return false, bad
					}
				}
				if nst == 0 {
					fieldOK[fld] = "field " + fld.Name() + " is never assigned"
					return false, fieldOK[fld]
				}
			case *ssa.Parameter:
				fnp := x.Parent()
				idx := paramIndex(fnp, x)
				obj, _ := fnp.Object().(*types.Func)
				ncallers := 0
				for caller := range mods {
					for _, c := range callsIn(caller) {
						if obj == nil || sCallee(c) != obj || c.Common().IsInvoke() {
							continue
						}
						ncallers++
						if okd, why := derives(c.Common().Args[idx], caller, depth+1, seen); !okd {
							return false, why
						}
					}
				}
				if ncallers == 0 {
					return false, fmt.Sprintf("is the parameter %q of %s (the unfiltered channel table), not a Filter result", x.Name(), ssaFuncKey(fnp))
				}
			case *ssa.Const:
				if !x.IsNil() {
					return false, "constant"
				}
			default:
				return false, fmt.Sprintf("derives from %s (%T)", root.String(), root)
			}
		}
		return true, ""
	}
	for fn := range mods {
		for _, c := range callsIn(fn) {
			if sCallee(c) != acc {
				continue
			}
			key := "call:server.AcceptConnection@" + ssaFuncKey(fn) + "|channels"
			okd, why := derives(c.Common().Args[3], fn, 0, map[ssa.Value]bool{})
			r.Check(okd, "R03.1", key, w.Pos(c.Pos()), "channel list derives only from Channels.Filter(<own allow-list>)", "the channel list handed to the session "+why+": channels outside the endpoint's allow-list become reachable")
		}
	}

	// ------------------------------------------------------------ R03.2
	chField := fieldOf(w.Named("internal/server", "ConnectionHandler"), "channels")
	if chField == nil {
		// role-based fallback: the Channels-typed field of ConnectionHandler
		if n := w.Named("internal/server", "ConnectionHandler"); n != nil {
			st := n.Underlying().(*types.Struct)
			for i := 0; i < st.NumFields(); i++ {
				if nt, ok := st.Field(i).Type().(*types.Named); ok && nt.Obj().Name() == "Channels" {
					chField = st.Field(i)
				}
			}
		}
	}
	if chField == nil {
		r.Undecided("R03.2", "field:server.ConnectionHandler.channels", "-", "anchor unresolved")
	} else {
		n := 0
		w.AllFuncDecls(func(p *packagesPkg, fd *ast.FuncDecl) {
			obj, _ := p.TypesInfo.Defs[fd.Name].(*types.Func)
			for _, st := range findFieldStores(p.TypesInfo, fd, chField) {
				n++
				key := "field:server.ConnectionHandler." + chField.Name() + "|store@" + funcKey(obj)
				okp := false
				if obj == acc {
					if id, ok := unparen(st.RHS).(*ast.Ident); ok {
						sig := acc.Type().(*types.Signature)
						if p.TypesInfo.Uses[id] == types.Object(sig.Params().At(3)) {
							okp = true
						}
					}
				}
				r.Check(okp, "R03.2", key, w.Pos(st.Pos), "handler's list is AcceptConnection's channels parameter", "the session's channel list is written from something other than AcceptConnection's (filtered) channels parameter")
			}
		})
		if n == 0 {
			r.Violate("R03.2", "field:server.ConnectionHandler."+chField.Name(), "-", "handler's channel list is never initialised")
		}
	}

	// ------------------------------------------------------------ R03.3
	chIface := w.Interface("internal/server", "Channel")
	muxH := w.Method("internal/server", "ConnectionHandler", "muxHandler")
	c03OpenGuard(w, r, "R03.3")

	// ------------------------------------------------------------ R03.4
	for _, m := range []*types.Func{find, filter, muxH} {
		fn := w.SSAFunc(m)
		key := "func:" + funcKey(m) + "|exact-match"
		if fn == nil {
			r.Undecided("R03.4", key, "-", "anchor unresolved")
			continue
		}
		bad := ""
		neq := 0
		allInstrs(fn, func(in ssa.Instruction) {
			if c, ok := in.(ssa.CallInstruction); ok {
				f := sCallee(c)
				if f != nil && f.Pkg() != nil {
					pk := f.Pkg().Path()
					if pk == "regexp" || pk == "path" || pk == "path/filepath" || pk == "unicode" {
						bad = fmt.Sprintf("%s: %s.%s applied in name matching", w.Pos(in.Pos()), pk, f.Name())
					}
					if pk == "strings" {
						switch f.Name() {
						case "HasPrefix", "HasSuffix", "Contains", "EqualFold", "ToLower", "ToUpper", "Index", "TrimSpace", "Trim", "TrimPrefix", "TrimSuffix", "Title", "Fields", "Split", "Compare":
							bad = fmt.Sprintf("%s: strings.%s applied in name matching (names must match exactly)", w.Pos(in.Pos()), f.Name())
						}
					}
				}
			}
			if b, ok := in.(*ssa.BinOp); ok {
				if bt, ok := b.X.Type().Underlying().(*types.Basic); ok && bt.Info()&types.IsString != 0 {
					switch b.Op {
					case token.EQL, token.NEQ:
						neq++
					case token.LSS, token.GTR, token.LEQ, token.GEQ:
						bad = fmt.Sprintf("%s: ordered string comparison in name matching", w.Pos(in.Pos()))
					}
				}
			}
			if sl, ok := in.(*ssa.Slice); ok {
				if bt, ok := sl.X.Type().Underlying().(*types.Basic); ok && bt.Info()&types.IsString != 0 {
					bad = fmt.Sprintf("%s: a name is sliced before comparison", w.Pos(in.Pos()))
				}
			}
		})
		r.Check(bad == "", "R03.4", key, w.Pos(m.Pos()), fmt.Sprintf("%d string (in)equality test(s); no prefix/case/regexp helper", neq), bad, "eq_tests", neq)
	}

	// ------------------------------------------------------------ R03.5
	c03Filter(w, r, filter, find)

	// ------------------------------------------------------------ R03.6
	c03Dial(w, r, chIface)
	c03Register(w, r)
	c03LoopVarEscape(w, r)
}

// c03LoopVarEscape: R03.7 — per-endpoint state must not be read at request
// time through the address of a loop variable. With the module's language
// version (go.mod: go 1.14) a range variable is ONE variable shared by all
// iterations; a closure that outlives the iteration and reads through its
// address sees the last endpoint's data (its allow-list) on every path.
func c03LoopVarEscape(w *World, r *Report) {
	ruleLoopVarEscape(w, r, "R03.7", func(path string) bool { return path == modPath+"/internal/server" }, "every endpoint's handler then reads the LAST endpoint's data")
}

// ruleLoopVarEscape: no closure or callee that outlives a loop iteration keeps
// the address of a variable the loop re-assigns (shared by all iterations).
func ruleLoopVarEscape(w *World, r *Report, rule string, inScope func(pkgPath string) bool, consequence string) {
	n := 0
	for _, fn := range sortedModuleFuncs(w, w.SSA()) {
		f0 := fn
		for f0.Parent() != nil {
			f0 = f0.Parent()
		}
		if f0.Pkg == nil || !inScope(f0.Pkg.Pkg.Path()) {
			continue
		}
		allInstrs(fn, func(in ssa.Instruction) {
			al, ok := in.(*ssa.Alloc)
			if !ok || !al.Heap {
				return
			}
			// loop variable: allocated outside a cycle, stored inside one
			if cycleThrough(al.Block()) != nil {
				return
			}
			inLoopStore := false
			for _, st := range storesTo(al) {
				if cycleThrough(st.Block()) != nil {
					inLoopStore = true
				}
			}
			if !inLoopStore {
				return
			}
			n++
			key := fmt.Sprintf("loopvar:%s@%s", al.Comment, ssaFuncKey(fn))
			bad := ""
			for _, ref := range *al.Referrers() {
				switch x := ref.(type) {
				case *ssa.MakeClosure:
					// captured directly by a closure created in the loop
					if escapes(x) {
						bad = fmt.Sprintf("%s: a closure that outlives the iteration captures the variable %s, which the loop re-assigns: %s", w.Pos(x.Pos()), al.Comment, consequence)
					}
				case ssa.CallInstruction:
					cc := x.Common()
					callee := cc.StaticCallee()
					if callee == nil || !inModule(callee) {
						continue
					}
					for i, a := range cc.Args {
						if a != ssa.Value(al) || i >= len(callee.Params) {
							continue
						}
						if paramCapturedByEscapingClosure(callee, callee.Params[i]) {
							bad = fmt.Sprintf("%s: the address of loop variable %s is passed to %s, which keeps it in a closure that is used after the iteration ended: %s", w.Pos(x.Pos()), al.Comment, ssaFuncKey(callee), consequence)
						}
					}
				}
			}
			r.Check(bad == "", rule, key, w.Pos(al.Pos()), "the loop variable's address does not outlive its iteration", bad)
		})
	}
	if n == 0 {
		r.Hold(rule, "loopvars:scope", "-", "no address-taken variable re-assigned in a loop in the packages in scope")
	}
}

func escapes(mc *ssa.MakeClosure) bool {
	if mc.Referrers() == nil {
		return false
	}
	for _, ref := range *mc.Referrers() {
		switch x := ref.(type) {
		case *ssa.Return, *ssa.Store, *ssa.MakeInterface, *ssa.Go, *ssa.Phi, *ssa.ChangeType:
			return true
		case ssa.CallInstruction:
			if x.Common().Value != ssa.Value(mc) {
				return true // passed as an argument
			}
		}
	}
	return false
}

func paramCapturedByEscapingClosure(fn *ssa.Function, p *ssa.Parameter) bool {
	found := false
	allInstrs(fn, func(in ssa.Instruction) {
		mc, ok := in.(*ssa.MakeClosure)
		if !ok {
			return
		}
		for _, b := range mc.Bindings {
			hit := b == ssa.Value(p)
			if !hit {
				// the parameter spilled into a local that the closure captures
				for _, st := range storesTo(b) {
					if st.Val == ssa.Value(p) {
						hit = true
					}
				}
			}
			if hit && escapes(mc) {
				found = true
			}
		}
	})
	return found
}

func c03Filter(w *World, r *Report, filter, find *types.Func) {
	fn := w.SSAFunc(filter)
	key := "method:(*server.Channels).Filter"
	if fn == nil {
		r.Undecided("R03.5", key, "-", "anchor unresolved")
		return
	}
	names := fn.Params[1]
	// appended elements
	bad := ""
	napp := 0
	for _, c := range callsIn(fn) {
		call, ok := c.(*ssa.Call)
		if !ok {
			continue
		}
		b, ok := call.Call.Value.(*ssa.Builtin)
		if !ok || b.Name() != "append" {
			continue
		}
		// only appends to a Channels-typed slice
		if nt, ok := call.Type().(*types.Named); !ok || nt.Obj().Name() != "Channels" {
			continue
		}
		napp++
		for _, el := range rootsOf(w, call.Call.Args[1]) {
			ex, ok := el.(*ssa.Extract)
			var fc *ssa.Call
			if ok {
				fc, _ = ex.Tuple.(*ssa.Call)
			}
			if fc == nil || sCallee(fc) != find || ex.Index != 0 {
				bad = fmt.Sprintf("%s: Filter appends a channel that is not the result of Find on a listed name", w.Pos(call.Pos()))
				continue
			}
			// Find's argument derives from the names parameter
			fromNames := false
			for _, ar := range provenance(fc.Call.Args[len(fc.Call.Args)-1], provOpts{}) {
				switch y := ar.(type) {
				case *ssa.Extract: // range over slice yields via Next? (strings only) — slices use IndexAddr
					_ = y
				case *ssa.UnOp:
					if ia, ok := y.X.(*ssa.IndexAddr); ok && ia.X == ssa.Value(names) {
						fromNames = true
					}
				}
			}
			if !fromNames {
				bad = fmt.Sprintf("%s: Find is not applied to an element of the allow-list", w.Pos(fc.Pos()))
			}
			// under err == nil of that Find
			var errv ssa.Value
			for _, ref := range *fc.Referrers() {
				if e2, ok := ref.(*ssa.Extract); ok && e2.Index == 1 {
					errv = e2
				}
			}
			if errv == nil || !dominatedByCondNil(fn, call, func(v ssa.Value) bool { x, _, ok := nilTest(v); return ok && x == errv }) {
				bad = fmt.Sprintf("%s: the found channel is appended without checking Find's error (an unknown name would add a nil/other channel)", w.Pos(call.Pos()))
			}
		}
	}
	if napp == 0 {
		bad = "Filter never builds a filtered list"
	}
	r.Check(bad == "", "R03.5", key+"|append", w.Pos(filter.Pos()), fmt.Sprintf("%d append(s): each adds Find(<listed name>) under err==nil", napp), bad)

	// returns: the whole table only when the list is empty
	bad = ""
	nret := 0
	enumPaths(fn, nil, nil, nil, func(e pathExit) {
		ret, ok := e.Last.(*ssa.Return)
		if !ok {
			return
		}
		nret++
		rv := e.State.Resolve(ret.Results[0])
		whole := false
		for _, root := range provenance(rv, provOpts{Transparent: func(c *ssa.Call) []int {
			if b, ok := c.Call.Value.(*ssa.Builtin); ok && b.Name() == "append" {
				return []int{0}
			}
			return nil
		}}) {
			root = e.State.Resolve(root)
			switch x := root.(type) {
			case *ssa.MakeSlice:
			case *ssa.Const:
			case *ssa.Slice:
				if _, fresh := x.X.(*ssa.Alloc); !fresh {
					bad = "Filter returns a re-slice of " + x.X.String()
				}
			case *ssa.UnOp:
				if x.Op == token.MUL && x.X == ssa.Value(fn.Params[0]) {
					whole = true
				} else {
					bad = "Filter returns a list of unknown origin: " + x.String()
				}
			default:
				bad = fmt.Sprintf("Filter returns a list of unknown origin: %s", root.String())
			}
		}
		if whole {
			// allowed only when names is empty: a fact "len(names) == 0" true or "names == nil" true
			empty := false
			for v, t := range e.State.Facts {
				b, ok := v.(*ssa.BinOp)
				if !ok || !t || b.Op != token.EQL {
					continue
				}
				if x, _, isNil := nilTest(v); isNil && x == ssa.Value(names) {
					empty = true
				}
				if c, ok := b.X.(*ssa.Call); ok {
					if bi, ok := c.Call.Value.(*ssa.Builtin); ok && bi.Name() == "len" && c.Call.Args[0] == ssa.Value(names) {
						if z, ok := constIntVal(b.Y); ok && z == 0 {
							empty = true
						}
					}
				}
			}
			if !empty {
				bad = "Filter returns the unfiltered channel table on a path where the allow-list is not known to be empty"
			}
		}
	})
	r.Check(bad == "" && nret > 0, "R03.5", key+"|return", w.Pos(filter.Pos()), fmt.Sprintf("%d return path(s): whole table only for an empty allow-list, otherwise the filtered slice", nret), bad)
}

func c03Dial(w *World, r *Report, chIface *types.Interface) {
	ndial := 0
	for _, fn := range sortedModuleFuncs(w, w.SSA()) {
		if fn.Pkg == nil || fn.Pkg.Pkg.Path() != modPath+"/internal/server" {
			if fn.Parent() == nil || fn.Parent().Pkg == nil || fn.Parent().Pkg.Pkg.Path() != modPath+"/internal/server" {
				continue
			}
		}
		for _, c := range callsIn(fn) {
			f := sCallee(c)
			if f == nil || f.Pkg() == nil || f.Pkg().Path() != "net" || !strings.HasPrefix(f.Name(), "Dial") {
				continue
			}
			ndial++
			key := "call:net." + f.Name() + "@" + ssaFuncKey(fn)
			pos := w.Pos(c.Pos())
			obj, _ := fn.Object().(*types.Func)
			if obj == nil || obj.Name() != "OpenConnection" || chIface == nil || recvNamed(obj) == nil || !implementsIface(types.NewPointer(recvNamed(obj)), chIface) {
				r.Violate("R03.6", key, pos, "package server dials outside a Channel's OpenConnection: an outbound connection not tied to a configured channel")
				continue
			}
			// both arguments are fields of the receiver's address
			okArgs := true
			var names []string
			for _, a := range c.Common().Args[:2] {
				fromRecv := false
				for _, root := range provenance(a, provOpts{}) {
					fa := asFieldAddr(root)
					if fa == nil {
						continue
					}
					base := ssa.Value(fa)
					for {
						if f2, ok := base.(*ssa.FieldAddr); ok {
							base = f2.X
							continue
						}
						if u, ok := base.(*ssa.UnOp); ok && u.Op == token.MUL {
							base = u.X
							continue
						}
						break
					}
					if base == ssa.Value(fn.Params[0]) {
						fromRecv = true
						names = append(names, fieldVarOf(fa).Name())
					}
				}
				if !fromRecv {
					okArgs = false
				}
			}
			okNames := len(names) == 2 && names[0] == "Scheme" && names[1] == "Host"
			r.Check(okArgs && okNames, "R03.6", key, pos, "dials (Address.Scheme, Address.Host) of its own receiver",
				fmt.Sprintf("the channel does not dial its own configured (scheme, host): arguments come from %v", names))
		}
	}
	if ndial == 0 {
		r.Undecided("R03.6", "call:net.Dial", "-", "no dial found in package server")
	}
}

// muxerOrigins classifies where a *MultistreamMuxer value comes from:
// "fresh" (a NewMultistreamMuxer call), "global", "field:<T.f>", "unknown".
func muxerOrigins(w *World, v ssa.Value, fn *ssa.Function, depth int, seen map[ssa.Value]bool) []string {
	var out []string
	if depth > 4 {
		return []string{"unknown"}
	}
	for _, root := range provenance(v, provOpts{}) {
		if seen[root] {
			continue
		}
		seen[root] = true
		switch x := root.(type) {
		case *ssa.Call:
			f := sCallee(x)
			if f != nil && f.Name() == "NewMultistreamMuxer" {
				out = append(out, "fresh")
				continue
			}
			callee := x.Call.StaticCallee()
			if callee != nil && inModule(callee) && len(callee.Blocks) > 0 {
				for _, b := range callee.Blocks {
					if ret, ok := b.Instrs[len(b.Instrs)-1].(*ssa.Return); ok {
						for _, res := range ret.Results {
							if types.Identical(res.Type(), v.Type()) {
								out = append(out, muxerOrigins(w, res, callee, depth+1, seen)...)
							}
						}
					}
				}
				continue
			}
			out = append(out, "unknown")
		case *ssa.Parameter:
			// every static call site in the module supplies the argument
			idx := -1
			for i, p := range fn.Params {
				if p == x {
					idx = i
				}
			}
			found := false
			for _, caller := range sortedModuleFuncs(w, w.SSA()) {
				for _, c := range callsIn(caller) {
					if c.Common().StaticCallee() == fn && idx >= 0 && idx < len(c.Common().Args) {
						found = true
						out = append(out, muxerOrigins(w, c.Common().Args[idx], caller, depth+1, seen)...)
					}
				}
			}
			if !found {
				out = append(out, "unknown")
			}
		case *ssa.UnOp:
			if g, ok := x.X.(*ssa.Global); ok {
				out = append(out, "global:"+g.Name())
				continue
			}
			if fa := asFieldAddr(x.X); fa != nil {
				fv := fieldVarOf(fa)
				name := "?"
				if fv != nil {
					name = fv.Name()
				}
				// per-handler field: every store to it anywhere in the module must be fresh
				okf := fv != nil
				nst := 0
				for _, f2 := range sortedModuleFuncs(w, w.SSA()) {
					allInstrs(f2, func(in ssa.Instruction) {
						st, ok := in.(*ssa.Store)
						if !ok {
							return
						}
						if fa2 := asFieldAddr(st.Addr); fa2 != nil && fieldVarOf(fa2) == fv {
							nst++
							for _, o := range muxerOrigins(w, st.Val, f2, depth+1, seen) {
								if o != "fresh" {
									okf = false
								}
							}
						}
					})
				}
				if okf && nst > 0 {
					out = append(out, "field:"+name)
				} else {
					out = append(out, "unknown")
				}
				continue
			}
			out = append(out, "unknown")
		case *ssa.Global:
			out = append(out, "global:"+x.Name())
		default:
			out = append(out, "unknown")
		}
	}
	if len(out) == 0 {
		out = []string{"unknown"}
	}
	return out
}

func c03Register(w *World, r *Report) {
	key := "pkg:server|register"
	chNamed := w.Named("internal/server", "ConnectionHandler")
	if chNamed == nil {
		r.Undecided("R03.6", key, "-", "anchor unresolved")
		return
	}
	chField := fieldOf(chNamed, "channels")
	if chField == nil {
		// by role: the field of type server.Channels
		chField = fieldByType(chNamed, func(t types.Type) bool {
			nt, ok := t.(*types.Named)
			return ok && nt.Obj().Name() == "Channels" && nt.Obj().Pkg() != nil && strings.HasSuffix(nt.Obj().Pkg().Path(), "/internal/server")
		})
	}
	n, nneg := 0, 0
	bad := ""
	pos := "-"
	isMux := func(f *types.Func) bool {
		return f != nil && f.Pkg() != nil && strings.HasSuffix(f.Pkg().Path(), "go-multistream") && recvNamed(f) != nil && recvNamed(f).Obj().Name() == "MultistreamMuxer"
	}
	for _, fn := range sortedModuleFuncs(w, w.SSA()) {
		f0 := fn
		for f0.Parent() != nil {
			f0 = f0.Parent()
		}
		if f0.Pkg == nil || f0.Pkg.Pkg.Path() != modPath+"/internal/server" {
			continue
		}
		for _, c := range callsIn(fn) {
			f := sCallee(c)
			if !isMux(f) {
				continue
			}
			args := c.Common().Args
			switch f.Name() {
			case "AddHandler", "AddHandlerWithFunc", "Handle", "Negotiate", "NegotiateLazy":
			default:
				continue
			}
			// the muxer must be private to the stream / the physical connection: a shared one keeps the
			// registrations of every endpoint's connection
			for _, o := range muxerOrigins(w, args[0], fn, 0, map[ssa.Value]bool{}) {
				if strings.HasPrefix(o, "global:") {
					bad = fmt.Sprintf("%s: %s uses the package-level muxer %s: it accumulates the channel names (and handlers) of every endpoint's connections, so a name outside this endpoint's allow-list is served by another endpoint's handler", w.Pos(c.Pos()), f.Name(), strings.TrimPrefix(o, "global:"))
				} else if o == "unknown" {
					bad = fmt.Sprintf("%s: cannot establish that the muxer used by %s is created for this stream/connection", w.Pos(c.Pos()), f.Name())
				}
			}
			if f.Name() != "AddHandler" && f.Name() != "AddHandlerWithFunc" {
				nneg++
				if pos == "-" {
					pos = w.Pos(c.Pos())
				}
				continue
			}
			n++
			proto := args[len(args)-2]
			if f.Name() == "AddHandlerWithFunc" {
				proto = args[1]
			}
			okp := false
			if named, ok := protocolIdOf(proto); ok {
				// receiver element of the handler's own list
				for _, root := range provenance(named, provOpts{}) {
					if u, ok := root.(*ssa.UnOp); ok {
						if ia, ok := u.X.(*ssa.IndexAddr); ok && chField != nil {
							for _, lr := range provenance(ia.X, provOpts{}) {
								if isLoadOfField(lr, chField) {
									okp = true
								}
							}
						}
					}
				}
			}
			if !okp {
				bad = fmt.Sprintf("%s: a handler is registered under a protocol id that is not \"/\"+Name() of a channel of the session's own list", w.Pos(c.Pos()))
			}
			// handler must be the bound muxHandler
			h := args[len(args)-1]
			okh := false
			for _, root := range provenance(h, provOpts{}) {
				if mc, ok := root.(*ssa.MakeClosure); ok {
					if bf, ok := mc.Fn.(*ssa.Function); ok {
						mh := methodOf(chNamed, "muxHandler") // by name, or by its role signature after a rename
						if mh != nil && (fnObj(bf) == mh || strings.HasPrefix(bf.Name(), mh.Name()+"$")) {
							okh = true
						}
					}
				}
			}
			if !okh {
				bad = fmt.Sprintf("%s: registered handler is not the guarded muxHandler", w.Pos(c.Pos()))
			}
		}
	}
	if n == 0 {
		bad = "no protocol handler is registered"
	}
	if nneg == 0 && bad == "" {
		bad = "no protocol negotiation (Handle/Negotiate) found in package server"
	}
	r.Check(bad == "", "R03.6", key, pos, fmt.Sprintf("%d registration(s) \"/\"+Name() over the session's own channel list handled by muxHandler, %d negotiation(s), all on a muxer created for the stream/connection", n, nneg), bad)
}

// c03LookupByExactName: every non-nil result of h is an element e returned on a path where
// param[pidx] == "/"+e.Name() was found true.
func c03LookupByExactName(h *ssa.Function, pidx int) bool {
	if len(h.Blocks) == 0 || pidx >= len(h.Params) {
		return false
	}
	prm := h.Params[pidx]
	sameElem := func(a, b ssa.Value) bool {
		if a == b {
			return true
		}
		ua, ok1 := a.(*ssa.UnOp)
		ub, ok2 := b.(*ssa.UnOp)
		if !ok1 || !ok2 {
			return false
		}
		ia, ok1 := ua.X.(*ssa.IndexAddr)
		ib, ok2 := ub.X.(*ssa.IndexAddr)
		if !ok1 || !ok2 || ia.Index != ib.Index {
			return false
		}
		if ia.X == ib.X {
			return true
		}
		la, ok1 := ia.X.(*ssa.UnOp)
		lb, ok2 := ib.X.(*ssa.UnOp)
		if !ok1 || !ok2 {
			return false
		}
		fa, fb := asFieldAddr(la.X), asFieldAddr(lb.X)
		return fa != nil && fb != nil && fa.X == fb.X && fa.Field == fb.Field
	}
	okAll, nret := true, 0
	done := enumPaths(h, nil, nil, nil, func(e pathExit) {
		ret, isRet := e.Last.(*ssa.Return)
		if !isRet || len(ret.Results) == 0 {
			return
		}
		rv := e.State.Resolve(ret.Results[0])
		if isConstNil(rv) {
			return
		}
		if mi, ok := rv.(*ssa.MakeInterface); ok {
			rv = mi.X
		}
		nret++
		found := false
		for v, t := range e.State.Facts {
			b, ok := v.(*ssa.BinOp)
			if !ok || b.Op != token.EQL || !t {
				continue
			}
			for _, pair := range [][2]ssa.Value{{b.X, b.Y}, {b.Y, b.X}} {
				if pair[0] != ssa.Value(prm) {
					continue
				}
				named, ok := protocolIdOf(pair[1])
				if !ok {
					continue
				}
				if sameElem(named, rv) {
					found = true
				}
			}
		}
		if !found {
			okAll = false
		}
	})
	return done && okAll && nret > 0
}

// protocolIdOf: v is the protocol id of a channel — "/"+x.Name(), written in place or through a module helper
// whose only result is "/"+p.Name() of its parameter p. Returns x.
func protocolIdOf(v ssa.Value) (ssa.Value, bool) {
	if add, ok := v.(*ssa.BinOp); ok && add.Op == token.ADD {
		cst, ok := add.X.(*ssa.Const)
		if !ok || cst.Value == nil || cst.Value.Kind() != constant.String || constant.StringVal(cst.Value) != "/" {
			return nil, false
		}
		nc, ok := add.Y.(*ssa.Call)
		if !ok || !nc.Call.IsInvoke() || nc.Call.Method.Name() != "Name" {
			return nil, false
		}
		return nc.Call.Value, true
	}
	call, ok := v.(*ssa.Call)
	if !ok {
		return nil, false
	}
	h := call.Call.StaticCallee()
	if h == nil || !inModule(h) || len(h.Blocks) != 1 {
		return nil, false
	}
	ret, ok := h.Blocks[0].Instrs[len(h.Blocks[0].Instrs)-1].(*ssa.Return)
	if !ok || len(ret.Results) != 1 {
		return nil, false
	}
	inner, ok := protocolIdOf(ret.Results[0])
	if !ok {
		return nil, false
	}
	for i, p := range h.Params {
		if ssa.Value(p) == inner && i < len(call.Call.Args) {
			return call.Call.Args[i], true
		}
	}
	return nil, false
}

// c03OpenGuard: R03.3 (also C01 R01.11) — Channel.OpenConnection is invoked only in the multiplexer handler,
// under a string equality between the requested protocol and "/"+Name() of the very channel opened.
func c03OpenGuard(w *World, r *Report, rule string) {
	mods := allModuleFuncs(w, w.SSA())
	chIface := w.Interface("internal/server", "Channel")
	var openM *types.Func
	if chIface != nil {
		for i := 0; i < chIface.NumMethods(); i++ {
			if chIface.Method(i).Name() == "OpenConnection" {
				openM = chIface.Method(i)
			}
		}
	}
	muxH := w.Method("internal/server", "ConnectionHandler", "muxHandler")
	nopen := 0
	for fn := range mods {
		for _, c := range callsIn(fn) {
			f := sCallee(c)
			if f == nil || f.Name() != "OpenConnection" {
				continue
			}
			if !(f == openM || (recvNamed(f) != nil && chIface != nil && implementsIface(types.NewPointer(recvNamed(f)), chIface))) {
				continue
			}
			nopen++
			key := "call:Channel.OpenConnection@" + ssaFuncKey(fn)
			pos := w.Pos(c.Pos())
			obj, _ := fn.Object().(*types.Func)
			if obj != muxH {
				r.Violate(rule, key, pos, "a channel is opened outside the multiplexer handler (no protocol-name guard)")
				continue
			}
			var recv ssa.Value
			if c.Common().IsInvoke() {
				recv = c.Common().Value
			} else {
				recv = c.Common().Args[0]
			}
			protocol := fn.Params[1]
			isGuard := func(v ssa.Value) bool {
				b, ok := v.(*ssa.BinOp)
				if !ok || b.Op != token.EQL {
					return false
				}
				for _, pair := range [][2]ssa.Value{{b.X, b.Y}, {b.Y, b.X}} {
					if pair[0] != ssa.Value(protocol) {
						continue
					}
					named, ok := protocolIdOf(pair[1])
					if !ok {
						continue
					}
					if named == recv {
						return true
					}
				}
				return false
			}
			guardedHere := dominatedByCond(fn, c, isGuard, true)
			if !guardedHere {
				// the channel may come from a lookup helper: h(..., protocol, ...) returns a channel only on a path
				// where protocol == "/"+Name() of that very element holds
				for _, root := range provenance(recv, provOpts{}) {
					call, ok := root.(*ssa.Call)
					if ex, isEx := root.(*ssa.Extract); isEx && ex.Index == 0 {
						call, ok = ex.Tuple.(*ssa.Call)
					}
					if !ok {
						continue
					}
					h := call.Call.StaticCallee()
					if h == nil || !inModule(h) {
						continue
					}
					for ai, a := range call.Call.Args {
						if a == ssa.Value(protocol) && c03LookupByExactName(h, ai) {
							guardedHere = true
						}
					}
				}
			}
			r.Check(guardedHere, rule, key, pos,
				"OpenConnection is control-dependent on protocol == \"/\"+Name() of the channel being opened",
				"OpenConnection is not guarded by an exact equality between the requested protocol and \"/\"+Name() of the same channel: a request can be routed to a channel it did not name")
		}
	}
	if nopen == 0 {
		r.Undecided(rule, "call:Channel.OpenConnection", "-", "no call site of Channel.OpenConnection found")
	}

}
