package main

// C04 — Required or negotiated security never degrades to plaintext.

import (
	"strings"
	"fmt"
	"go/constant"
	"go/token"
	"go/types"

	"golang.org/x/tools/go/ssa"
)

func init() { register("C04", checkC04) }

// upstreamConnects returns, for each implementer of upstream.Upstream, the
// SSA function that performs the socketace client handshake together with the
// index of its mustSecure parameter (following Connect -> helper one level).
type connectFrame struct {
	Fn   *ssa.Function
	Call ssa.CallInstruction // in Fn: the call to the next frame's function, or (innermost) to NewClientConnection
	Must ssa.Value           // the mustSecure value as it is known in Fn
}

type connectSite struct {
	Type    *types.Named
	Frames  []connectFrame // outermost (the type's Connect) first; helpers that the handshake was moved into follow
	Fn      *ssa.Function  // innermost frame: the function containing the call to NewClientConnection
	Must    ssa.Value      // mustSecure parameter in Fn
	Call    *ssa.Call      // call to socketace.NewClientConnection
	CC, Err ssa.Value
}

// lift expresses a value of the innermost frame in the outermost frame possible: a parameter of a helper is
// replaced by the argument its caller passes. Returns the value and the index of the frame it lives in.
func (cs connectSite) lift(v ssa.Value) (ssa.Value, int) {
	idx := len(cs.Frames) - 1
	for idx > 0 {
		p, ok := v.(*ssa.Parameter)
		if !ok || p.Parent() != cs.Frames[idx].Fn {
			break
		}
		j := -1
		for k, q := range cs.Frames[idx].Fn.Params {
			if q == p {
				j = k
			}
		}
		args := cs.Frames[idx-1].Call.Common().Args
		if j < 0 || j >= len(args) {
			break
		}
		v = args[j]
		idx--
	}
	return v, idx
}

func findConnectSites(w *World) ([]connectSite, []string) {
	var out []connectSite
	var problems []string
	ui := w.Interface("internal/client/upstream", "Upstream")
	ncc := w.Func("internal/socketace", "NewClientConnection")
	if ui == nil || ncc == nil {
		return nil, []string{"anchor unresolved: upstream.Upstream / socketace.NewClientConnection"}
	}
	for _, n := range w.Implementers(ui) {
		m := methodOf(n, "Connect")
		fn := w.SSAFunc(m)
		if fn == nil {
			problems = append(problems, qualName(n)+": no Connect body")
			continue
		}
		// mustSecure = last bool parameter of Connect
		var must ssa.Value
		for _, p := range fn.Params {
			if b, ok := p.Type().Underlying().(*types.Basic); ok && b.Kind() == types.Bool {
				must = p
			}
		}
		// follow the mustSecure value through static module calls (the handshake may live in a helper)
		var search func(f *ssa.Function, must ssa.Value, depth int) []connectFrame
		search = func(f *ssa.Function, must ssa.Value, depth int) []connectFrame {
			for _, c := range callsIn(f) {
				if cl, ok := c.(*ssa.Call); ok && sCallee(c) == ncc {
					return []connectFrame{{Fn: f, Call: cl, Must: must}}
				}
			}
			if depth >= 3 {
				return nil
			}
			for _, c := range callsIn(f) {
				if _, isGo := c.(*ssa.Go); isGo {
					continue
				}
				sc := c.Common().StaticCallee()
				if sc == nil || !inModule(sc) {
					continue
				}
				for i, a := range c.Common().Args {
					if a == must && i < len(sc.Params) {
						if rest := search(sc, sc.Params[i], depth+1); rest != nil {
							return append([]connectFrame{{Fn: f, Call: c, Must: must}}, rest...)
						}
					}
				}
			}
			return nil
		}
		var frames []connectFrame
		if must != nil {
			frames = search(fn, must, 0)
		}
		if frames == nil {
			problems = append(problems, qualName(n)+": Connect does not reach socketace.NewClientConnection with its mustSecure parameter")
			continue
		}
		in := frames[len(frames)-1]
		cs := connectSite{Type: n, Frames: frames, Fn: in.Fn, Must: in.Must, Call: in.Call.(*ssa.Call)}
		for _, ref := range *cs.Call.Referrers() {
			if ex, ok := ref.(*ssa.Extract); ok {
				if ex.Index == 0 {
					cs.CC = ex
				} else {
					cs.Err = ex
				}
			}
		}
		out = append(out, cs)
	}
	return out, problems
}

// rootsInter: rootsOf (through the transparent stream wrappers) that also looks through module helpers: a
// root that is a result of a static module call is replaced by what the callee returns there.
func rootsInter(w *World, v ssa.Value, depth int) []ssa.Value {
	var out []ssa.Value
	for _, root := range rootsOf(w, v) {
		var call *ssa.Call
		idx := 0
		switch x := root.(type) {
		case *ssa.Extract:
			if c, ok := x.Tuple.(*ssa.Call); ok {
				call, idx = c, x.Index
			}
		case *ssa.Call:
			call = x
		}
		out = append(out, root)
		if call == nil || depth > 3 {
			continue
		}
		callee := call.Call.StaticCallee()
		if callee == nil || !inModule(callee) || len(callee.Blocks) == 0 {
			continue
		}
		for _, b := range callee.Blocks {
			ret, ok := b.Instrs[len(b.Instrs)-1].(*ssa.Return)
			if !ok || idx >= len(ret.Results) || isConstNil(ret.Results[idx]) {
				continue
			}
			out = append(out, rootsInter(w, ret.Results[idx], depth+1)...)
		}
	}
	return out
}

func checkC04(w *World, r *Report) {
	r.Explanation = "Decides the guard/typestate structure that keeps a required or negotiated security level from degrading: (R04.1) in every Upstream.Connect, each success return after the socketace handshake lies on a path where mustSecure was false or cc.Secure() was true; (R04.2) the connection stored in the upstream derives from the handshake result, not the raw carrier; (R04.3) the session's secure flag is set to true only after a successful crypto/tls handshake on the buffered connection (directly or through a helper whose every success return is so dominated) and the function then returns the TLS-wrapped connection; (R04.4) once StartTLS was requested, both roles return either the TLS connection or an error — never the plain connection — and the server advertises StartTLS only when not already secure; (R04.5) the secure argument given to AcceptConnection/NewClientConnection can be true only where the carrier came from a TLS primitive (tls.Dial / tls.Listen / ServeTLS / successful tls.Client|Server handshake / TLSConfig on the DNS server / scheme tests for websockets). Not decided: absence of clear-text payload on the wire, crypto/tls itself."
	r.NotDecided = []string{"payload never appears in clear on the carrier (needs a wire observer)", "crypto/tls behaviour", "peer byte sequences beyond the status checks of C06"}
	r.Trusted = []string{"(*tls.Conn).Handshake returning nil means the TLS session is established", "gorilla/websocket dials TLS exactly for wss URLs", "miekg/dns serves TLS when Net ends in -tls and TLSConfig is set"}
	r.Rule("R04.1", "require-security check on every success path of each Upstream.Connect", 5)
	r.Rule("R04.2", "the stored upstream connection derives from the handshake result", 5)
	r.Rule("R04.3", "secure flag set only after a successful TLS handshake; TLS connection returned", 2)
	r.Rule("R04.4", "StartTLS is all-or-nothing on both roles; advertised only when not already secure", 3)
	r.Rule("R04.5", "secure flag / TLS carrier correlation at every endpoint", 9)
	r.Rule("R04.6", "Connect never rewrites the configured scheme: a reconnect of a +tls upstream is a TLS connect again", 5)
	ruleSchemeImmutable(w, r, "R04.6")
	r.Rule("R04.7", "the user's require-security option reaches every Upstream.Connect unchanged", 2)
	r.Rule("R04.13", "a certificate manager never answers (nil, nil): an endpoint configured for TLS cannot be handed 'no configuration' without an error", 2)
	c04TlsConfigNeverNilOnSuccess(w, r, "R04.13")
	r.Rule("R04.12", "header lists are split without leaving optional white space on the elements (the StartTLS capability is matched with ==)", 1)
	ruleHeaderListElementsTrimmed(w, r, "R04.12")
	r.Rule("R04.11", "the client takes every StartTLS offer made on a carrier that is not secure (no local reason turns it down and goes on in clear text)", 1)
	c04ClientTakesTheOffer(w, r)
	r.Rule("R04.10", "the secure argument of the server handshake is the listener's own TLS flag, never peer-supplied data", 5)
	ruleSecureFlagIsTheListenersOwn(w, r, "R04.10")
	r.Rule("R04.8", "a server whose TLS configuration demands client certificates completes no clear-text session (the requirement can only be enforced inside a TLS handshake)", 1)
	r.Rule("R04.9", "that demand survives a TLS configuration that cannot be loaded: the requirement flag is set on every path that asked the manager, failure included", 1)
	c05NoPlainAdmission(w, r, "R04.8", "R04.9")
	c04MustSecurePlumbing(w, r)

	sites, problems := findConnectSites(w)
	for _, p := range problems {
		r.Undecided("R04.1", "anchor|"+p, "-", p)
	}
	secureM := w.Method("internal/socketace", "ClientConnection", "Secure")
	for _, cs := range sites {
		key := "type:" + qualName(cs.Type) + "|Connect"
		pos := w.Pos(cs.Call.Pos())
		bad := ""
		succ := 0
		ok := enumPaths(cs.Fn, cs.Call, nil, nil, func(e pathExit) {
			ret, isRet := e.Last.(*ssa.Return)
			if !isRet || len(ret.Results) == 0 {
				return
			}
			rv := e.State.Resolve(ret.Results[len(ret.Results)-1])
			if !isConstNil(rv) {
				return
			}
			succ++
			if t, known := e.State.Truth(cs.Must); known && !t {
				return
			}
			for v, t := range e.State.Facts {
				if c, ok := v.(*ssa.Call); ok && sCallee(c) == secureM && t {
					// receiver must be the handshake result
					if len(c.Call.Args) > 0 {
						for _, root := range rootsOf(w, c.Call.Args[0]) {
							if root == cs.CC {
								return
							}
						}
					}
				}
			}
			bad = fmt.Sprintf("success return at %s is reachable with mustSecure true and without cc.Secure() observed true: an unprotected session is accepted although security was required", w.Pos(ret.Pos()))
		})
		if !ok {
			r.Undecided("R04.1", key, pos, "path budget exceeded")
		} else if succ == 0 {
			r.Undecided("R04.1", key, pos, "no success return found after the handshake")
		} else {
			r.Check(bad == "", "R04.1", key, pos, fmt.Sprintf("%d success path(s), each under !mustSecure or cc.Secure()", succ), bad, "success_paths", succ)
		}

		// R04.1 (outer frames): a function that delegates the handshake to a helper reports success only where the helper did
		for k := len(cs.Frames) - 2; k >= 0; k-- {
			fr := cs.Frames[k]
			callv, _ := fr.Call.(*ssa.Call)
			if callv == nil {
				r.Undecided("R04.1", key+fmt.Sprintf("|frame%d", k), pos, "the handshake helper is not called synchronously")
				continue
			}
			var errv ssa.Value = nil
			if callv.Type() != nil {
				if tup, ok := callv.Type().(*types.Tuple); ok {
					for _, ref := range *callv.Referrers() {
						if ex, ok := ref.(*ssa.Extract); ok && ex.Index == tup.Len()-1 {
							errv = ex
						}
					}
				} else {
					errv = callv // single error result
				}
			}
			badk := ""
			okk := enumPaths(fr.Fn, callv, nil, nil, func(e pathExit) {
				ret, isRet := e.Last.(*ssa.Return)
				if !isRet || len(ret.Results) == 0 {
					return
				}
				rv := e.State.Resolve(ret.Results[len(ret.Results)-1])
				if rv == errv {
					return // the helper's verdict is passed on unchanged
				}
				if !isConstNil(rv) {
					return
				}
				if errv != nil {
					if isNil, known := e.State.NilKnown(errv); known && isNil {
						return
					}
				}
				badk = fmt.Sprintf("%s: %s reports success on a path where the handshake helper's error was not found nil", w.Pos(ret.Pos()), ssaFuncKey(fr.Fn))
			})
			if !okk {
				badk = "path budget exceeded"
			}
			if badk != "" {
				r.Violate("R04.1", key+fmt.Sprintf("|frame%d", k), w.Pos(callv.Pos()), badk)
			}
		}

		// R04.2: store to the embedded Connection field of the receiver derives from cc
		stored := 0
		bad2 := ""
		for _, fr := range cs.Frames {
			ffn := fr.Fn
			allInstrs(ffn, func(in ssa.Instruction) {
				st, ok := in.(*ssa.Store)
				if !ok {
					return
				}
				fa, ok := st.Addr.(*ssa.FieldAddr)
				if !ok || len(ffn.Params) == 0 || fa.X != ffn.Params[0] {
					return
				}
				fv := fieldVarOf(fa)
				if fv == nil || !fv.Embedded() {
					return
				}
				stored++
				from := false
				for _, root := range rootsInter(w, st.Val, 0) {
					if root == cs.CC {
						from = true
					}
				}
				if !from {
					bad2 = fmt.Sprintf("%s: the upstream's connection is not derived from the socketace handshake result (the raw carrier bypasses the negotiated security)", w.Pos(st.Pos()))
				}
			})
		}
		if stored == 0 {
			bad2 = "Connect never stores the negotiated connection into the upstream"
		}
		r.Check(bad2 == "", "R04.2", key, pos, "stored connection derives from NewClientConnection's result", bad2)
	}

	c04Typestate(w, r)
	c04StartTLS(w, r)
	c04Correlation(w, r, sites)
}

// tlsHandshakeOK: the instruction is dominated by the err==nil edge of a
// (*tls.Conn).Handshake call; returns that call and the tls.Client/Server call
// that built the connection.
func tlsSuccessDominating(w *World, fn *ssa.Function, in ssa.Instruction) (hs *ssa.Call, mk *ssa.Call) {
	for _, c := range callsIn(fn) {
		call, ok := c.(*ssa.Call)
		if !ok || !isMethod(sCallee(c), "crypto/tls", "Conn", "Handshake") {
			continue
		}
		// error value of the call
		isErrOf := func(v ssa.Value) bool {
			x, _, ok := nilTest(v)
			if !ok {
				return false
			}
			for _, root := range provenance(x, provOpts{}) {
				if root == ssa.Value(call) {
					return true
				}
			}
			return false
		}
		for _, b := range fn.Blocks {
			if len(b.Instrs) == 0 {
				continue
			}
			ifi, ok := b.Instrs[len(b.Instrs)-1].(*ssa.If)
			if !ok || !isErrOf(ifi.Cond) {
				continue
			}
			_, eqNil, _ := nilTest(ifi.Cond)
			succ := 1
			if eqNil {
				succ = 0
			}
			if edgeDominates(b, succ, in.Block()) {
				// builder of the tls.Conn
				if len(call.Call.Args) > 0 {
					for _, root := range provenance(call.Call.Args[0], provOpts{}) {
						if mkc, ok := root.(*ssa.Call); ok {
							f := sCallee(mkc)
							if isPkgFunc(f, "crypto/tls", "Client") || isPkgFunc(f, "crypto/tls", "Server") {
								return call, mkc
							}
						}
					}
				}
			}
		}
	}
	return nil, nil
}

// helperYieldsTLS: every nil-error return of fn is dominated by a successful
// TLS handshake and returns the tls.Conn (wrapped).
func helperYieldsTLS(w *World, fn *ssa.Function) bool {
	if fn == nil || len(fn.Blocks) == 0 {
		return false
	}
	good, n := true, 0
	for _, b := range fn.Blocks {
		if len(b.Instrs) == 0 {
			continue
		}
		ret, ok := b.Instrs[len(b.Instrs)-1].(*ssa.Return)
		if !ok || len(ret.Results) != 2 {
			continue
		}
		if !isConstNil(ret.Results[1]) {
			// error value may be a phi; only constant-nil returns are treated as success; non-constant must be non-nil error paths
			if _, isConst := ret.Results[1].(*ssa.Const); isConst {
				continue
			}
			// value: conservatively require the same
		}
		if isConstNil(ret.Results[0]) {
			continue
		}
		n++
		_, mk := tlsSuccessDominating(w, fn, ret)
		if mk == nil {
			good = false
			continue
		}
		from := false
		for _, root := range rootsOfNoTLS(w, ret.Results[0]) {
			if root == ssa.Value(mk) {
				from = true
			}
		}
		if !from {
			good = false
		}
	}
	return good && n > 0
}

func c04Typestate(w *World, r *Report) {
	for _, tn := range []string{"ServerConnection", "ClientConnection"} {
		n := w.Named("internal/socketace", tn)
		if n == nil {
			r.Undecided("R04.3", "type:socketace."+tn, "-", "anchor unresolved")
			continue
		}
		// the flag = bool field returned by Secure()
		var flag *types.Var
		if fn := w.SSAFunc(methodOf(n, "Secure")); fn != nil {
			allInstrs(fn, func(in ssa.Instruction) {
				if ret, ok := in.(*ssa.Return); ok && len(ret.Results) == 1 {
					if fa := asFieldAddr(ret.Results[0]); fa != nil {
						flag = fieldVarOf(fa)
					}
				}
			})
		}
		if flag == nil {
			r.Undecided("R04.3", "type:socketace."+tn, w.Pos(n.Obj().Pos()), "Secure() does not return a field: flag unresolved")
			continue
		}
		nst := 0
		for _, fn := range sortedModuleFuncs(w, w.SSA()) {
			allInstrs(fn, func(in ssa.Instruction) {
				st, ok := in.(*ssa.Store)
				if !ok {
					return
				}
				fa, ok := st.Addr.(*ssa.FieldAddr)
				if !ok || fieldVarOf(fa) != flag {
					return
				}
				nst++
				key := fmt.Sprintf("field:socketace.%s.%s|store@%s", tn, flag.Name(), ssaFuncKey(fn))
				pos := w.Pos(st.Pos())
				if _, isParam := st.Val.(*ssa.Parameter); isParam {
					r.Hold("R04.3", key, pos, "initial value comes from the constructor's parameter (correlated with the carrier by R04.5)")
					return
				}
				if b, isC := constBool(st.Val); isC && !b {
					r.Hold("R04.3", key, pos, "stores false")
					return
				}
				// must be dominated by TLS success, direct or via helper
				_, mk := tlsSuccessDominating(w, fn, st)
				var tlsVal ssa.Value
				how := ""
				if mk != nil {
					tlsVal = mk
					how = "direct handshake"
				} else {
					// helper: call to a module function on whose err==nil edge we are
					for _, c := range callsIn(fn) {
						call, ok := c.(*ssa.Call)
						if !ok {
							continue
						}
						sc := call.Call.StaticCallee()
						if sc == nil || !inModule(sc) || !helperYieldsTLS(w, sc) {
							continue
						}
						var res0, errv ssa.Value
						for _, ref := range *call.Referrers() {
							if ex, ok := ref.(*ssa.Extract); ok {
								if ex.Index == 0 {
									res0 = ex
								} else {
									errv = ex
								}
							}
						}
						if errv == nil {
							continue
						}
						isErr := func(v ssa.Value) bool {
							x, _, ok := nilTest(v)
							return ok && x == errv
						}
						if dominatedByCondNil(fn, st, isErr) {
							tlsVal = res0
							how = "helper " + ssaFuncKey(sc)
						}
					}
				}
				if tlsVal == nil {
					r.Violate("R04.3", key, pos, "the session is marked secure on a path that is not dominated by a successful TLS handshake over the connection")
					return
				}
				// every return reachable after the store returns the TLS connection
				bad := ""
				enumPaths(fn, st, nil, nil, func(e pathExit) {
					ret, ok := e.Last.(*ssa.Return)
					if !ok || len(ret.Results) == 0 {
						return
					}
					rv := e.State.Resolve(ret.Results[0])
					from := false
					for _, root := range rootsOfNoTLS(w, rv) {
						if root == tlsVal {
							from = true
						}
					}
					if !from {
						bad = fmt.Sprintf("after marking the session secure, %s returns a connection that is not the TLS connection", w.Pos(ret.Pos()))
					}
				})
				r.Check(bad == "", "R04.3", key, pos, "store of true is dominated by a successful TLS handshake ("+how+") and the TLS connection is what gets returned", bad)
			})
		}
		if nst == 0 {
			r.Undecided("R04.3", "type:socketace."+tn, w.Pos(n.Obj().Pos()), "no store to the secure flag found")
		}
	}
}

// dominatedByCondNil: instruction lies on the "== nil" side of a nil test on a
// value satisfying isErr.
func dominatedByCondNil(fn *ssa.Function, in ssa.Instruction, isErr func(v ssa.Value) bool) bool {
	for _, b := range fn.Blocks {
		if len(b.Instrs) == 0 {
			continue
		}
		ifi, ok := b.Instrs[len(b.Instrs)-1].(*ssa.If)
		if !ok || !isErr(ifi.Cond) {
			continue
		}
		_, eqNil, _ := nilTest(ifi.Cond)
		succ := 1
		if eqNil {
			succ = 0
		}
		if edgeDominates(b, succ, in.Block()) {
			return true
		}
	}
	return false
}

func c04StartTLS(w *World, r *Report) {
	capConst, _ := w.Pkg("internal/socketace").Types.Scope().Lookup("CapabilityStartTls").(*types.Const)
	// server
	sup := w.SSAFunc(w.Method("internal/socketace", "ServerConnection", "upgrade"))
	key := "method:(*socketace.ServerConnection).upgrade|starttls"
	if sup == nil || capConst == nil || len(sup.Params) < 2 {
		r.Undecided("R04.4", key, "-", "anchor unresolved")
	} else {
		capVal := constant.StringVal(capConst.Val())
		mentionsCap := func(v ssa.Value) bool {
			for _, root := range provenance(v, provOpts{Transparent: func(c *ssa.Call) []int {
				f := sCallee(c)
				if isPkgFunc(f, "strings", "ToUpper") || isPkgFunc(f, "strings", "ToLower") {
					return []int{0}
				}
				return nil
			}}) {
				if c, ok := root.(*ssa.Const); ok && c.Value != nil && c.Value.Kind() == constant.String && constant.StringVal(c.Value) == capVal {
					return true
				}
			}
			return false
		}
		isReq := func(v ssa.Value) bool {
			b, ok := v.(*ssa.BinOp)
			return ok && b.Op == token.EQL && (mentionsCap(b.X) || mentionsCap(b.Y))
		}
		connParam := sup.Params[1]
		bad := ""
		npaths := 0
		okp := enumPaths(sup, nil, nil, nil, func(e pathExit) {
			ret, isRet := e.Last.(*ssa.Return)
			if !isRet || len(ret.Results) != 2 {
				return
			}
			requested := false
			for v, t := range e.State.Facts {
				if isReq(v) && t {
					requested = true
				}
			}
			if !requested {
				return
			}
			npaths++
			c0 := e.State.Resolve(ret.Results[0])
			e1 := e.State.Resolve(ret.Results[1])
			if isConstNil(c0) && !isConstNil(e1) {
				return // refused
			}
			// the StartTLS branch may be a helper whose two results are returned as they are
			if x0, ok := c0.(*ssa.Extract); ok {
				if x1, ok := e1.(*ssa.Extract); ok && x0.Tuple == x1.Tuple && x0.Index == 0 && x1.Index == 1 {
					if call, ok := x0.Tuple.(*ssa.Call); ok {
						if h := call.Call.StaticCallee(); h != nil && inModule(h) && len(h.Blocks) > 0 {
							var hconn ssa.Value
							for ai, a := range call.Call.Args {
								if a == ssa.Value(connParam) && ai < len(h.Params) {
									hconn = h.Params[ai]
								}
							}
							if why := c04TlsOrError(w, h, hconn); why != "" {
								bad = why
							}
							return
						}
					}
				}
			}
			if isConstNil(e1) {
				viaTLS := false
				for _, root := range rootsOfNoTLS(w, c0) {
					if mk, ok := root.(*ssa.Call); ok && isPkgFunc(sCallee(mk), "crypto/tls", "Server") {
						viaTLS = true
					}
					if root == ssa.Value(connParam) {
						bad = fmt.Sprintf("%s: StartTLS was requested but the plain connection is returned as an established session", w.Pos(ret.Pos()))
					}
				}
				if !viaTLS && bad == "" {
					bad = fmt.Sprintf("%s: StartTLS was requested but the returned session is not the tls.Server connection", w.Pos(ret.Pos()))
				}
				return
			}
			bad = fmt.Sprintf("%s: on a StartTLS path the function returns both a connection and an error", w.Pos(ret.Pos()))
		})
		if !okp {
			r.Undecided("R04.4", key, w.Pos(sup.Pos()), "path budget exceeded")
		} else if npaths == 0 {
			r.Violate("R04.4", key, w.Pos(sup.Pos()), "no path tests the client's Security: StartTLS request")
		} else {
			r.Check(bad == "", "R04.4", key, w.Pos(sup.Pos()), fmt.Sprintf("%d return path(s) with StartTLS requested: TLS connection or (nil, error)", npaths), bad, "paths", npaths)
		}
	}
	// server advertises only when not secure: store true to supportTls dominated by !secure
	hs := w.SSAFunc(w.Method("internal/socketace", "ServerConnection", "handshake"))
	sc := w.Named("internal/socketace", "ServerConnection")
	key = "method:(*socketace.ServerConnection).handshake|advertise"
	if hs == nil || sc == nil {
		r.Undecided("R04.4", key, "-", "anchor unresolved")
	} else {
		var flag *types.Var
		if fn := w.SSAFunc(methodOf(sc, "Secure")); fn != nil {
			allInstrs(fn, func(in ssa.Instruction) {
				if ret, ok := in.(*ssa.Return); ok && len(ret.Results) == 1 {
					if fa := asFieldAddr(ret.Results[0]); fa != nil {
						flag = fieldVarOf(fa)
					}
				}
			})
		}
		capVal := constant.StringVal(capConst.Val())
		n, bad := 0, ""
		for _, g := range staticCone(hs, 2) {
			// only the server connection's own methods / helpers
			allInstrs(g, func(in ssa.Instruction) {
				// appending the capability string: a store of the constant into a slice backing array, or a Const operand of append
				mentions := false
				for _, op := range in.Operands(nil) {
					if c, ok := (*op).(*ssa.Const); ok && c.Value != nil && c.Value.Kind() == constant.String && constant.StringVal(c.Value) == capVal {
						mentions = true
					}
				}
				if !mentions {
					return
				}
				n++
				isFlag := func(v ssa.Value) bool { return isLoadOfField(v, flag) }
				if dominatedByCond(g, in, isFlag, false) {
					return
				}
				// or every call site of the helper inside the handshake is itself under !secure
				if g != hs {
					okAll, nc := true, 0
					for _, c := range callsIn(hs) {
						if c.Common().StaticCallee() == g {
							nc++
							if !dominatedByCond(hs, c, isFlag, false) {
								okAll = false
							}
						}
					}
					if nc > 0 && okAll {
						return
					}
				}
				bad = fmt.Sprintf("%s: StartTLS is advertised on a path where the carrier may already be secure", w.Pos(in.Pos()))
			})
		}
		if n == 0 {
			r.Violate("R04.4", key, w.Pos(hs.Pos()), "the server never advertises StartTLS")
		} else {
			r.Check(bad == "", "R04.4", key, w.Pos(hs.Pos()), "StartTLS capability is added only under !secure", bad)
		}
	}
	// client
	cup := w.SSAFunc(w.Method("internal/socketace", "ClientConnection", "upgrade"))
	key = "method:(*socketace.ClientConnection).upgrade|starttls"
	if cup == nil || len(cup.Params) < 3 {
		r.Undecided("R04.4", key, "-", "anchor unresolved")
		return
	}
	should := cup.Params[2]
	connParam := cup.Params[1]
	bad := ""
	npaths := 0
	okp := enumPaths(cup, nil, nil, nil, func(e pathExit) {
		ret, isRet := e.Last.(*ssa.Return)
		if !isRet || len(ret.Results) != 2 {
			return
		}
		t, known := e.State.Truth(should)
		if !known || !t {
			return
		}
		npaths++
		c0 := e.State.Resolve(ret.Results[0])
		e1 := e.State.Resolve(ret.Results[1])
		if isConstNil(c0) {
			return
		}
		for _, root := range rootsOfNoTLS(w, c0) {
			if root == ssa.Value(connParam) {
				bad = fmt.Sprintf("%s: shouldStartTls is true but the plain connection is returned", w.Pos(ret.Pos()))
			}
		}
		_ = e1
	})
	if !okp {
		r.Undecided("R04.4", key, w.Pos(cup.Pos()), "path budget exceeded")
		return
	}
	r.Check(bad == "" && npaths > 0, "R04.4", key, w.Pos(cup.Pos()), fmt.Sprintf("%d return path(s) with shouldStartTls: never the plain connection", npaths), bad+mapStr(npaths == 0, "no path with shouldStartTls known true"), "paths", npaths)
}

func mapStr(c bool, s string) string {
	if c {
		return s
	}
	return ""
}

// rootsOfNoTLS: like rootsOf but tls.Client/tls.Server are roots (not
// transparent) so that "derives from the plain connection" is decidable.
func rootsOfNoTLS(w *World, v ssa.Value) []ssa.Value {
	tr := transparentWrappers(w)
	return provenance(v, provOpts{Transparent: func(c *ssa.Call) []int {
		f := sCallee(c)
		if isPkgFunc(f, "crypto/tls", "Client") || isPkgFunc(f, "crypto/tls", "Server") {
			return nil
		}
		if f != nil && f.Pkg() != nil && f.Pkg().Path() == modPath+"/internal/socketace" {
			return nil
		}
		return tr(c)
	}})
}

// ---------------------------------------------------------------- R04.5

func isTLSCarrierCall(c *ssa.Call) string {
	f := sCallee(c)
	switch {
	case isPkgFunc(f, "crypto/tls", "Dial"), isPkgFunc(f, "crypto/tls", "DialWithDialer"):
		return "tls.Dial"
	case isPkgFunc(f, "crypto/tls", "Client"):
		return "tls.Client"
	case isPkgFunc(f, "crypto/tls", "Server"):
		return "tls.Server"
	case isPkgFunc(f, "crypto/tls", "Listen"), isPkgFunc(f, "crypto/tls", "NewListener"):
		return "tls.Listen"
	}
	return ""
}

// schemeGuardHolds: on this path a test "scheme has +tls" or scheme == https/wss is known true.
func schemeGuardHolds(st *pathState, hasTls types.Object) bool {
	for v, tv := range st.Facts {
		if !tv {
			continue
		}
		if isHasTlsMatch(v, hasTls) {
			return true
		}
		if b, ok := v.(*ssa.BinOp); ok && b.Op == token.EQL {
			for _, op := range []ssa.Value{b.X, b.Y} {
				if c, ok := op.(*ssa.Const); ok && c.Value != nil && c.Value.Kind() == constant.String {
					s := constant.StringVal(c.Value)
					if s == "https" || s == "wss" {
						return true
					}
				}
			}
		}
	}
	return false
}

func isHasTlsMatch(v ssa.Value, hasTls types.Object) bool {
	if c, ok := v.(*ssa.Call); ok && isMethod(sCallee(c), "regexp", "Regexp", "MatchString") && len(c.Call.Args) > 0 {
		if u, ok := c.Call.Args[0].(*ssa.UnOp); ok {
			if g, ok := u.X.(*ssa.Global); ok && g.Object() == hasTls {
				return true
			}
		}
	}
	return false
}

// helperTrueOnlyUnderSchemeTest: every return of the helper whose idx-th result can be true lies on a
// path where a +tls / https / wss scheme test holds (or the result IS such a test).
func helperTrueOnlyUnderSchemeTest(fn *ssa.Function, idx int, hasTls types.Object) bool {
	if len(fn.Blocks) == 0 {
		return false
	}
	okAll, nret := true, 0
	done := enumPaths(fn, nil, nil, nil, func(e pathExit) {
		ret, isRet := e.Last.(*ssa.Return)
		if !isRet || idx >= len(ret.Results) {
			return
		}
		nret++
		v := e.State.Resolve(ret.Results[idx])
		if b, isC := constBool(v); isC && !b {
			return
		}
		if t, known := e.State.Truth(v); known && !t {
			return
		}
		if isHasTlsMatch(v, hasTls) {
			return
		}
		if !schemeGuardHolds(e.State, hasTls) {
			okAll = false
		}
	})
	return done && okAll && nret > 0
}

func c04CorrelationClient(w *World, r *Report, rule string, sites []connectSite) {
	hasTls := w.Pkg("internal/util/addr").Types.Scope().Lookup("HasTls")
	// --- client side: secure argument of NewClientConnection
	for _, cs := range sites {
		key := "type:" + qualName(cs.Type) + "|secure-arg"
		pos := w.Pos(cs.Call.Pos())
		args := cs.Call.Call.Args
		if len(args) < 3 {
			r.Undecided(rule, key, pos, "unexpected NewClientConnection arity")
			continue
		}
		secArg, fsec := cs.lift(args[2])
		connArg, fconn := cs.lift(args[0])
		// evaluate both in the same (outer) frame: the one where the secure flag is decided
		frame := cs.Frames[fsec]
		if fconn != fsec {
			// the carrier is decided in another frame than the flag: fall back to the innermost common view
			secArg, connArg, frame = args[2], args[0], cs.Frames[len(cs.Frames)-1]
		}
		if b, isC := constBool(secArg); isC && !b {
			r.Hold(rule, key, pos, "secure argument is the constant false (StartTLS may still upgrade)")
			continue
		}
		bad := ""
		ntrue := 0
		schemeGuarded := true
		stopAt, _ := frame.Call.(ssa.Instruction)
		okp := enumPaths(frame.Fn, nil, nil, func(in ssa.Instruction) bool { return in == stopAt }, func(e pathExit) {
			if e.Stop == nil {
				return
			}
			t, known := e.State.Truth(secArg)
			if known && !t {
				return
			}
			ntrue++
			// TLS evidence: the carrier derives from a TLS primitive
			viaTLS := ""
			for _, root := range rootsOfNoTLS(w, e.State.Resolve(connArg)) {
				root = e.State.Resolve(root)
				if c, ok := root.(*ssa.Call); ok {
					if k := isTLSCarrierCall(c); k != "" {
						viaTLS = k
					}
				}
				if ex, ok := root.(*ssa.Extract); ok {
					if c, ok := ex.Tuple.(*ssa.Call); ok {
						if k := isTLSCarrierCall(c); k != "" {
							viaTLS = k
						}
					}
				}
			}
			if viaTLS != "" {
				return
			}
			// websocket idiom: secure is true only under scheme tests
			guard := schemeGuardHolds(e.State, hasTls)
			// ... or it is the result of a pure helper that returns true only under such a test
			if ex, ok := e.State.Resolve(secArg).(*ssa.Extract); ok && !guard {
				if call, ok := ex.Tuple.(*ssa.Call); ok {
					if callee := call.Call.StaticCallee(); callee != nil && inModule(callee) && helperTrueOnlyUnderSchemeTest(callee, ex.Index, hasTls) {
						guard = true
					}
				}
			}
			if call, ok := e.State.Resolve(secArg).(*ssa.Call); ok && !guard {
				if callee := call.Call.StaticCallee(); callee != nil && inModule(callee) && helperTrueOnlyUnderSchemeTest(callee, 0, hasTls) {
					guard = true
				}
			}
			// ... or read from a constant scheme table in which every entry that says 'secure' is keyed by a TLS scheme
			if entries, field, _ := tableFieldLookup(w, e.State.Resolve(secArg)); entries != nil && !guard {
				allTls := true
				for _, en := range entries {
					if sec, ok := en.Fields[field]; ok && sec.Kind() == constant.Bool && constant.BoolVal(sec) {
						if en.Key != "https" && en.Key != "wss" && !strings.HasSuffix(en.Key, "+tls") {
							allTls = false
						}
					}
				}
				guard = allTls
			}
			if !guard {
				schemeGuarded = false
				bad = "secure=true reaches NewClientConnection on a path where the carrier does not come from a TLS primitive (tls.Dial / tls.Client) and no +tls/https/wss scheme test holds: StartTLS is then skipped on a plaintext carrier"
			}
		})
		if !okp {
			r.Undecided(rule, key, pos, "path budget exceeded")
			continue
		}
		r.Check(bad == "", rule, key, pos, fmt.Sprintf("%d path(s) can pass secure=true; each has a TLS-built carrier or a TLS scheme test", ntrue), bad, "secure_true_paths", ntrue, "scheme_guarded", schemeGuarded)
	}

}

func c04Correlation(w *World, r *Report, sites []connectSite) {
	c04CorrelationClient(w, r, "R04.5", sites)
	// --- server side: secure argument of AcceptConnection
	acc := w.Func("internal/server", "AcceptConnection")
	if acc == nil {
		r.Undecided("R04.5", "anchor", "-", "anchor unresolved: server.AcceptConnection")
		return
	}
	for _, fn := range sortedModuleFuncs(w, w.SSA()) {
		for _, c := range callsIn(fn) {
			if sCallee(c) != acc {
				continue
			}
			args := c.Common().Args
			key := "call:server.AcceptConnection@" + ssaFuncKey(fn) + "|secure-arg"
			pos := w.Pos(c.Pos())
			if len(args) < 4 {
				r.Undecided("R04.5", key, pos, "unexpected arity")
				continue
			}
			sec := args[2]
			if b, isC := constBool(sec); isC && !b {
				r.Hold("R04.5", key, pos, "secure argument is the constant false")
				continue
			}
			if b, isC := constBool(sec); isC && b {
				r.Violate("R04.5", key, pos, "secure argument is the constant true: nothing ties it to a TLS carrier (StartTLS would never be offered)")
				continue
			}
			// field flag of the server object?
			if fa := asFieldAddr(sec); fa != nil {
				c04ServerFlag(w, r, key, pos, fieldVarOf(fa))
				continue
			}
			// captured local (IoServer): free variable
			c04CapturedFlag(w, r, key, pos, fn, c, sec)
		}
	}
}

// c04ServerFlag: the server's secure flag is a struct field. Everywhere a
// plain serving primitive is used (net.Listen result stored as the listener,
// (*http.Server).Serve) the flag must be false on that path; wherever the flag
// is true a TLS primitive must be in effect (tls.Listen / ServeTLS / TLSConfig
// store) — decided by path facts on the field's loads.
func c04ServerFlag(w *World, r *Report, key, pos string, flag *types.Var) {
	plain, tlsUse := 0, 0
	bad := ""
	isFlag := func(v ssa.Value) bool { return isLoadOfField(v, flag) }
	for _, fn := range sortedModuleFuncs(w, w.SSA()) {
		for _, c := range callsIn(fn) {
			call, ok := c.(*ssa.Call)
			if !ok {
				continue
			}
			f := sCallee(c)
			var kind string
			switch {
			case isPkgFunc(f, "net", "Listen"):
				// only when its result is stored into a struct that has the flag (same receiver type family)
				kind = "plain"
				if !resultStoredBeside(call, flag) {
					kind = ""
				}
			case isMethod(f, "net/http", "Server", "Serve"):
				kind = "plain"
				if !fnTouchesFlag(fn, flag) {
					kind = ""
				}
			case isPkgFunc(f, "crypto/tls", "Listen"):
				kind = "tls"
				if !resultStoredBeside(call, flag) {
					kind = ""
				}
			case isMethod(f, "net/http", "Server", "ServeTLS"):
				kind = "tls"
				if !fnTouchesFlag(fn, flag) {
					kind = ""
				}
			}
			switch kind {
			case "plain":
				plain++
				if !dominatedByCond(fn, call, isFlag, false) && !closureRunsOnlyUnder(fn, isFlag, false) {
					bad = fmt.Sprintf("%s: plaintext serving primitive is used on a path where the server's secure flag is not known false", w.Pos(call.Pos()))
				}
			case "tls":
				tlsUse++
				if !dominatedByCond(fn, call, isFlag, true) && !closureRunsOnlyUnder(fn, isFlag, true) {
					bad = fmt.Sprintf("%s: TLS serving primitive is not under the secure flag", w.Pos(call.Pos()))
				}
			}
		}
		// TLSConfig stores on library server objects (dns2.Server / http.Server) in functions that test the flag
		allInstrs(fn, func(in ssa.Instruction) {
			st, ok := in.(*ssa.Store)
			if !ok {
				return
			}
			fa, ok := st.Addr.(*ssa.FieldAddr)
			if !ok {
				return
			}
			fv := fieldVarOf(fa)
			if fv == nil || fv.Name() != "TLSConfig" || !fnTouchesFlag(fn, flag) {
				return
			}
			tlsUse++
			if !dominatedByCond(fn, st, isFlag, true) {
				bad = fmt.Sprintf("%s: TLSConfig is installed outside the secure-flag branch", w.Pos(st.Pos()))
			}
		})
	}
	// who writes the flag: only Startup methods
	var writers []string
	for _, fn := range sortedModuleFuncs(w, w.SSA()) {
		allInstrs(fn, func(in ssa.Instruction) {
			if st, ok := in.(*ssa.Store); ok {
				if fa, ok := st.Addr.(*ssa.FieldAddr); ok && fieldVarOf(fa) == flag {
					name := ssaFuncKey(fn)
					if !onlyCalledFromNamed(w, fn, "Startup", 0) {
						bad = fmt.Sprintf("%s: the secure flag is written outside Startup and its helpers (%s)", w.Pos(st.Pos()), name)
					}
					writers = append(writers, name)
				}
			}
		})
	}
	if tlsUse == 0 {
		bad = "the flag can be true but no TLS serving primitive (tls.Listen / ServeTLS / TLSConfig) is tied to it"
	}
	r.Check(bad == "", "R04.5", key, pos, fmt.Sprintf("flag field %s: %d plaintext primitive(s) all under flag==false, %d TLS primitive(s)/TLSConfig store(s) all under flag==true; written only by Startup", flag.Name(), plain, tlsUse), bad,
		"plain_primitives", plain, "tls_primitives", tlsUse)
}

func fnTouchesFlag(fn *ssa.Function, flag *types.Var) bool {
	found := false
	withAnon(fn, func(f *ssa.Function) {
		allInstrs(f, func(in ssa.Instruction) {
			if fa, ok := in.(*ssa.FieldAddr); ok && fieldVarOf(fa) == flag {
				found = true
			}
		})
	})
	if !found && fn.Parent() != nil {
		return fnTouchesFlag(fn.Parent(), flag)
	}
	return found
}

// resultStoredBeside: the call's (first) result is stored into a field of a
// struct that (transitively, by embedding) contains the flag field.
func resultStoredBeside(call *ssa.Call, flag *types.Var) bool {
	fn := call.Parent()
	if !fnTouchesFlag(fn, flag) {
		return false
	}
	stored := false
	var follow func(v ssa.Value, d int)
	follow = func(v ssa.Value, d int) {
		if d > 4 || v.Referrers() == nil {
			return
		}
		for _, ref := range *v.Referrers() {
			switch x := ref.(type) {
			case *ssa.Extract:
				if x.Index == 0 {
					follow(x, d+1)
				}
			case *ssa.Phi:
				follow(x, d+1)
			case *ssa.Store:
				if _, ok := x.Addr.(*ssa.FieldAddr); ok && x.Val == v {
					stored = true
				}
			}
		}
	}
	follow(call, 0)
	return stored
}

// c04CapturedFlag: IoServer idiom — the flag is a local captured by the
// goroutine closure, set to true in the same branch that obtains the TLS
// config; inside the closure the TLS handshake is performed whenever the
// config is non-nil.
func c04CapturedFlag(w *World, r *Report, key, pos string, fn *ssa.Function, c ssa.CallInstruction, sec ssa.Value) {
	// sec must be a load of a free variable
	u, ok := sec.(*ssa.UnOp)
	var fv *ssa.FreeVar
	if ok {
		fv, _ = u.X.(*ssa.FreeVar)
	}
	bad := ""
	ntrue := 0
	if prm, isParam := sec.(*ssa.Parameter); isParam && fv == nil {
		// the flag is handed in by the caller(s): it may be true only on caller paths that obtained a TLS configuration
		pidx := -1
		for i, q := range fn.Params {
			if q == prm {
				pidx = i
			}
		}
		ncall := 0
		for _, caller := range sortedModuleFuncs(w, w.SSA()) {
			for _, c2 := range callsIn(caller) {
				if c2.Common().StaticCallee() != fn || pidx < 0 || pidx >= len(c2.Common().Args) {
					continue
				}
				ncall++
				arg := c2.Common().Args[pidx]
				stop, _ := c2.(ssa.Instruction)
				enumPaths(caller, nil, func(in ssa.Instruction) bool {
					cc, ok := in.(ssa.CallInstruction)
					return ok && sCallee(cc) != nil && sCallee(cc).Name() == "GetTlsConfig"
				}, func(in ssa.Instruction) bool { return in == stop }, func(e pathExit) {
					if e.Stop == nil {
						return
					}
					if t, known := e.State.Truth(arg); known && !t {
						return
					}
					if b, isC := constBool(e.State.Resolve(arg)); isC && !b {
						return
					}
					ntrue++
					if len(e.State.Events) == 0 {
						bad = fmt.Sprintf("%s: the secure flag handed to %s can be true on a path that did not obtain a TLS configuration", w.Pos(c2.Pos()), ssaFuncKey(fn))
					}
				})
			}
		}
		if ncall == 0 {
			r.Undecided("R04.5", key, pos, "secure argument is a parameter of a function that has no static caller")
			return
		}
		c04CapturedFlagInner(w, r, key, pos, fn, c, bad, ntrue)
		return
	}
	if fv == nil || fn.Parent() == nil {
		r.Undecided("R04.5", key, pos, "secure argument is neither a constant, a field of the server, a parameter nor a captured local: idiom not recognised")
		return
	}
	parent := fn.Parent()
	// binding in parent
	var binding ssa.Value
	allInstrs(parent, func(in ssa.Instruction) {
		if mc, ok := in.(*ssa.MakeClosure); ok && mc.Fn == fn {
			for i, f := range fn.FreeVars {
				if f == fv && i < len(mc.Bindings) {
					binding = mc.Bindings[i]
				}
			}
		}
	})
	if binding == nil {
		r.Undecided("R04.5", key, pos, "closure binding of the captured flag not found")
		return
	}
	for _, st := range storesTo(binding) {
		if b, isC := constBool(st.Val); isC && b {
			ntrue++
			// same block (or dominated region) must obtain a TLS config from GetTlsConfig
			found := false
			for _, c2 := range callsIn(parent) {
				f := sCallee(c2)
				if f != nil && f.Name() == "GetTlsConfig" && (c2.Block() == st.Block() || st.Block().Dominates(c2.Block())) {
					found = true
				}
			}
			if !found {
				bad = fmt.Sprintf("%s: the captured secure flag is set to true in a branch that does not obtain a TLS configuration", w.Pos(st.Pos()))
			}
		} else if !isC {
			bad = fmt.Sprintf("%s: the captured secure flag is assigned a non-constant", w.Pos(st.Pos()))
		}
	}
	c04CapturedFlagInner(w, r, key, pos, fn, c, bad, ntrue)
}

// c04CapturedFlagInner: in the function that calls AcceptConnection, on every path to the call where a TLS
// config non-nil test is true, the connection derives from tls.Server after a successful handshake.
func c04CapturedFlagInner(w *World, r *Report, key, pos string, fn *ssa.Function, c ssa.CallInstruction, bad string, ntrue int) {
	connArg := c.Common().Args[0]
	tlsPaths := 0
	enumPaths(fn, nil, nil, func(in ssa.Instruction) bool { return in == c.(ssa.Instruction) }, func(e pathExit) {
		if e.Stop == nil {
			return
		}
		hasCfg := false
		for v, t := range e.State.Facts {
			if x, eq, ok := nilTest(v); ok && t != eq {
				if pt, ok := x.Type().(*types.Pointer); ok {
					if n, ok := pt.Elem().(*types.Named); ok && n.Obj().Name() == "Config" && n.Obj().Pkg().Path() == "crypto/tls" {
						hasCfg = true
					}
				}
			}
		}
		if !hasCfg {
			return
		}
		tlsPaths++
		via := false
		for _, root := range rootsOfNoTLS(w, e.State.Resolve(connArg)) {
			if cc, ok := e.State.Resolve(root).(*ssa.Call); ok && isTLSCarrierCall(cc) == "tls.Server" {
				via = true
			}
		}
		if !via {
			bad = "with a TLS configuration present the connection handed to AcceptConnection is not the tls.Server connection"
		}
	})
	if ntrue == 0 {
		bad = "captured secure flag is never set"
	}
	if tlsPaths == 0 && bad == "" {
		bad = "the closure never wraps the stream in TLS although the flag can be true"
	}
	r.Check(bad == "", "R04.5", key, pos, fmt.Sprintf("captured flag: %d store(s) of true, each beside GetTlsConfig; %d closure path(s) with a TLS config, each handing the tls.Server connection on", ntrue, tlsPaths), bad)
}

// c04TlsOrError: every return of h is (nil, error) or (a connection built on tls.Server, nil); the plain
// connection handed in is never returned as an established session.
func c04TlsOrError(w *World, h *ssa.Function, plain ssa.Value) string {
	bad := ""
	n := 0
	okp := enumPaths(h, nil, nil, nil, func(e pathExit) {
		ret, isRet := e.Last.(*ssa.Return)
		if !isRet || len(ret.Results) != 2 {
			return
		}
		n++
		c0 := e.State.Resolve(ret.Results[0])
		e1 := e.State.Resolve(ret.Results[1])
		if isConstNil(c0) && !isConstNil(e1) {
			return
		}
		if isConstNil(e1) {
			viaTLS := false
			for _, root := range rootsOfNoTLS(w, c0) {
				if mk, ok := root.(*ssa.Call); ok && isPkgFunc(sCallee(mk), "crypto/tls", "Server") {
					viaTLS = true
				}
				if plain != nil && root == plain {
					bad = fmt.Sprintf("%s: StartTLS was requested but the plain connection is returned as an established session", w.Pos(ret.Pos()))
				}
			}
			if !viaTLS && bad == "" {
				bad = fmt.Sprintf("%s: StartTLS was requested but the returned session is not the tls.Server connection", w.Pos(ret.Pos()))
			}
			return
		}
		bad = fmt.Sprintf("%s: on a StartTLS path the function returns both a connection and an error", w.Pos(ret.Pos()))
	})
	if !okp {
		return "path budget exceeded in " + ssaFuncKey(h)
	}
	if n == 0 {
		return ssaFuncKey(h) + " has no (connection, error) return"
	}
	return bad
}

// c04MustSecurePlumbing: R04.7 — --secure is stored into Upstreams.MustSecure as it is (a plain load of the
// option field, not a combination with other options) and Upstreams hands exactly that field to Connect.
func c04MustSecurePlumbing(w *World, r *Report) {
	ups := w.Named("internal/client/upstream", "Upstreams")
	must := fieldOf(ups, "MustSecure")
	if must == nil {
		r.Undecided("R04.7", "field:client/upstream.Upstreams.MustSecure", "-", "anchor unresolved")
		return
	}
	isOptionLoad := func(v ssa.Value) (string, bool) {
		u, ok := v.(*ssa.UnOp)
		if !ok {
			return "", false
		}
		fa, ok := u.X.(*ssa.FieldAddr)
		if !ok {
			return "", false
		}
		pt, ok := fa.X.Type().Underlying().(*types.Pointer)
		if !ok {
			return "", false
		}
		st, ok := pt.Elem().Underlying().(*types.Struct)
		if !ok {
			return "", false
		}
		tag := st.Tag(fa.Field)
		return st.Field(fa.Field).Name(), strings.Contains(tag, `long:"secure"`)
	}
	nst := 0
	bad := ""
	for _, fn := range sortedModuleFuncs(w, w.SSA()) {
		allInstrs(fn, func(in ssa.Instruction) {
			st, ok := in.(*ssa.Store)
			if !ok {
				return
			}
			fa := asFieldAddr(st.Addr)
			if fa == nil || fieldVarOf(fa) != must {
				return
			}
			nst++
			if name, ok := isOptionLoad(st.Val); !ok {
				what := "an expression"
				if name != "" {
					what = "option " + name
				}
				if _, isB := st.Val.(*ssa.BinOp); isB {
					what = "a combination of options"
				}
				if _, isP := st.Val.(*ssa.Phi); isP {
					what = "a combination of options"
				}
				bad = fmt.Sprintf("%s: MustSecure is set from %s, not from the user's --secure option as it is: another option can switch the requirement off, and the per-carrier checks (mustSecure && !Secure()) are then never armed", w.Pos(st.Pos()), what)
			}
		})
	}
	r.Check(bad == "" && nst > 0, "R04.7", "field:client/upstream.Upstreams.MustSecure|stores", w.Pos(must.Pos()), fmt.Sprintf("%d store(s), each the plain value of the --secure option", nst), bad+mapStr(nst == 0, "MustSecure is never set from the command line option"))
	// handed on unchanged
	ui := w.Interface("internal/client/upstream", "Upstream")
	ncall := 0
	bad2 := ""
	for _, fn := range sortedModuleFuncs(w, w.SSA()) {
		if recvNamed(fnObj(fn)) != ups {
			continue
		}
		for _, c := range callsIn(fn) {
			if !c.Common().IsInvoke() || c.Common().Method.Name() != "Connect" || ui == nil {
				continue
			}
			args := c.Common().Args
			if len(args) < 2 {
				continue
			}
			ncall++
			if !isLoadOfField(args[len(args)-1], must) {
				bad2 = fmt.Sprintf("%s: Upstream.Connect is not given Upstreams.MustSecure as it is", w.Pos(c.Pos()))
			}
		}
	}
	r.Check(bad2 == "" && ncall > 0, "R04.7", "field:client/upstream.Upstreams.MustSecure|handed-on", w.Pos(must.Pos()), fmt.Sprintf("%d Connect call(s) receive the field unchanged", ncall), bad2+mapStr(ncall == 0, "no Upstream.Connect call found in Upstreams"))
}

// closureRunsOnlyUnder: g is a function literal that is selected as a function value (`serve := plain; if secure
// { serve = tls }; serve()`): on every path of the enclosing function that reaches a call which runs THIS literal,
// a value accepted by isFlag has been tested with the outcome `want`. False when the literal is not called through
// such a selection in its parent (then plain dominance decides).
func closureRunsOnlyUnder(g *ssa.Function, isFlag func(ssa.Value) bool, want bool) bool {
	p := g.Parent()
	if p == nil {
		return false
	}
	var mcs []*ssa.MakeClosure
	allInstrs(p, func(in ssa.Instruction) {
		if mc, ok := in.(*ssa.MakeClosure); ok && mc.Fn == ssa.Value(g) {
			mcs = append(mcs, mc)
		}
	})
	if len(mcs) != 1 {
		return false
	}
	mc := mcs[0]
	// the literal must not escape in any other way than into phis and calls
	var sites []ssa.CallInstruction
	seen := map[ssa.Value]bool{}
	escapes := false
	var follow func(v ssa.Value)
	follow = func(v ssa.Value) {
		if seen[v] || v.Referrers() == nil {
			return
		}
		seen[v] = true
		for _, ref := range *v.Referrers() {
			switch x := ref.(type) {
			case *ssa.Phi:
				follow(x)
			case ssa.CallInstruction:
				if x.Common().Value == v && !x.Common().IsInvoke() {
					sites = append(sites, x)
				} else {
					escapes = true
				}
			case *ssa.DebugRef:
			default:
				escapes = true
			}
		}
	}
	follow(mc)
	if escapes || len(sites) == 0 {
		return false
	}
	ok := true
	for _, site := range sites {
		si := site.(ssa.Instruction)
		okp := enumPaths(p, nil, nil, func(in ssa.Instruction) bool { return in == si }, func(e pathExit) {
			if e.Stop != si {
				return
			}
			if e.State.Resolve(site.Common().Value) != ssa.Value(mc) {
				return // another literal runs on this path
			}
			found := false
			for v, t := range e.State.Facts {
				if isFlag(v) && t == want {
					found = true
				}
			}
			if !found {
				ok = false
			}
		})
		if !okp {
			return false
		}
	}
	return ok
}
