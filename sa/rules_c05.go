package main

// C05 — Peer authentication is enforced as configured.

import (
	"fmt"
	"go/ast"
	"go/constant"
	"go/token"
	"go/types"
	"sort"
	"strings"

	"golang.org/x/tools/go/ssa"
)

func init() { register("C05", checkC05) }

func tlsConfigField(w *World, name string) *types.Var {
	p := w.ByPath["crypto/tls"]
	if p == nil {
		return nil
	}
	tn, _ := p.Types.Scope().Lookup("Config").(*types.TypeName)
	if tn == nil {
		return nil
	}
	return fieldOf(tn.Type().(*types.Named), name)
}

func checkC05(w *World, r *Report) {
	r.Explanation = "Decides the configuration-to-TLS dataflow that peer authentication rests on: (R05.1) certificate verification can be disabled only by ClientConfig.GetTlsConfig under the user's insecure option and by the documented stdio+tls exception; no verification callback overrides exist; (R05.2) whenever the server's TLS configuration is returned successfully with requireClientCert set, ClientAuth=RequireAndVerifyClientCert has been stored, and the configuration is never dereferenced on the error path; (R05.3) a configured CA is installed as both RootCAs and ClientCAs; (R05.4) the StartTLS ServerName is the upstream's host name without port at every call site; (R05.5) every tls.Client/Dial/Server/Listen and every TLSConfig/TLSClientConfig field takes its configuration from the certificate manager; (R05.8) the server handshake returns a connection that is not the result of its TLS handshake only on paths where the client-certificate requirement (a flag derived from tls.Config.ClientAuth) is known absent or the carrier is already secure — a client cannot dodge requireClientCert by not asking for StartTLS; (R05.9) every tls.Dial whose address argument is a resolved address (net.Addr.String()) is preceded on every path by a store of the upstream URL's Hostname() into the configuration's ServerName — otherwise crypto/tls checks the certificate against the IP address; (R05.10) no value of the base type cert.Config is ever used as a cert.TlsConfig manager outside package cert — only ServerConfig applies requireClientCert and only ClientConfig applies the insecure option, and the embedded base satisfies the interface too; (R05.6) both ends of a password-protected UDP endpoint derive the key with identical constants, constructor and salt scheme and pass the derived cipher on. Not decided: crypto/x509 chain validation, expiry, kcp's cipher."
	r.NotDecided = []string{"certificate chain validation (crypto/x509)", "expiry", "kcp cipher behaviour", "pbkdf2 key length 64 is not an AES key size: password-protected UDP fails closed on both ends (observed, outside the property)"}
	r.Trusted = []string{"crypto/tls verifies the peer unless InsecureSkipVerify / ClientAuth say otherwise", "(*url.URL).Hostname() strips the port"}
	r.Rule("R05.1", "who may disable certificate verification (exactly the two allowed writers)", 2)
	r.Rule("R05.2", "RequireClientCert => ClientAuth=RequireAndVerifyClientCert on every success path; no dereference on the error path", 1)
	r.Rule("R05.3", "configured CA pool stored to RootCAs and ClientCAs", 1)
	r.Rule("R05.4", "StartTLS ServerName is the port-less host at every call site", 6)
	r.Rule("R05.5", "every TLS primitive takes its config from the manager", 6)
	r.Rule("R05.6", "shared-secret key derivation agrees on both ends", 1)
	r.Rule("R05.8", "a server whose TLS configuration demands client certificates admits no clear-text session", 1)
	r.Rule("R05.14", "a websocket is dialled without the manager's TLS configuration only where the URL is known not to be a wss one (gorilla falls back to an empty tls.Config)", 1)
	c05WebsocketTlsDialHasManagerConfig(w, r)
	r.Rule("R05.13", "no TLS session resumption on the client (a resumed session is not verified against the CA configured now)", 1)
	ruleNoClientSessionResumption(w, r, "R05.13")
	r.Rule("R05.12", "the already-encrypted shortcut of the server handshake (no StartTLS, client certificates taken as enforced) is taken only on the listener's own TLS flag, never on peer-supplied data", 5)
	ruleSecureFlagIsTheListenersOwn(w, r, "R05.12")
	r.Rule("R05.11", "the client-certificate requirement flag is set on every path that asked the manager for its configuration, failure included", 1)
	r.Rule("R05.10", "the role-less base certificate Config never acts as a certificate manager", 1)
	r.Rule("R05.9", "a TLS dial to a resolved address verifies the certificate against the configured host name", 1)
	r.Rule("R05.7", "GetTlsConfig hands out a fresh configuration (callers mutate it)", 3)

	c05WhoDisables(w, r)
	c05ClientAuth(w, r)
	c05CaPools(w, r)
	c05ServerName(w, r)
	c05ConfigProvenance(w, r)
	c05SharedSecret(w, r)
	c05FreshConfig(w, r, "R05.7")
	c05NoPlainAdmission(w, r, "R05.8", "R05.11")
	c05DialServerName(w, r)
	c05RoleConfig(w, r)
}

func c05WhoDisables(w *World, r *Report) {
	isv := tlsConfigField(w, "InsecureSkipVerify")
	if isv == nil {
		r.Undecided("R05.1", "anchor", "-", "anchor unresolved: tls.Config.InsecureSkipVerify")
		return
	}
	userFlag := fieldOf(w.Named("internal/util/cert", "ClientConfig"), "InsecureSkipVerify")
	allowedA := w.Method("internal/util/cert", "ClientConfig", "GetTlsConfig")
	allowedB := w.Method("internal/client/upstream", "InputOutput", "Connect")
	n := 0
	for _, fn := range sortedModuleFuncs(w, w.SSA()) {
		allInstrs(fn, func(in ssa.Instruction) {
			st, ok := in.(*ssa.Store)
			if !ok {
				return
			}
			fa, ok := st.Addr.(*ssa.FieldAddr)
			if !ok {
				return
			}
			fv := fieldVarOf(fa)
			if fv == nil {
				return
			}
			if fv.Name() == "VerifyPeerCertificate" || fv.Name() == "VerifyConnection" {
				if fv.Pkg() != nil && fv.Pkg().Path() == "crypto/tls" {
					r.Violate("R05.1", "store:tls.Config."+fv.Name()+"@"+ssaFuncKey(fn), w.Pos(st.Pos()), "a verification callback override is installed: peer authentication no longer follows the configured CA / host name")
				}
				return
			}
			if fv != isv {
				return
			}
			n++
			key := "store:tls.Config.InsecureSkipVerify@" + ssaFuncKey(fn)
			pos := w.Pos(st.Pos())
			if b, isC := constBool(st.Val); isC && !b {
				r.Hold("R05.1", key, pos, "stores false")
				return
			}
			obj, _ := fn.Object().(*types.Func)
			switch obj {
			case allowedA:
				okc := userFlag != nil && dominatedByCond(fn, st, func(v ssa.Value) bool { return isLoadOfField(v, userFlag) }, true)
				r.Check(okc, "R05.1", key, pos, "verification disabled only under the user's insecure option", "verification is disabled without being guarded by the user's insecure option")
			case allowedB:
				hasTls := w.Pkg("internal/util/addr").Types.Scope().Lookup("HasTls")
				okc := dominatedByCond(fn, st, func(v ssa.Value) bool {
					c, ok := v.(*ssa.Call)
					if !ok || !isMethod(sCallee(c), "regexp", "Regexp", "MatchString") || len(c.Call.Args) == 0 {
						return false
					}
					u, ok := c.Call.Args[0].(*ssa.UnOp)
					if !ok {
						return false
					}
					g, ok := u.X.(*ssa.Global)
					return ok && g.Object() == hasTls
				}, true)
				r.Check(okc, "R05.1", key, pos, "documented exception: stdio+tls has no host name to verify (only in the +tls branch)", "stdio exception is no longer confined to the +tls branch")
			default:
				// a helper of the stdio upstream's Connect, called only from its +tls branch
				hasTls := w.Pkg("internal/util/addr").Types.Scope().Lookup("HasTls")
				isTlsCond := func(v ssa.Value) bool {
					c, ok := v.(*ssa.Call)
					if !ok || !isMethod(sCallee(c), "regexp", "Regexp", "MatchString") || len(c.Call.Args) == 0 {
						return false
					}
					u, ok := c.Call.Args[0].(*ssa.UnOp)
					if !ok {
						return false
					}
					g, ok := u.X.(*ssa.Global)
					return ok && g.Object() == hasTls
				}
				ncall, all := 0, true
				for _, caller := range sortedModuleFuncs(w, w.SSA()) {
					for _, c2 := range callsIn(caller) {
						if c2.Common().StaticCallee() != fn {
							continue
						}
						ncall++
						ci, _ := c2.(ssa.Instruction)
						if fnObj(caller) != allowedB || ci == nil || !dominatedByCond(caller, ci, isTlsCond, true) {
							all = false
						}
					}
				}
				if ncall > 0 && all {
					r.Hold("R05.1", key, pos, "documented exception: stdio+tls has no host name to verify (helper called only from the +tls branch of the stdio upstream's Connect)")
					return
				}
				r.Violate("R05.1", key, pos, "certificate verification is disabled by a function that is not allowed to (only ClientConfig.GetTlsConfig under the insecure option, and the stdio+tls exception)")
			}
		})
	}
	// composite literal keys
	w.AllFuncDecls(func(p *packagesPkg, fd *ast.FuncDecl) {
		for _, st := range findFieldStores(p.TypesInfo, fd, isv) {
			if st.InLit == nil {
				continue
			}
			n++
			obj, _ := p.TypesInfo.Defs[fd.Name].(*types.Func)
			v := constVal(p.TypesInfo, st.RHS)
			if v != nil && v.Kind() == constant.Bool && !constant.BoolVal(v) {
				continue
			}
			r.Violate("R05.1", "literal:tls.Config.InsecureSkipVerify@"+funcKey(obj), w.Pos(st.Pos), "a tls.Config literal sets InsecureSkipVerify")
		}
	})
	_ = n
}

func c05ClientAuth(w *World, r *Report) {
	m := w.Method("internal/util/cert", "ServerConfig", "GetTlsConfig")
	fn := w.SSAFunc(m)
	key := "method:(*util/cert.ServerConfig).GetTlsConfig"
	if fn == nil {
		r.Undecided("R05.2", key, "-", "anchor unresolved")
		return
	}
	pos := w.Pos(m.Pos())
	reqFlag := fieldOf(w.Named("internal/util/cert", "ServerConfig"), "RequireClientCert")
	clientAuth := tlsConfigField(w, "ClientAuth")
	want := int64(-1)
	if c, ok := w.ByPath["crypto/tls"].Types.Scope().Lookup("RequireAndVerifyClientCert").(*types.Const); ok {
		want, _ = constant.Int64Val(c.Val())
	}
	if reqFlag == nil || clientAuth == nil || want < 0 {
		r.Undecided("R05.2", key, pos, "anchor unresolved: RequireClientCert / tls.Config.ClientAuth")
		return
	}
	isEv := func(in ssa.Instruction) bool {
		switch x := in.(type) {
		case *ssa.Store:
			if fa, ok := x.Addr.(*ssa.FieldAddr); ok && fieldVarOf(fa) == clientAuth {
				return true
			}
		case *ssa.FieldAddr:
			// dereference of the *tls.Config
			if pt, ok := x.X.Type().(*types.Pointer); ok {
				if n, ok := pt.Elem().(*types.Named); ok && n.Obj().Name() == "Config" && n.Obj().Pkg().Path() == "crypto/tls" {
					return true
				}
			}
		}
		return false
	}
	// "the requirement is known to be off": a false test of the flag itself, or of a predicate whose false
	// answer implies it (`ClientCertRequired()`)
	flagKnownFalse := func(facts map[ssa.Value]bool) bool {
		for v, t := range facts {
			if t {
				continue
			}
			if isLoadOfField(v, reqFlag) {
				return true
			}
			if c, ok := v.(*ssa.Call); ok {
				if g := c.Call.StaticCallee(); g != nil && inModule(g) && predicateHelperImplies(g, false, func(f2 map[ssa.Value]bool) bool {
					for v2, t2 := range f2 {
						if !t2 && isLoadOfField(v2, reqFlag) {
							return true
						}
					}
					return false
				}) {
					return true
				}
			}
		}
		return false
	}
	// a policy helper: `conf.ClientAuth = m.clientAuthPolicy()` — every return of the helper hands out the
	// requirement unless the flag is known to be off on that path
	policyOK := func(v ssa.Value) bool {
		c, ok := v.(*ssa.Call)
		if !ok {
			return false
		}
		g := c.Call.StaticCallee()
		if g == nil || !inModule(g) || len(g.Blocks) == 0 {
			return false
		}
		all, n := true, 0
		okp := enumPaths(g, nil, nil, nil, func(e pathExit) {
			ret, isRet := e.Last.(*ssa.Return)
			if !isRet || len(ret.Results) != 1 {
				return
			}
			n++
			if k, isC := constIntVal(e.State.Resolve(ret.Results[0])); isC && k == want {
				return
			}
			if !flagKnownFalse(e.State.Facts) {
				all = false
			}
		})
		return okp && all && n > 0
	}
	bad := ""
	succ := 0
	ok := enumPaths(fn, nil, isEv, nil, func(e pathExit) {
		ret, isRet := e.Last.(*ssa.Return)
		if !isRet || len(ret.Results) != 2 {
			return
		}
		errv := e.State.Resolve(ret.Results[1])
		errNil, errKnown := e.State.NilKnown(errv)
		derefs, stores := 0, 0
		lastOther := ""
		for _, ev := range e.State.Events {
			if st, isSt := ev.(*ssa.Store); isSt {
				// the LAST store decides what the configuration says
				if v, okv := constIntVal(st.Val); (okv && v == want) || policyOK(st.Val) {
					stores++
					lastOther = ""
				} else {
					stores = 0
					lastOther = w.Pos(st.Pos())
				}
			} else {
				derefs++
			}
		}
		if errKnown && !errNil {
			if derefs > 0 {
				bad = "the TLS configuration is dereferenced on the path where obtaining it failed (nil pointer; and the requirement is applied on the wrong branch)"
			}
			return
		}
		// success (or unknown) path
		succ++
		req, reqKnown := false, false
		for v, t := range e.State.Facts {
			if isLoadOfField(v, reqFlag) {
				req, reqKnown = req || t, true // any test that found the flag set counts (independent of map order)
			}
		}
		if reqKnown && !req {
			return
		}
		if !reqKnown && flagKnownFalse(e.State.Facts) {
			return
		}
		if stores == 0 && lastOther != "" {
			bad = lastOther + ": on a success path with requireClientCert set, ClientAuth is finally set to something else than RequireAndVerifyClientCert (RequireAnyClientCert admits any self-signed or foreign certificate): clients whose certificate was not issued by the configured CA are admitted"
		} else if stores == 0 {
			bad = "a success path returns the server TLS configuration without ClientAuth=RequireAndVerifyClientCert although requireClientCert may be set: clients without a certificate are admitted"
		}
	})
	if !ok {
		r.Undecided("R05.2", key, pos, "path budget exceeded")
		return
	}
	r.Check(bad == "" && succ > 0, "R05.2", key, pos, fmt.Sprintf("%d success path(s): requirement stored whenever requireClientCert is not known false; no dereference on the failure path", succ), bad)
}

func c05CaPools(w *World, r *Report) {
	m := w.Method("internal/util/cert", "Config", "addCaCertificates")
	fn := w.SSAFunc(m)
	key := "method:(*util/cert.Config).addCaCertificates"
	if fn == nil {
		r.Undecided("R05.3", key, "-", "anchor unresolved")
		return
	}
	root, client := tlsConfigField(w, "RootCAs"), tlsConfigField(w, "ClientCAs")
	var getCa *ssa.Call
	for _, c := range callsIn(fn) {
		if f := sCallee(c); f != nil && f.Name() == "GetCaCertificates" {
			getCa, _ = c.(*ssa.Call)
		}
	}
	if getCa == nil {
		r.Undecided("R05.3", key, w.Pos(m.Pos()), "call to GetCaCertificates not found")
		return
	}
	isEv := func(in ssa.Instruction) bool {
		if st, ok := in.(*ssa.Store); ok {
			if fa, ok := st.Addr.(*ssa.FieldAddr); ok {
				fv := fieldVarOf(fa)
				return fv == root || fv == client
			}
		}
		return false
	}
	bad := ""
	n := 0
	enumPaths(fn, getCa, isEv, nil, func(e pathExit) {
		ret, isRet := e.Last.(*ssa.Return)
		if !isRet || bad != "" {
			return
		}
		if !isConstNil(e.State.Resolve(ret.Results[0])) {
			return
		}
		// CA configured on this path? a nil test on the CA bytes being "!= nil"
		configured := false
		for v, t := range e.State.Facts {
			if x, eq, ok := nilTest(v); ok && t != eq {
				if ex, ok := x.(*ssa.Extract); ok && ex.Tuple == ssa.Value(getCa) && ex.Index == 0 {
					configured = true
				}
			}
		}
		if !configured {
			return
		}
		n++
		var sawRoot, sawClient bool
		for _, ev := range e.State.Events {
			st := ev.(*ssa.Store)
			fv := fieldVarOf(st.Addr.(*ssa.FieldAddr))
			fromPool := false
			for _, rt := range provInter(e.State.Resolve(st.Val), 0) {
				if c, ok := rt.(*ssa.Call); ok && isPkgFunc(sCallee(c), "crypto/x509", "NewCertPool") {
					fromPool = true
				}
			}
			// the pool must be nothing but the configured CA: every origin of the stored value is an empty
			// pool created here (not the platform pool, a global or a cached pool)
			for _, rt := range provInter(st.Val, 0) {
				if c, ok := rt.(*ssa.Call); ok && isPkgFunc(sCallee(c), "crypto/x509", "NewCertPool") {
					continue
				}
				bad = fmt.Sprintf("%s: the pool stored into %s can be something other than a fresh empty pool (%s): peers are then verified against more roots than the configured CA", w.Pos(st.Pos()), fv.Name(), rt.String())
			}
			if fromPool && fv == root {
				sawRoot = true
			}
			if fromPool && fv == client {
				sawClient = true
			}
		}
		if bad != "" {
			return
		}
		if !sawRoot {
			bad = "with a CA configured RootCAs is not set: the client would verify servers against the system pool instead of the configured CA"
		}
		if !sawClient {
			bad = "with a CA configured ClientCAs is not set: client certificates cannot be verified against the configured CA"
		}
	})
	// only the configured CA is added to a pool in this function
	cone := staticCone(fn, 2)
	for _, g := range cone {
		for _, c := range callsIn(g) {
			f := sCallee(c)
			if f == nil || f.Pkg() == nil || f.Pkg().Path() != "crypto/x509" || recvNamed(f) == nil || recvNamed(f).Obj().Name() != "CertPool" {
				continue
			}
			switch f.Name() {
			case "AppendCertsFromPEM", "AddCert", "AddCertWithConstraint":
				okArg := false
				for _, rt := range provWithCallers(c.Common().Args[1], cone, 0) {
					if ex, ok := rt.(*ssa.Extract); ok && ex.Tuple == ssa.Value(getCa) && ex.Index == 0 {
						okArg = true
					} else {
						okArg = false
						break
					}
				}
				if !okArg {
					bad = fmt.Sprintf("%s: certificates other than the configured CA are added to the verification pool", w.Pos(c.Pos()))
				}
			}
		}
	}
	r.Check(bad == "" && n > 0, "R05.3", key, w.Pos(m.Pos()), fmt.Sprintf("%d success path(s) with a CA configured store the pool into RootCAs and ClientCAs", n), bad+mapStr(n == 0, "no success path with a configured CA found"))
}

func c05ServerName(w *World, r *Report) {
	sn := tlsConfigField(w, "ServerName")
	cc := w.Named("internal/socketace", "ClientConnection")
	ncc := w.Func("internal/socketace", "NewClientConnection")
	if sn == nil || cc == nil || ncc == nil {
		r.Undecided("R05.4", "anchor", "-", "anchor unresolved")
		return
	}
	// (a) the ServerName store in package socketace
	var hostField *types.Var
	nstores := 0
	for _, fn := range sortedModuleFuncs(w, w.SSA()) {
		allInstrs(fn, func(in ssa.Instruction) {
			st, ok := in.(*ssa.Store)
			if !ok {
				return
			}
			fa, ok := st.Addr.(*ssa.FieldAddr)
			if !ok || fieldVarOf(fa) != sn {
				return
			}
			nstores++
			key := "store:tls.Config.ServerName@" + ssaFuncKey(fn)
			if fa2 := asFieldAddr(st.Val); fa2 != nil {
				if fv := fieldVarOf(fa2); fv != nil && recvIs(fa2, cc) {
					hostField = fv
					r.Hold("R05.4", key, w.Pos(st.Pos()), "ServerName is the connection's host field "+fv.Name())
					return
				}
			}
			// a carrier that dials TLS itself takes the name straight from the upstream URL (port-less)
			for _, root := range provInter(st.Val, 0) {
				if call, ok := root.(*ssa.Call); ok && isMethod(sCallee(call), "net/url", "URL", "Hostname") {
					r.Hold("R05.4", key, w.Pos(st.Pos()), "ServerName is (*url.URL).Hostname() of the configured address — no port")
					return
				}
			}
			// ... or receives it through a parameter of a configuration builder: then every caller passes Hostname()
			if valueIsHostname(w, st.Val) {
				r.Hold("R05.4", key, w.Pos(st.Pos()), "ServerName is a parameter that every caller fills with (*url.URL).Hostname() of the configured address")
				return
			}
			r.Violate("R05.4", key, w.Pos(st.Pos()), "the expected server name is not taken from the client connection's configured host")
		})
	}
	if hostField == nil {
		r.Violate("R05.4", "store:tls.Config.ServerName", "-", "StartTLS never sets the expected server name from the configured host: any certificate chaining to the CA would be accepted for any host (or none verified)")
		return
	}
	// (b) host field written only from NewClientConnection's host parameter
	var hostParam int = -1
	w.AllFuncDecls(func(p *packagesPkg, fd *ast.FuncDecl) {
		obj, _ := p.TypesInfo.Defs[fd.Name].(*types.Func)
		for _, st := range findFieldStores(p.TypesInfo, fd, hostField) {
			key := "field:socketace.ClientConnection." + hostField.Name() + "|store@" + funcKey(obj)
			if obj != ncc {
				r.Violate("R05.4", key, w.Pos(st.Pos), "the expected host is overwritten outside NewClientConnection")
				continue
			}
			id, _ := unparen(st.RHS).(*ast.Ident)
			okp := false
			if id != nil {
				sig := ncc.Type().(*types.Signature)
				for i := 0; i < sig.Params().Len(); i++ {
					if sig.Params().At(i) == p.TypesInfo.Uses[id] {
						hostParam = i
						okp = true
					}
				}
			}
			r.Check(okp, "R05.4", key, w.Pos(st.Pos), "host field initialised from the host parameter", "host field is not initialised from NewClientConnection's host parameter")
		}
	})
	if hostParam < 0 {
		return
	}
	// (c) call sites
	w.AllFuncDecls(func(p *packagesPkg, fd *ast.FuncDecl) {
		obj, _ := p.TypesInfo.Defs[fd.Name].(*types.Func)
		inspectCalls(p.TypesInfo, fd, func(call *ast.CallExpr, callee *types.Func) {
			if callee != ncc || hostParam >= len(call.Args) {
				return
			}
			arg := unparen(call.Args[hostParam])
			key := "call:socketace.NewClientConnection@" + funcKey(obj) + "|host"
			pos := w.Pos(call.Pos())
			if s, ok := constStr(p.TypesInfo, arg); ok && s == "" {
				r.Hold("R05.4", key, pos, "no host name (standard streams): constant \"\"")
				return
			}
			if c, ok := arg.(*ast.CallExpr); ok {
				if f := calleeOf(p.TypesInfo, c); isMethod(f, "net/url", "URL", "Hostname") {
					r.Hold("R05.4", key, pos, "host argument is (*url.URL).Hostname() — no port")
					return
				}
			}
			if fv := fieldOfSel(p.TypesInfo, arg); fv != nil && fv.Name() == "Host" && fv.Pkg() != nil && fv.Pkg().Path() == "net/url" {
				r.Violate("R05.4", key, pos, "host argument is url.URL.Host, which carries host:port: with verification on, a certificate for the host never matches 'host:port' (StartTLS always fails); should be Hostname()")
				return
			}
			r.Undecided("R05.4", key, pos, "host argument is neither \"\", Hostname() nor URL.Host: "+exprStr(arg))
		})
	})
}

func recvIs(fa *ssa.FieldAddr, n *types.Named) bool {
	t := fa.X.Type()
	if p, ok := t.(*types.Pointer); ok {
		t = p.Elem()
	}
	return types.Identical(t, n)
}

func c05ConfigProvenance(w *World, r *Report) {
	helperDepth := 0
	var fromManager func(v ssa.Value) (bool, string)
	fromManager = func(v ssa.Value) (bool, string) {
		for _, root := range provenance(v, provOpts{}) {
			switch x := root.(type) {
			case *ssa.UnOp:
				// load of a captured variable: look at what the enclosing function stores into it
				if fv, ok := x.X.(*ssa.FreeVar); ok && x.Op == token.MUL {
					vals := freeVarStores(fv)
					if len(vals) == 0 {
						return false, "captured variable never assigned"
					}
					for _, sv := range vals {
						if okm, why := fromManager(sv); !okm {
							return false, why
						}
					}
					continue
				}
				// load of a struct field that keeps the configuration between two steps (prepare, then use): every
				// store into that field anywhere in the module must itself be a manager configuration
				if fa, ok := x.X.(*ssa.FieldAddr); ok && x.Op == token.MUL && helperDepth < 3 {
					if fld := fieldVarOf(fa); fld != nil {
						helperDepth++
						nst, okAll, why := 0, true, ""
						for _, g := range sortedModuleFuncs(w, w.SSA()) {
							allInstrs(g, func(in ssa.Instruction) {
								st, isSt := in.(*ssa.Store)
								if !isSt {
									return
								}
								fa2, isFa := st.Addr.(*ssa.FieldAddr)
								if !isFa || fieldVarOf(fa2) != fld || isConstNil(st.Val) {
									return
								}
								nst++
								if okm, w2 := fromManager(st.Val); !okm {
									if w2 == "literal tls.Config" {
										mgr := fieldOf(w.Named("internal/socketace", "ClientConnection"), "manager")
										lit := true
										for _, r2 := range provenance(st.Val, provOpts{}) {
											if al, isAl := r2.(*ssa.Alloc); isAl && !dominatedByNilField(g, al, mgr) {
												lit = false
											}
										}
										if lit {
											return
										}
									}
									okAll, why = false, "field "+fld.Name()+" is also assigned a value that is "+w2
								}
							})
						}
						helperDepth--
						if nst > 0 && okAll {
							continue
						}
						if nst == 0 {
							return false, "field " + fld.Name() + " is never assigned"
						}
						return false, why
					}
				}
				return false, "load of " + x.X.String()
			case *ssa.Extract:
				if c, ok := x.Tuple.(ssa.CallInstruction); ok {
					if f := sCallee(c); f != nil && f.Name() == "GetTlsConfig" {
						continue
					}
					// a module helper that hands the manager's configuration on: every non-nil config it returns
					// must itself come from the manager (or be the no-manager fallback literal)
					if sc := c.Common().StaticCallee(); sc != nil && inModule(sc) && len(sc.Blocks) > 0 && x.Index == 0 && helperDepth < 2 {
						helperDepth++
						okAll, why := true, ""
						allInstrs(sc, func(in ssa.Instruction) {
							ret, isRet := in.(*ssa.Return)
							if !isRet || len(ret.Results) == 0 || isConstNil(ret.Results[0]) {
								return
							}
							if okm, w2 := fromManager(ret.Results[0]); !okm {
								if w2 == "literal tls.Config" {
									mgr := fieldOf(w.Named("internal/socketace", "ClientConnection"), "manager")
									lit := true
									for _, r2 := range provenance(ret.Results[0], provOpts{}) {
										if al, isAl := r2.(*ssa.Alloc); isAl && !dominatedByNilField(sc, al, mgr) {
											lit = false
										}
									}
									if lit {
										return
									}
								}
								okAll, why = false, w2
							}
						})
						helperDepth--
						if okAll {
							continue
						}
						return false, why
					}
				}
				return false, "value is not a GetTlsConfig() result"
			case *ssa.Parameter:
				// handed in by the callers: every static call site must pass a manager configuration
				pfn := x.Parent()
				pidx := -1
				for i, q := range pfn.Params {
					if q == x {
						pidx = i
					}
				}
				ncall := 0
				if helperDepth < 3 {
					helperDepth++
					for _, caller := range sortedModuleFuncs(w, w.SSA()) {
						for _, c2 := range callsIn(caller) {
							if c2.Common().StaticCallee() == pfn && pidx >= 0 && pidx < len(c2.Common().Args) {
								ncall++
								if okm, why := fromManager(c2.Common().Args[pidx]); !okm {
									helperDepth--
									return false, why
								}
							}
						}
					}
					helperDepth--
				}
				if ncall == 0 {
					return false, "parameter of a function without static callers"
				}
				continue
			case *ssa.Const:
				if x.IsNil() {
					continue // unset: only with plaintext
				}
				return false, "constant"
			case *ssa.Alloc:
				return false, "literal tls.Config"
			default:
				return false, fmt.Sprintf("%T", root)
			}
		}
		return true, ""
	}
	for _, fn := range sortedModuleFuncs(w, w.SSA()) {
		if fn.Pkg != nil && fn.Pkg.Pkg.Path() == modPath+"/internal/util/cert" {
			continue
		}
		for _, c := range callsIn(fn) {
			f := sCallee(c)
			idx := -1
			switch {
			case isPkgFunc(f, "crypto/tls", "Client"), isPkgFunc(f, "crypto/tls", "Server"):
				idx = 1
			case isPkgFunc(f, "crypto/tls", "Dial"), isPkgFunc(f, "crypto/tls", "Listen"):
				idx = 2
			}
			if idx < 0 {
				continue
			}
			key := fmt.Sprintf("call:tls.%s@%s", f.Name(), ssaFuncKey(fn))
			okm, why := fromManager(c.Common().Args[idx])
			if !okm && why == "literal tls.Config" {
				// allowed only on the manager == nil edge
				mgr := fieldOf(w.Named("internal/socketace", "ClientConnection"), "manager")
				okAll := true
				for _, root := range provenance(c.Common().Args[idx], provOpts{}) {
					if al, isAl := root.(*ssa.Alloc); isAl {
						if !dominatedByNilField(fn, al, mgr) {
							okAll = false
						}
					}
				}
				if okAll {
					r.Hold("R05.5", key, w.Pos(c.Pos()), "config comes from the manager, or is the empty fallback used only when no manager is configured (then ServerName + system roots apply)")
					continue
				}
			}
			r.Check(okm, "R05.5", key, w.Pos(c.Pos()), "TLS configuration comes from the certificate manager's GetTlsConfig()", "TLS configuration does not come from the certificate manager: "+why)
		}
		allInstrs(fn, func(in ssa.Instruction) {
			st, ok := in.(*ssa.Store)
			if !ok {
				return
			}
			fa, ok := st.Addr.(*ssa.FieldAddr)
			if !ok {
				return
			}
			fv := fieldVarOf(fa)
			if fv == nil || (fv.Name() != "TLSConfig" && fv.Name() != "TLSClientConfig") {
				return
			}
			key := fmt.Sprintf("store:%s@%s", fv.Name(), ssaFuncKey(fn))
			okm, why := fromManager(st.Val)
			r.Check(okm, "R05.5", key, w.Pos(st.Pos()), "TLS configuration comes from the certificate manager's GetTlsConfig()", "TLS configuration does not come from the certificate manager: "+why)
		})
	}
}

// dominatedByNilField: instruction is on the "field == nil" side of a nil test
// of a load of fld.
func dominatedByNilField(fn *ssa.Function, in ssa.Instruction, fld *types.Var) bool {
	return dominatedByCondNil(fn, in, func(v ssa.Value) bool {
		x, _, ok := nilTest(v)
		return ok && isLoadOfField(x, fld)
	})
}

// ---------------------------------------------------------------- R05.6

type kdfFacts struct {
	Iter, KeyLen int64
	Hash         string
	Ctor         string
	SaltScheme   string
	BlockPassed  bool
	Shards       string
	Pos          string
}

func kdfIn(w *World, entry *ssa.Function) (*kdfFacts, string) {
	var k *kdfFacts
	for _, fn := range staticCone(entry, 2) {
		for _, c := range callsIn(fn) {
			f := sCallee(c)
			if !isPkgFunc(f, "golang.org/x/crypto/pbkdf2", "Key") {
				continue
			}
			// the calls that reach the deriving function from the entry's cone (the entry itself when it derives in place)
			var sites []*ssa.Call
			if fn != entry {
				for _, g := range staticCone(entry, 2) {
					for _, c2 := range callsIn(g) {
						if cv, ok := c2.(*ssa.Call); ok && cv.Call.StaticCallee() == fn {
							sites = append(sites, cv)
						}
					}
				}
			}
			args := c.Common().Args
			k = &kdfFacts{Pos: w.Pos(c.Pos())}
			constArg := func(v ssa.Value) int64 {
				if x, ok := constIntVal(v); ok {
					return x
				}
				// a parameter of the deriving helper: the constant every call site passes
				if i := paramIndex(fn, v); i >= 0 && len(sites) > 0 {
					first, same := int64(-1), true
					for n, cs := range sites {
						x, ok := constIntVal(cs.Call.Args[i])
						if !ok || (n > 0 && x != first) {
							same = false
						}
						first = x
					}
					if same {
						return first
					}
				}
				return -1
			}
			k.Iter = constArg(args[2])
			k.KeyLen = constArg(args[3])
			if hf, ok := args[4].(*ssa.Function); ok {
				k.Hash = hf.String()
			} else {
				k.Hash = args[4].String()
			}
			// salt scheme: salt derives from (hash.Hash).Sum on a hash fed with the password
			var parts []string
			seenPart := map[ssa.Value]bool{}
			var saltRoots []ssa.Value
			for _, root := range provInter(args[1], 0) {
				if i := paramIndex(fn, root); i >= 0 && len(sites) > 0 {
					for _, cs := range sites {
						saltRoots = append(saltRoots, provInter(cs.Call.Args[i], 0)...)
					}
					continue
				}
				saltRoots = append(saltRoots, root)
			}
			for i := 0; i < len(saltRoots); i++ {
				if sl, ok := saltRoots[i].(*ssa.Slice); ok {
					saltRoots = append(saltRoots, provenance(sl.X, provOpts{})...)
				}
			}
			for _, root := range saltRoots {
				if seenPart[root] {
					continue
				}
				seenPart[root] = true
				if cc, ok := root.(*ssa.Call); ok {
					if sf := sCallee(cc); sf != nil {
						parts = append(parts, sf.Name())
						if cc.Call.IsInvoke() {
							for _, hr := range provenance(cc.Call.Value, provOpts{}) {
								if hc, ok := hr.(*ssa.Call); ok && sCallee(hc) != nil {
									parts = append(parts, sCallee(hc).FullName())
								}
							}
						}
					}
				} else if cst, ok := root.(*ssa.Const); ok {
					if cst.Value == nil {
						continue // the zero value of the salt variable before a password is seen
					}
					parts = append(parts, "const:"+cst.String())
				} else if al, ok := root.(*ssa.Alloc); ok && al.Referrers() != nil {
					// `digest := sha256.Sum256(pass); salt = digest[:]` — the one-shot form of New/Write/Sum(nil)
					for _, ref := range *al.Referrers() {
						if st, ok := ref.(*ssa.Store); ok && st.Addr == ssa.Value(al) {
							if sc, ok := st.Val.(*ssa.Call); ok && sCallee(sc) != nil {
								parts = append(parts, sCallee(sc).FullName())
							}
						}
					}
				}
			}
			sort.Strings(parts)
			k.SaltScheme = canonicalDigestScheme(strings.Join(parts, ","))
			// constructor applied to the key
			key := c.(*ssa.Call)
			passedIn := func(g *ssa.Function, blk ssa.Value, except ssa.CallInstruction) bool {
				for _, c3 := range callsIn(g) {
					if c3 == except {
						continue
					}
					for _, a3 := range c3.Common().Args {
						for _, rt := range provenance(a3, provOpts{}) {
							if rt == blk {
								return true
							}
						}
					}
				}
				return false
			}
			for _, c2 := range callsIn(fn) {
				for _, a := range c2.Common().Args {
					if a != ssa.Value(key) {
						continue
					}
					f2 := sCallee(c2)
					if f2 == nil {
						continue
					}
					k.Ctor = f2.FullName()
					// is the constructed block passed on (to a func-typed parameter call or kcp function)?
					cv, ok := c2.(*ssa.Call)
					if !ok {
						continue
					}
					var blk ssa.Value
					for _, ref := range *cv.Referrers() {
						if ex, ok := ref.(*ssa.Extract); ok && ex.Index == 0 {
							blk = ex
						}
					}
					if blk == nil {
						continue
					}
					if passedIn(fn, blk, c2) {
						k.BlockPassed = true
					}
					// returned by the deriving helper and passed on by its caller
					for _, b := range fn.Blocks {
						ret, ok := b.Instrs[len(b.Instrs)-1].(*ssa.Return)
						if !ok {
							continue
						}
						for ri, res := range ret.Results {
							returned := false
							for _, rt := range provenance(res, provOpts{}) {
								if rt == blk {
									returned = true
								}
							}
							if !returned {
								continue
							}
							for _, cs := range sites {
								var got ssa.Value = cs
								if len(ret.Results) > 1 {
									got = nil
									for _, ref := range *cs.Referrers() {
										if ex, ok := ref.(*ssa.Extract); ok && ex.Index == ri {
											got = ex
										}
									}
								}
								if got != nil && passedIn(cs.Parent(), got, cs) {
									k.BlockPassed = true
								}
							}
						}
					}
				}
			}
		}
	}
	if k == nil {
		return nil, "no pbkdf2.Key call"
	}
	return k, ""
}

func c05SharedSecret(w *World, r *Report) {
	cfn := w.SSAFunc(w.Method("internal/client/upstream", "Packet", "ConnectPacket"))
	sfn := w.SSAFunc(w.Method("internal/server", "PacketServer", "StartupPacket"))
	key := "pair:Packet.ConnectPacket~PacketServer.StartupPacket"
	if cfn == nil || sfn == nil {
		r.Undecided("R05.6", key, "-", "anchor unresolved")
		return
	}
	ck, e1 := kdfIn(w, cfn)
	sk, e2 := kdfIn(w, sfn)
	if ck == nil || sk == nil {
		r.Violate("R05.6", key, "-", "key derivation missing on one side: client "+e1+" / server "+e2)
		return
	}
	// shard constants of the default KCP constructors
	shards := func(rel, name, callee string) string {
		fn := w.SSAFunc(w.Func(rel, name))
		if fn == nil {
			return "?"
		}
		for _, c := range callsIn(fn) {
			if f := sCallee(c); f != nil && f.Pkg() != nil && strings.HasSuffix(f.Pkg().Path(), "kcp-go/v5") && f.Name() == callee {
				var ints []string
				for _, a := range c.Common().Args {
					if v, ok := constIntVal(a); ok {
						if _, isInt := a.Type().Underlying().(*types.Basic); isInt {
							ints = append(ints, fmt.Sprint(v))
						}
					}
				}
				return strings.Join(ints, "/")
			}
		}
		return "?"
	}
	ck.Shards = shards("internal/client/upstream", "DefaultCreateConnection", "NewConn2")
	sk.Shards = shards("internal/server", "DefaultListenerFromPacketConn", "ServeConn")
	var diffs []string
	if ck.Iter != sk.Iter {
		diffs = append(diffs, fmt.Sprintf("iterations %d vs %d", ck.Iter, sk.Iter))
	}
	if ck.KeyLen != sk.KeyLen {
		diffs = append(diffs, fmt.Sprintf("key length %d vs %d", ck.KeyLen, sk.KeyLen))
	}
	if ck.Hash != sk.Hash {
		diffs = append(diffs, "hash "+ck.Hash+" vs "+sk.Hash)
	}
	if ck.Ctor != sk.Ctor || ck.Ctor == "" {
		diffs = append(diffs, "cipher constructor "+ck.Ctor+" vs "+sk.Ctor)
	}
	if ck.SaltScheme != sk.SaltScheme {
		diffs = append(diffs, "salt derivation "+ck.SaltScheme+" vs "+sk.SaltScheme)
	}
	if !ck.BlockPassed || !sk.BlockPassed {
		diffs = append(diffs, "derived cipher is not passed to the KCP constructor on one side")
	}
	if ck.Shards != sk.Shards || ck.Shards == "?" {
		diffs = append(diffs, "FEC shard constants "+ck.Shards+" vs "+sk.Shards)
	}
	r.Check(len(diffs) == 0, "R05.6", key, ck.Pos+" ~ "+sk.Pos,
		fmt.Sprintf("both ends: pbkdf2(iter=%d,len=%d,%s), salt=%s, %s, shards %s, cipher passed on", ck.Iter, ck.KeyLen, ck.Hash, ck.SaltScheme, ck.Ctor, ck.Shards),
		"the two ends of a password-protected UDP endpoint disagree: "+strings.Join(diffs, "; "),
		"client", ck, "server", sk)
}

var _ = token.NoPos

// c05FreshConfig: R05.7 — callers of GetTlsConfig set per-connection fields on
// the result (ServerName for StartTLS, InsecureSkipVerify for stdio+tls), so
// every GetTlsConfig must hand out a fresh object: the returned config derives
// only from an allocation made in the same call (or from another GetTlsConfig
// call) and that allocation is not also stored into longer-lived state.
func c05FreshConfig(w *World, r *Report, rule string) {
	ti := w.Interface("internal/util/cert", "TlsConfig")
	if ti == nil {
		r.Undecided(rule, "anchor", "-", "anchor unresolved: cert.TlsConfig")
		return
	}
	// is the result mutated by callers at all? (then freshness is required)
	mutated := 0
	for _, fn := range sortedModuleFuncs(w, w.SSA()) {
		if fn.Pkg != nil && fn.Pkg.Pkg.Path() == modPath+"/internal/util/cert" {
			continue
		}
		allInstrs(fn, func(in ssa.Instruction) {
			st, ok := in.(*ssa.Store)
			if !ok {
				return
			}
			fa, ok := st.Addr.(*ssa.FieldAddr)
			if !ok {
				return
			}
			if pt, ok := fa.X.Type().(*types.Pointer); ok {
				if n, ok := pt.Elem().(*types.Named); ok && n.Obj().Pkg() != nil && n.Obj().Pkg().Path() == "crypto/tls" && n.Obj().Name() == "Config" {
					for _, root := range provenance(fa.X, provOpts{}) {
						if ex, ok := root.(*ssa.Extract); ok {
							if c, ok := ex.Tuple.(ssa.CallInstruction); ok && sCallee(c) != nil && sCallee(c).Name() == "GetTlsConfig" {
								mutated++
							}
						}
					}
				}
			}
		})
	}
	seenM := map[*types.Func]bool{}
	for _, n := range w.Implementers(ti) {
		m := methodOf(n, "GetTlsConfig")
		if m == nil || seenM[m] {
			continue
		}
		seenM[m] = true
		fn := w.SSAFunc(m)
		key := "method:" + funcKey(m) + "|fresh"
		if fn == nil {
			continue
		}
		bad := ""
		nret := 0
		allInstrs(fn, func(in ssa.Instruction) {
			ret, ok := in.(*ssa.Return)
			if !ok || len(ret.Results) != 2 || isConstNil(ret.Results[0]) {
				return
			}
			nret++
			for _, root := range provenance(ret.Results[0], provOpts{}) {
				switch x := root.(type) {
				case *ssa.Alloc:
					// must not also be stored into a field / global
					for _, ref := range *x.Referrers() {
						if st, ok := ref.(*ssa.Store); ok && st.Val == ssa.Value(x) {
							switch st.Addr.(type) {
							case *ssa.FieldAddr, *ssa.Global:
								bad = fmt.Sprintf("%s: the configuration handed out is also kept in longer-lived state: later callers receive the same object", w.Pos(st.Pos()))
							}
						}
					}
				case *ssa.Extract:
					if c, ok := x.Tuple.(ssa.CallInstruction); ok && sCallee(c) != nil && sCallee(c).Name() == "GetTlsConfig" {
						continue
					}
					bad = fmt.Sprintf("%s: the returned configuration is not freshly built in this call", w.Pos(ret.Pos()))
				case *ssa.Const:
				default:
					bad = fmt.Sprintf("%s: the returned configuration is a shared object (%s): callers set ServerName / InsecureSkipVerify on what they receive (%d such site(s)), so one connection's expected host name or disabled verification leaks into every later connection", w.Pos(ret.Pos()), root.String(), mutated)
				}
			}
		})
		if nret == 0 {
			continue
		}
		r.Check(bad == "", rule, key, w.Pos(m.Pos()), fmt.Sprintf("every call builds a fresh tls.Config (callers mutate the result at %d site(s))", mutated), bad)
	}
}

// c05NoPlainAdmission: R05.8 — requireClientCert is enforced by crypto/tls during a TLS handshake only.
// On a carrier that is not already TLS the session handshake must therefore refuse to return the plain
// connection when the manager's configuration demands client certificates.
func c05NoPlainAdmission(w *World, r *Report, rule8, rule11 string) {
	key := "method:(*socketace.ServerConnection).upgrade|plain-admission"
	scNamed := w.Named("internal/socketace", "ServerConnection")
	newSC := w.SSAFunc(w.Func("internal/socketace", "NewServerConnection"))
	clientAuth := tlsConfigField(w, "ClientAuth")
	if scNamed == nil || newSC == nil || clientAuth == nil {
		r.Undecided(rule8, key, "-", "anchor unresolved: ServerConnection / NewServerConnection / tls.Config.ClientAuth")
		return
	}
	// the function of the handshake cone that returns the established connection: (conn, error) results, returns a tls.Server-derived value somewhere
	var up *ssa.Function
	for _, f := range staticCone(newSC, 3) {
		if f.Pkg == nil || f.Pkg.Pkg.Path() != modPath+"/internal/socketace" {
			continue
		}
		for _, c := range callsIn(f) {
			if isPkgFunc(sCallee(c), "crypto/tls", "Server") && f.Signature.Results().Len() == 2 {
				up = f
			}
		}
	}
	if up == nil {
		r.Undecided(rule8, key, "-", "the server's StartTLS step (tls.Server in NewServerConnection's cone) was not found")
		return
	}
	// flags of ServerConnection derived from ClientAuth
	derivesFromClientAuth := func(v ssa.Value) bool {
		seen := map[ssa.Value]bool{}
		var walk func(v ssa.Value, d int) bool
		walk = func(v ssa.Value, d int) bool {
			if v == nil || seen[v] || d > 8 {
				return false
			}
			seen[v] = true
			switch x := v.(type) {
			case *ssa.UnOp:
				if fa := asFieldAddr(x.X); fa != nil && fieldVarOf(fa) == clientAuth {
					return true
				}
				return walk(x.X, d+1)
			case *ssa.BinOp:
				return walk(x.X, d+1) || walk(x.Y, d+1)
			case *ssa.Phi:
				for _, e := range x.Edges {
					if walk(e, d+1) {
						return true
					}
				}
			case *ssa.Convert:
				return walk(x.X, d+1)
			case *ssa.ChangeType:
				return walk(x.X, d+1)
			case *ssa.Field:
				return x.X != nil && walk(x.X, d+1)
			case *ssa.Call:
				// helper returning the requirement
				if callee := x.Call.StaticCallee(); callee != nil && inModule(callee) {
					for _, b := range callee.Blocks {
						if ret, ok := b.Instrs[len(b.Instrs)-1].(*ssa.Return); ok {
							for _, res := range ret.Results {
								if walk(res, d+1) {
									return true
								}
							}
						}
					}
				}
			}
			return false
		}
		return walk(v, 0)
	}
	reqFields := map[*types.Var]bool{}
	for _, fn := range sortedModuleFuncs(w, w.SSA()) {
		allInstrs(fn, func(in ssa.Instruction) {
			st, ok := in.(*ssa.Store)
			if !ok {
				return
			}
			fa := asFieldAddr(st.Addr)
			if fa == nil {
				return
			}
			fv := fieldVarOf(fa)
			if fv == nil || fieldOwnerNamed(scNamed, fv) == false {
				return
			}
			if derivesFromClientAuth(st.Val) {
				reqFields[fv] = true
			}
		})
	}
	c05RequirementSurvivesConfigError(w, r, rule11, newSC, reqFields)
	secureF := fieldOf(scNamed, "secure")
	if secureF == nil && newSC != nil {
		// by role: the boolean field the constructor fills from its boolean parameter
		for _, prm := range newSC.Params {
			if b, ok := prm.Type().Underlying().(*types.Basic); !ok || b.Kind() != types.Bool {
				continue
			}
			allInstrs(newSC, func(in ssa.Instruction) {
				if st, ok := in.(*ssa.Store); ok && st.Val == ssa.Value(prm) {
					if fa, ok := st.Addr.(*ssa.FieldAddr); ok {
						secureF = fieldVarOf(fa)
					}
				}
			})
		}
	}
	factsJustify := func(facts map[ssa.Value]bool) bool {
		for v, t := range facts {
			for f := range reqFields {
				if isLoadOfField(v, f) && !t {
					return true
				}
			}
			if secureF != nil && isLoadOfField(v, secureF) && t {
				return true
			}
			// the requirement tested directly on the configuration
			if derivesFromClientAuth(v) && !t {
				return true
			}
		}
		return false
	}
	bad := ""
	nplain, ntls := 0, 0
	okp := enumPaths(up, nil, nil, nil, func(e pathExit) {
		ret, isRet := e.Last.(*ssa.Return)
		if !isRet || len(ret.Results) != 2 || !isConstNil(e.State.Resolve(ret.Results[1])) {
			return
		}
		conn := e.State.Resolve(ret.Results[0])
		if isConstNil(conn) {
			return
		}
		viaTLS := false
		for _, root := range rootsOfNoTLS(w, conn) {
			if c, ok := root.(*ssa.Call); ok && isPkgFunc(sCallee(c), "crypto/tls", "Server") {
				viaTLS = true
			}
		}
		if viaTLS {
			ntls++
			return
		}
		nplain++
		justified := factsJustify(e.State.Facts)
		if !justified {
			// a guard helper: `if sc.mustRefusePlain() { refuse }` — every path of the helper that answers
			// false must itself establish "no requirement" or "already secure"
			for v, t := range e.State.Facts {
				call, ok := v.(*ssa.Call)
				if !ok || t {
					continue
				}
				callee := call.Call.StaticCallee()
				if callee == nil || !inModule(callee) || len(callee.Blocks) == 0 || callee.Signature.Results().Len() != 1 {
					continue
				}
				okAll, nfalse := true, 0
				enumPaths(callee, nil, nil, nil, func(he pathExit) {
					ret, isRet := he.Last.(*ssa.Return)
					if !isRet {
						return
					}
					rv := he.State.Resolve(ret.Results[0])
					if b, isC := constBool(rv); isC && b {
						return
					}
					if tv, known := he.State.Truth(rv); known && tv {
						return
					}
					nfalse++
					f2 := map[ssa.Value]bool{}
					for k, x := range he.State.Facts {
						f2[k] = x
					}
					if _, isC := constBool(rv); !isC {
						f2[rv] = false // the returned expression itself is false on this outcome
						if b, ok := rv.(*ssa.BinOp); ok {
							_ = b
						}
					}
					if !factsJustify(f2) {
						okAll = false
					}
				})
				if okAll && nfalse > 0 {
					justified = true
				}
			}
		}
		if !justified && bad == "" {
			if len(reqFields) == 0 {
				bad = fmt.Sprintf("%s: the plain connection is returned as an established session and nothing in the server handshake consults tls.Config.ClientAuth: with requireClientCert set, a client that simply does not ask for StartTLS is admitted in clear text without presenting any certificate", w.Pos(ret.Pos()))
			} else {
				bad = fmt.Sprintf("%s: the plain connection is returned on a path where the client-certificate requirement is not known to be absent (and the carrier is not known secure)", w.Pos(ret.Pos()))
			}
		}
	})
	if !okp {
		r.Undecided(rule8, key, w.Pos(up.Pos()), "path budget exceeded")
		return
	}
	r.Check(bad == "" && nplain+ntls > 0, rule8, key, w.Pos(up.Pos()), fmt.Sprintf("%d plain and %d TLS success return(s); every plain one is on a path where the requirement flag is false or the carrier already secure", nplain, ntls), bad)
}

func fieldOwnerNamed(n *types.Named, fv *types.Var) bool {
	st, ok := n.Underlying().(*types.Struct)
	if !ok {
		return false
	}
	for i := 0; i < st.NumFields(); i++ {
		if st.Field(i) == fv {
			return true
		}
	}
	return false
}

// c05DialServerName: R05.9 — tls.Dial derives the name to verify from its address argument unless
// Config.ServerName is set. When the address is the RESOLVED one (net.Addr.String(): an IP), the
// configured host name must be stored into ServerName on every path to the dial.
func c05DialServerName(w *World, r *Report) {
	serverName := tlsConfigField(w, "ServerName")
	n := 0
	for _, fn := range sortedModuleFuncs(w, w.SSA()) {
		for _, c := range callsIn(fn) {
			f := sCallee(c)
			var addrArg, cfg ssa.Value
			switch {
			case isPkgFunc(f, "crypto/tls", "Dial"):
				addrArg, cfg = c.Common().Args[1], c.Common().Args[2]
			case isPkgFunc(f, "crypto/tls", "DialWithDialer"):
				addrArg, cfg = c.Common().Args[2], c.Common().Args[3]
			default:
				continue
			}
			n++
			key := "call:tls.Dial@" + ssaFuncKey(fn)
			pos := w.Pos(c.Pos())
			resolved := false
			fromURL := false
			for _, root := range provenance(addrArg, provOpts{}) {
				if call, ok := root.(*ssa.Call); ok {
					if call.Call.IsInvoke() && call.Call.Method.Name() == "String" {
						resolved = true // net.Addr.String(): the resolved numeric address
					}
					if cf := sCallee(call); cf != nil && cf.Pkg() != nil && cf.Pkg().Path() == "net" && strings.HasPrefix(cf.Name(), "Resolve") {
						resolved = true
					}
					if cf := sCallee(call); cf != nil && cf.Pkg() != nil && cf.Pkg().Path() == "net/url" {
						fromURL = true
					}
				}
				if u, ok := root.(*ssa.UnOp); ok {
					if fa := asFieldAddr(u.X); fa != nil {
						if fv := fieldVarOf(fa); fv != nil && fv.Pkg() != nil && fv.Pkg().Path() == "net/url" && fv.Name() == "Host" {
							fromURL = true
						}
					}
				}
			}
			if fromURL && !resolved {
				r.Hold("R05.9", key, pos, "dials the configured host:port itself; crypto/tls verifies the certificate against that host")
				continue
			}
			isNameStore := func(in ssa.Instruction) bool {
				st, ok := in.(*ssa.Store)
				if !ok {
					return false
				}
				fa := asFieldAddr(st.Addr)
				if fa == nil || fieldVarOf(fa) != serverName {
					return false
				}
				for _, root := range provInter(st.Val, 0) {
					if call, ok := root.(*ssa.Call); ok && isMethod(sCallee(call), "net/url", "URL", "Hostname") {
						return true
					}
				}
				return false
			}
			bad := ""
			npaths := 0
			okp := enumPaths(fn, nil, isNameStore, func(in ssa.Instruction) bool { return in == c.(ssa.Instruction) }, func(e pathExit) {
				if e.Stop == nil {
					return
				}
				npaths++
				set := false
				for _, ev := range e.State.Events {
					st := ev.(*ssa.Store)
					for _, b := range provenance(st.Addr.(*ssa.FieldAddr).X, provOpts{}) {
						for _, cr := range provenance(cfg, provOpts{}) {
							if b == cr {
								set = true
							}
						}
					}
				}
				// the configuration comes out of a builder helper that sets the name on every path that returns one
				if !set {
					for _, cr := range provenance(cfg, provOpts{}) {
						var call *ssa.Call
						switch x := cr.(type) {
						case *ssa.Call:
							call = x
						case *ssa.Extract:
							call, _ = x.Tuple.(*ssa.Call)
						}
						if call == nil {
							continue
						}
						if h := call.Call.StaticCallee(); h != nil && inModule(h) && cfgBuilderSetsName(w, h, call, serverName) {
							set = true
						}
					}
				}
				if !set {
					bad = "the dialled address is the resolved one (an IP) and Config.ServerName is not set from the upstream's Hostname() on this path: crypto/tls verifies the certificate against the IP address — a certificate matching the configured host name is refused and one that merely carries the IP is accepted"
				}
			})
			if !okp {
				r.Undecided("R05.9", key, pos, "path budget exceeded")
				continue
			}
			r.Check(bad == "" && npaths > 0, "R05.9", key, pos, fmt.Sprintf("ServerName is set from the upstream's Hostname() on all %d path(s) to the dial", npaths), bad)
		}
	}
	if n == 0 {
		r.Hold("R05.9", "call:tls.Dial", "-", "no tls.Dial in the module (TLS carriers are built by tls.Client / listeners only)")
	}
}

// c05RoleConfig: R05.10 — ServerConfig and ClientConfig embed Config, and all three have GetTlsConfig.
// Passing the embedded base (&x.Config) where a manager is expected compiles, and silently drops
// requireClientCert (server) or the insecure option (client).
func c05RoleConfig(w *World, r *Report) {
	base := w.Named("internal/util/cert", "Config")
	iface := w.Interface("internal/util/cert", "TlsConfig")
	if base == nil || iface == nil {
		r.Undecided("R05.10", "anchor", "-", "anchor unresolved: cert.Config / cert.TlsConfig")
		return
	}
	n := 0
	var bad []string
	for _, fn := range sortedModuleFuncs(w, w.SSA()) {
		f0 := fn
		for f0.Parent() != nil {
			f0 = f0.Parent()
		}
		if f0.Pkg == nil || f0.Pkg.Pkg.Path() == modPath+"/internal/util/cert" {
			continue
		}
		allInstrs(fn, func(in ssa.Instruction) {
			mi, ok := in.(*ssa.MakeInterface)
			if !ok {
				return
			}
			it, ok := mi.Type().Underlying().(*types.Interface)
			if !ok || !types.Identical(it, iface) {
				// also interfaces that merely contain GetTlsConfig
				if !ok || it.NumMethods() == 0 {
					return
				}
				has := false
				for i := 0; i < it.NumMethods(); i++ {
					if it.Method(i).Name() == "GetTlsConfig" {
						has = true
					}
				}
				if !has {
					return
				}
			}
			n++
			t := mi.X.Type()
			if p, ok := t.(*types.Pointer); ok {
				t = p.Elem()
			}
			if nt, ok := t.(*types.Named); ok && nt.Obj() == base.Obj() {
				bad = append(bad, fmt.Sprintf("%s: %s hands the embedded base cert.Config out as the certificate manager: its GetTlsConfig knows neither requireClientCert nor the insecure option, so the role's setting is silently dropped", w.Pos(mi.Pos()), ssaFuncKey(fn)))
			}
		})
	}
	sort.Strings(bad)
	r.Check(len(bad) == 0 && n > 0, "R05.10", "managers:cert.TlsConfig", "-", fmt.Sprintf("%d value(s) boxed as certificate manager, none of the role-less base type", n), strings.Join(bad, "; ")+mapStr(n == 0, "no certificate manager value found"))
}

// c05RequirementSurvivesConfigError: R05.11 — the requirement flag(s) R05.8 relies on are zero (= "no
// requirement") until stored. In every handshake function that asks the manager for its TLS configuration
// and (itself or through helpers) stores such a flag, each path from that request to a successful return
// must store the flag, and not the constant false: otherwise a manager whose key material cannot be
// loaded (file rotated away, unreadable) turns requireClientCert off and clear-text sessions are admitted.
func c05RequirementSurvivesConfigError(w *World, r *Report, rule string, newSC *ssa.Function, reqFields map[*types.Var]bool) {
	if len(reqFields) == 0 {
		r.Hold(rule, "flags:ClientAuth-derived", "-", "no requirement flag is kept (R05.8 decides whether the configuration is consulted directly)")
		return
	}
	isReqStore := func(in ssa.Instruction) (*ssa.Store, bool) {
		st, ok := in.(*ssa.Store)
		if !ok {
			return nil, false
		}
		if fa := asFieldAddr(st.Addr); fa != nil && reqFields[fieldVarOf(fa)] {
			return st, true
		}
		return nil, false
	}
	// helper summary: f stores a requirement flag on every path to a return
	var storesAlways func(f *ssa.Function, d int) bool
	storesAlways = func(f *ssa.Function, d int) bool {
		if f == nil || !inModule(f) || len(f.Blocks) == 0 || d > 3 {
			return false
		}
		all, n := true, 0
		okp := enumPaths(f, nil, func(in ssa.Instruction) bool {
			if _, ok := isReqStore(in); ok {
				return true
			}
			if c, ok := in.(*ssa.Call); ok {
				return storesAlways(c.Call.StaticCallee(), d+1)
			}
			return false
		}, nil, func(e pathExit) {
			if _, isRet := e.Last.(*ssa.Return); !isRet {
				return
			}
			n++
			if len(e.State.Events) == 0 {
				all = false
			}
		})
		return okp && all && n > 0
	}
	isGetConfig := func(in ssa.Instruction) bool {
		c, ok := in.(ssa.CallInstruction)
		if !ok {
			return false
		}
		callee := sCallee(c)
		return callee != nil && callee.Name() == "GetTlsConfig" && callee.Pkg() != nil && callee.Pkg().Path() == modPath+"/internal/util/cert"
	}
	nfun := 0
	for _, f := range staticCone(newSC, 3) {
		asks := false
		allInstrs(f, func(in ssa.Instruction) {
			if isGetConfig(in) {
				asks = true
			}
		})
		if !asks {
			continue
		}
		stores := false
		for _, g := range staticCone(f, 3) {
			allInstrs(g, func(in ssa.Instruction) {
				if _, ok := isReqStore(in); ok {
					stores = true
				}
			})
		}
		if !stores {
			continue
		}
		nfun++
		key := "func:" + ssaFuncKey(f) + "|requirement-after-GetTlsConfig"
		errIdx := -1
		if res := f.Signature.Results(); res.Len() > 0 && isErrorType(res.At(res.Len()-1).Type()) {
			errIdx = res.Len() - 1
		}
		bad, npaths := "", 0
		okp := enumPaths(f, nil, func(in ssa.Instruction) bool {
			if isGetConfig(in) {
				return true
			}
			if _, ok := isReqStore(in); ok {
				return true
			}
			if c, ok := in.(*ssa.Call); ok {
				return storesAlways(c.Call.StaticCallee(), 1)
			}
			return false
		}, nil, func(e pathExit) {
			ret, isRet := e.Last.(*ssa.Return)
			if !isRet {
				return
			}
			if errIdx >= 0 && !isConstNil(e.State.Resolve(ret.Results[errIdx])) {
				return
			}
			last := -1
			for i, ev := range e.State.Events {
				if isGetConfig(ev) {
					last = i
				}
			}
			if last < 0 {
				return
			}
			npaths++
			good := false
			var at ssa.Instruction = e.State.Events[last]
			for _, ev := range e.State.Events[last+1:] {
				if st, ok := isReqStore(ev); ok {
					if b, isC := constBool(e.State.Resolve(st.Val)); isC && !b && !errKnownNil(e.State, e.State.Events[last]) {
						good = false
						at = st
						continue
					}
					good = true
				} else if !isGetConfig(ev) {
					good = true
				}
			}
			if !good && bad == "" {
				bad = fmt.Sprintf("%s: a path from the manager's GetTlsConfig to a successful return (%s) leaves the client-certificate requirement flag unset or false: when the configuration cannot be loaded, requireClientCert is silently dropped and clear-text sessions are admitted", w.Pos(at.Pos()), w.Pos(ret.Pos()))
			}
		})
		if !okp {
			r.Undecided(rule, key, w.Pos(f.Pos()), "path budget exceeded")
			continue
		}
		r.Check(bad == "" && npaths > 0, rule, key, w.Pos(f.Pos()), fmt.Sprintf("%d successful path(s) through GetTlsConfig; each stores the requirement flag afterwards", npaths), bad+mapStr(npaths == 0, "no successful path through GetTlsConfig"))
	}
	if nfun == 0 {
		r.Violate(rule, "func:requirement-after-GetTlsConfig", "-", "no handshake function both asks the manager for its configuration and sets the requirement flag")
	}
}

// errKnownNil: the path took the `err == nil` side for the error result of call.
func errKnownNil(st *pathState, call ssa.Instruction) bool {
	cv, ok := call.(ssa.Value)
	if !ok {
		return false
	}
	for v, t := range st.Facts {
		b, ok := v.(*ssa.BinOp)
		if !ok || (b.Op != token.NEQ && b.Op != token.EQL) {
			continue
		}
		x, y := b.X, b.Y
		if isConstNil(x) {
			x, y = y, x
		}
		ex, isEx := x.(*ssa.Extract)
		if !isEx || ex.Tuple != cv || !isConstNil(y) || !isErrorType(ex.Type()) {
			continue
		}
		if (b.Op == token.NEQ && !t) || (b.Op == token.EQL && t) {
			return true
		}
	}
	return false
}

// valueIsHostname: every origin of v — parameters followed to all their call sites in the module — is a call of
// (*url.URL).Hostname().
func valueIsHostname(w *World, v ssa.Value) bool {
	var cone []*ssa.Function
	for _, f := range sortedModuleFuncs(w, w.SSA()) {
		cone = append(cone, f)
	}
	sort.Slice(cone, func(i, j int) bool { return cone[i].Pos() < cone[j].Pos() })
	var roots []ssa.Value
	for _, r0 := range provInter(v, 0) {
		roots = append(roots, provWithCallers(r0, cone, 0)...)
	}
	if len(roots) == 0 {
		return false
	}
	for _, root := range roots {
		ok := false
		for _, r1 := range provInter(root, 0) {
			if call, isC := r1.(*ssa.Call); isC && isMethod(sCallee(call), "net/url", "URL", "Hostname") {
				ok = true
			}
		}
		if !ok {
			return false
		}
	}
	return true
}

// cfgBuilderSetsName: h returns a *tls.Config (first result); on every path that returns a non-nil one, ServerName
// of that very object was stored from Hostname() or from a parameter that this call site fills with Hostname().
func cfgBuilderSetsName(w *World, h *ssa.Function, site *ssa.Call, serverName *types.Var) bool {
	if len(h.Blocks) == 0 {
		return false
	}
	isStore := func(in ssa.Instruction) bool {
		st, ok := in.(*ssa.Store)
		if !ok {
			return false
		}
		fa := asFieldAddr(st.Addr)
		return fa != nil && fieldVarOf(fa) == serverName
	}
	good, n := true, 0
	okp := enumPaths(h, nil, isStore, nil, func(e pathExit) {
		ret, isRet := e.Last.(*ssa.Return)
		if !isRet || len(ret.Results) == 0 {
			return
		}
		res := e.State.Resolve(ret.Results[0])
		if c, isC := res.(*ssa.Const); isC && c.IsNil() {
			return
		}
		n++
		set := false
		for _, ev := range e.State.Events {
			st := ev.(*ssa.Store)
			same := false
			for _, b := range provenance(st.Addr.(*ssa.FieldAddr).X, provOpts{}) {
				for _, cr := range provenance(res, provOpts{}) {
					if b == cr {
						same = true
					}
				}
			}
			if !same {
				continue
			}
			all := true
			roots := provenance(st.Val, provOpts{})
			for _, root := range roots {
				if call, isC := root.(*ssa.Call); isC && isMethod(sCallee(call), "net/url", "URL", "Hostname") {
					continue
				}
				if p, isP := root.(*ssa.Parameter); isP {
					idx := paramIndex(h, p)
					if idx >= 0 && idx < len(site.Call.Args) {
						argOk := false
						for _, ar := range provInter(site.Call.Args[idx], 0) {
							if call, isC := ar.(*ssa.Call); isC && isMethod(sCallee(call), "net/url", "URL", "Hostname") {
								argOk = true
							}
						}
						if argOk {
							continue
						}
					}
				}
				all = false
			}
			if all && len(roots) > 0 {
				set = true
			}
		}
		if !set {
			good = false
		}
	})
	return okp && good && n > 0
}

// canonicalDigestScheme: `h := sha256.New(); h.Write(x); h.Sum(nil)` and `sha256.Sum256(x)` are one derivation.
func canonicalDigestScheme(scheme string) string {
	table := map[string]string{
		"Sum,crypto/sha256.New":    "digest:sha256",
		"crypto/sha256.Sum256":     "digest:sha256",
		"Sum,crypto/sha256.New224": "digest:sha224",
		"crypto/sha256.Sum224":     "digest:sha224",
		"Sum,crypto/sha512.New":    "digest:sha512",
		"crypto/sha512.Sum512":     "digest:sha512",
		"Sum,crypto/sha1.New":      "digest:sha1",
		"crypto/sha1.Sum":          "digest:sha1",
		"Sum,crypto/md5.New":       "digest:md5",
		"crypto/md5.Sum":           "digest:md5",
	}
	if c, ok := table[scheme]; ok {
		return c
	}
	return scheme
}
