package main

// C06 — Session handshake admits exactly well-formed, compatible peers.

import (
	"fmt"
	"go/constant"
	"go/token"
	"go/types"

	"golang.org/x/tools/go/ssa"
)

func init() { register("C06", checkC06) }

// literalFieldCond evaluates `lit.Field <op> const` where lit is selected by
// the path's phi choices among freshly built literals.
func literalFieldCond(st *pathState, cond ssa.Value) (bool, bool) {
	b, ok := cond.(*ssa.BinOp)
	if !ok || (b.Op != token.EQL && b.Op != token.NEQ) {
		return false, false
	}
	eval := func(x, y ssa.Value) (bool, bool) {
		c, ok := y.(*ssa.Const)
		if !ok || c.Value == nil {
			return false, false
		}
		u, ok := st.Resolve(x).(*ssa.UnOp)
		if !ok || u.Op != token.MUL {
			return false, false
		}
		fa, ok := u.X.(*ssa.FieldAddr)
		if !ok {
			return false, false
		}
		fv := fieldVarOf(fa)
		if fv == nil {
			return false, false
		}
		v, ok := constFieldOfLiteral(st, fa.X, fv.Name())
		if !ok {
			return false, false
		}
		eq := constant.Compare(v, token.EQL, c.Value)
		if b.Op == token.EQL {
			return eq, true
		}
		return !eq, true
	}
	if v, k := eval(b.X, b.Y); k {
		return v, true
	}
	return eval(b.Y, b.X)
}

func stringConstOf(w *World, rel, name string) (string, bool) {
	p := w.Pkg(rel)
	if p == nil {
		return "", false
	}
	c, ok := p.Types.Scope().Lookup(name).(*types.Const)
	if !ok || c.Val().Kind() != constant.String {
		return "", false
	}
	return constant.StringVal(c.Val()), true
}

// cmpWithConst: v is `x <op> "lit"` (either side); returns op and literal.
func cmpWithStrConst(v ssa.Value) (token.Token, string, ssa.Value, bool) {
	b, ok := v.(*ssa.BinOp)
	if !ok || (b.Op != token.EQL && b.Op != token.NEQ) {
		return 0, "", nil, false
	}
	for _, pr := range [][2]ssa.Value{{b.X, b.Y}, {b.Y, b.X}} {
		if c, ok := pr[1].(*ssa.Const); ok && c.Value != nil && c.Value.Kind() == constant.String {
			return b.Op, constant.StringVal(c.Value), pr[0], true
		}
	}
	return 0, "", nil, false
}

func cmpWithIntConst(v ssa.Value) (token.Token, int64, ssa.Value, bool) {
	b, ok := v.(*ssa.BinOp)
	if !ok || (b.Op != token.EQL && b.Op != token.NEQ) {
		return 0, 0, nil, false
	}
	for _, pr := range [][2]ssa.Value{{b.X, b.Y}, {b.Y, b.X}} {
		if n, ok := constIntVal(pr[1]); ok {
			if _, isC := pr[0].(*ssa.Const); !isC {
				return b.Op, n, pr[0], true
			}
		}
	}
	return 0, 0, nil, false
}

func loadedFieldName(v ssa.Value) string {
	if fa := asFieldAddr(v); fa != nil {
		if fv := fieldVarOf(fa); fv != nil {
			return fv.Name()
		}
	}
	return ""
}

func checkC06(w *World, r *Report) {
	r.Explanation = "Decides, on every SSA path, that a session is reported established only after all admission checks passed: (R06.1) the server's handshake returns success only with the request parsed, the announce method matched and a non-empty negotiated version; its upgrade returns a connection only with method GET, Connection: upgrade and Upgrade == socketace/<negotiated> all satisfied (failed checks re-bind the response to a literal whose status is a constant != 101, evaluated per path); NewServerConnection succeeds only if both did; (R06.2) the negotiated version is an element of the server's supported list that equals an element of the client's list; (R06.3) the client accepts only status 200 / 101; (R06.5) every index and slice expression in the handshake packages is proven in bounds for all peer input by linear-inequality entailment (dominating comparisons + the contracts of strings.Index/LastIndex + len arithmetic, refuted by Fourier–Motzkin elimination); (R06.4) peer bytes are read through the single bufio.Reader of the BufferedInputConnection — no second buffered reader over a connection exists, so the outcome cannot depend on segmentation. Not decided: the full input space of net/textproto, header size limits."
	r.NotDecided = []string{"net/textproto parsing of arbitrary bytes", "unbounded header size (resource)"}
	r.Trusted = []string{"net/textproto.Reader adds no buffering of its own over the bufio.Reader it is given"}
	r.Rule("R06.1", "server success only after every admission check", 3)
	r.Rule("R06.2", "negotiated version is a supported version the client listed", 1)
	r.Rule("R06.3", "client accepts only 200 / 101", 2)
	r.Rule("R06.4", "single buffered reader owns the inbound stream", 6)
	r.Rule("R06.5", "every index / slice expression on peer-supplied text is proven in bounds (linear-inequality entailment over dominating guards)", 2)
	r.Rule("R06.8", "a handshake that fails without an answer is answered by a close: AcceptConnection closes the carrier on every failing return", 1)
	ruleAcceptFailureClosesCarrier(w, r, "R06.8")
	r.Rule("R06.7", "every explicit panic of the handshake code guards a write to an in-memory buffer, never to a writer that can be the peer's connection", 1)
	c06NoPanicOnPeerWriteFault(w, r)
	r.Rule("R06.6", "no header write into the nil map of a freshly built message object (it would panic on the accept path)", 1)
	c06NoWriteIntoNilHeaderMap(w, r)

	reqRead := w.Method("internal/socketace", "Request", "Read")
	respRead := w.Method("internal/socketace", "Response", "Read")
	reqMethod, _ := stringConstOf(w, "internal/socketace", "RequestMethod")

	isReadErr := func(v ssa.Value, rd *types.Func) bool {
		x, _, ok := nilTest(v)
		if !ok {
			return false
		}
		for _, root := range provenance(x, provOpts{}) {
			if c, ok := root.(*ssa.Call); ok && sCallee(c) == rd {
				return true
			}
		}
		return false
	}

	// ---- server handshake
	if fn := w.SSAFunc(w.Method("internal/socketace", "ServerConnection", "handshake")); fn == nil {
		r.Undecided("R06.1", "method:(*socketace.ServerConnection).handshake", "-", "anchor unresolved")
	} else {
		bad := ""
		succ := 0
		okp := enumPathsX(fn, nil, nil, nil, literalFieldCond, func(e pathExit) {
			ret, isRet := e.Last.(*ssa.Return)
			if !isRet || !isConstNil(e.State.Resolve(ret.Results[0])) {
				return
			}
			succ++
			parsed, methodOK, versionOK := false, false, false
			for v, t := range e.State.Facts {
				if isReadErr(v, reqRead) {
					_, eq, _ := nilTest(v)
					if t == eq {
						parsed = true
					}
				}
				if op, lit, x, ok := cmpWithStrConst(v); ok {
					if lit == reqMethod && loadedFieldName(x) == "Method" && ((op == token.NEQ && !t) || (op == token.EQL && t)) {
						methodOK = true
					}
					if lit == "" && loadedFieldName(x) == "negotiatedVersion" && ((op == token.EQL && !t) || (op == token.NEQ && t)) {
						versionOK = true
					}
				}
			}
			switch {
			case !parsed:
				bad = "handshake reports success on a path where the announce request was not parsed successfully"
			case !methodOK:
				bad = "handshake reports success on a path that never established request.Method == " + reqMethod
			case !versionOK:
				bad = "handshake reports success on a path where no protocol version was negotiated (empty version accepted)"
			}
		})
		key := "method:(*socketace.ServerConnection).handshake"
		if !okp {
			r.Undecided("R06.1", key, w.Pos(fn.Pos()), "path budget exceeded")
		} else {
			r.Check(bad == "" && succ > 0, "R06.1", key, w.Pos(fn.Pos()), fmt.Sprintf("%d success path(s): parsed, method == %s, version != \"\"", succ, reqMethod), bad, "success_paths", succ)
		}
	}

	// ---- server upgrade
	if fn := w.SSAFunc(w.Method("internal/socketace", "ServerConnection", "upgrade")); fn == nil {
		r.Undecided("R06.1", "method:(*socketace.ServerConnection).upgrade", "-", "anchor unresolved")
	} else {
		bad := ""
		succ := 0
		okp := enumPathsX(fn, nil, nil, nil, literalFieldCond, func(e pathExit) {
			ret, isRet := e.Last.(*ssa.Return)
			if !isRet || len(ret.Results) != 2 {
				return
			}
			if isConstNil(e.State.Resolve(ret.Results[0])) {
				return
			}
			if !isConstNil(e.State.Resolve(ret.Results[1])) {
				return
			}
			succ++
			parsed, get, connUp, upgradeTok := false, false, false, false
			for v, t := range e.State.Facts {
				if isReadErr(v, reqRead) {
					_, eq, _ := nilTest(v)
					if t == eq {
						parsed = true
					}
				}
				if op, lit, x, ok := cmpWithStrConst(v); ok {
					holdsEq := (op == token.EQL && t) || (op == token.NEQ && !t)
					if lit == "GET" && loadedFieldName(x) == "Method" && holdsEq {
						get = true
					}
					if lit == "upgrade" && holdsEq {
						connUp = true
					}
				}
				if b, ok := v.(*ssa.BinOp); ok && (b.Op == token.EQL || b.Op == token.NEQ) {
					holdsEq := (b.Op == token.EQL && t) || (b.Op == token.NEQ && !t)
					for _, side := range []ssa.Value{b.X, b.Y} {
						if add, ok := side.(*ssa.BinOp); ok && add.Op == token.ADD {
							if c, ok := add.X.(*ssa.Const); ok && c.Value != nil && c.Value.Kind() == constant.String && constant.StringVal(c.Value) == "socketace/" &&
								loadedFieldName(add.Y) == "negotiatedVersion" && holdsEq {
								upgradeTok = true
							}
						}
					}
				}
			}
			switch {
			case !parsed:
				bad = "upgrade succeeds on a path where the upgrade request was not parsed"
			case !get:
				bad = "upgrade succeeds on a path that did not establish method == GET"
			case !connUp:
				bad = "upgrade succeeds on a path that did not establish Connection: upgrade"
			case !upgradeTok:
				bad = "upgrade succeeds on a path that did not establish Upgrade == socketace/<negotiated version>"
			}
		})
		key := "method:(*socketace.ServerConnection).upgrade"
		if !okp {
			r.Undecided("R06.1", key, w.Pos(fn.Pos()), "path budget exceeded")
		} else {
			r.Check(bad == "" && succ > 0, "R06.1", key, w.Pos(fn.Pos()), fmt.Sprintf("%d feasible success path(s): parsed, GET, Connection: upgrade, matching Upgrade token", succ), bad, "success_paths", succ)
		}
	}

	// ---- NewServerConnection
	if fn := w.SSAFunc(w.Func("internal/socketace", "NewServerConnection")); fn == nil {
		r.Undecided("R06.1", "func:socketace.NewServerConnection", "-", "anchor unresolved")
	} else {
		hs := w.Method("internal/socketace", "ServerConnection", "handshake")
		up := w.Method("internal/socketace", "ServerConnection", "upgrade")
		bad := ""
		succ := 0
		enumPaths(fn, nil, nil, nil, func(e pathExit) {
			ret, isRet := e.Last.(*ssa.Return)
			if !isRet || !isConstNil(e.State.Resolve(ret.Results[1])) {
				return
			}
			succ++
			okHs, okUp := false, false
			for v, t := range e.State.Facts {
				x, eq, ok := nilTest(v)
				if !ok || t != eq {
					continue
				}
				for _, root := range provenance(x, provOpts{}) {
					if c, ok := root.(*ssa.Call); ok && sCallee(c) == hs {
						okHs = true
					}
					if ex, ok := root.(*ssa.Extract); ok {
						if c, ok := ex.Tuple.(*ssa.Call); ok && sCallee(c) == up {
							okUp = true
						}
					}
				}
			}
			if !okHs || !okUp {
				bad = "NewServerConnection reports an established session on a path where handshake or upgrade did not succeed"
			}
		})
		r.Check(bad == "" && succ > 0, "R06.1", "func:socketace.NewServerConnection", w.Pos(fn.Pos()), fmt.Sprintf("%d success path(s), each after handshake()==nil and upgrade()==nil", succ), bad)
	}

	// ---- R06.2 negotiateVersion
	if fn := w.SSAFunc(w.Method("internal/socketace", "ServerConnection", "negotiateVersion")); fn == nil {
		r.Undecided("R06.2", "method:(*socketace.ServerConnection).negotiateVersion", "-", "anchor unresolved")
	} else {
		supported := w.Pkg("internal/socketace").Types.Scope().Lookup("SupportedProtocolVersions")
		fromSupported := func(v ssa.Value) bool {
			u, ok := v.(*ssa.UnOp)
			if !ok {
				return false
			}
			ia, ok := u.X.(*ssa.IndexAddr)
			if !ok {
				return false
			}
			for _, root := range provenance(ia.X, provOpts{}) {
				if l, ok := root.(*ssa.UnOp); ok {
					if g, ok := l.X.(*ssa.Global); ok && g.Object() == supported {
						return true
					}
				}
			}
			return false
		}
		fromClient := func(v ssa.Value) bool {
			u, ok := v.(*ssa.UnOp)
			if !ok {
				return false
			}
			ia, ok := u.X.(*ssa.IndexAddr)
			if !ok {
				return false
			}
			for _, root := range provenance(ia.X, provOpts{}) {
				if c, ok := root.(*ssa.Call); ok {
					if f := sCallee(c); f != nil && f.Name() == "SplitField" && len(c.Call.Args) == 1 && c.Call.Args[0] == ssa.Value(fn.Params[1]) {
						return true
					}
				}
			}
			return false
		}
		bad := ""
		nonEmpty := 0
		okp := enumPaths(fn, nil, nil, nil, func(e pathExit) {
			ret, isRet := e.Last.(*ssa.Return)
			if !isRet {
				return
			}
			rv := e.State.Resolve(ret.Results[0])
			if c, ok := rv.(*ssa.Const); ok && c.Value != nil && constant.StringVal(c.Value) == "" {
				return
			}
			nonEmpty++
			if !fromSupported(rv) {
				bad = "negotiateVersion can return a version that is not an element of the server's supported list: " + rv.String()
				return
			}
			guarded := false
			for v, t := range e.State.Facts {
				b, ok := v.(*ssa.BinOp)
				if !ok || b.Op != token.EQL || !t {
					continue
				}
				if (b.X == rv && fromClient(b.Y)) || (b.Y == rv && fromClient(b.X)) {
					guarded = true
				}
			}
			// ... or under a membership helper: `isListed(clientList, supported[i])` answered true
			for v, t := range e.State.Facts {
				hc, ok := v.(*ssa.Call)
				if !ok || !t || guarded {
					continue
				}
				h := hc.Call.StaticCallee()
				if h == nil || !inModule(h) || len(h.Blocks) == 0 {
					continue
				}
				vi, li := -1, -1
				for i, a := range hc.Call.Args {
					if a == rv {
						vi = i
					}
					for _, root := range provenance(a, provOpts{}) {
						if c, ok := root.(*ssa.Call); ok {
							if f := sCallee(c); f != nil && f.Name() == "SplitField" && len(c.Call.Args) == 1 && c.Call.Args[0] == ssa.Value(fn.Params[1]) {
								li = i
							}
						}
					}
				}
				if vi < 0 || li < 0 || vi >= len(h.Params) || li >= len(h.Params) {
					continue
				}
				elemOfList := func(x ssa.Value) bool {
					u, ok := x.(*ssa.UnOp)
					if !ok {
						return false
					}
					ia, ok := u.X.(*ssa.IndexAddr)
					if !ok {
						return false
					}
					for _, root := range provenance(ia.X, provOpts{}) {
						if root == ssa.Value(h.Params[li]) {
							return true
						}
					}
					return false
				}
				isVal := func(x ssa.Value) bool {
					for _, root := range provenance(x, provOpts{}) {
						if root == ssa.Value(h.Params[vi]) {
							return true
						}
					}
					return false
				}
				if predicateHelperImplies(h, true, func(facts map[ssa.Value]bool) bool {
					for v2, t2 := range facts {
						b, ok := v2.(*ssa.BinOp)
						if !ok || b.Op != token.EQL || !t2 {
							continue
						}
						if (isVal(b.X) && elemOfList(b.Y)) || (isVal(b.Y) && elemOfList(b.X)) {
							return true
						}
					}
					return false
				}) {
					guarded = true
				}
			}
			if !guarded {
				bad = "a supported version is selected without an equality test against an element of the client's list"
			}
		})
		key := "method:(*socketace.ServerConnection).negotiateVersion"
		if !okp {
			r.Undecided("R06.2", key, w.Pos(fn.Pos()), "path budget exceeded")
		} else {
			r.Check(bad == "" && nonEmpty > 0, "R06.2", key, w.Pos(fn.Pos()), fmt.Sprintf("%d non-empty return path(s): supported[i] under supported[i] == client[j]", nonEmpty), bad+mapStr(nonEmpty == 0, "never returns a version"))
		}
	}

	// ---- R06.3 client
	for _, spec := range []struct {
		m    string
		code int64
	}{{"handshake", 200}, {"upgrade", 101}} {
		fn := w.SSAFunc(w.Method("internal/socketace", "ClientConnection", spec.m))
		key := "method:(*socketace.ClientConnection)." + spec.m
		if fn == nil {
			r.Undecided("R06.3", key, "-", "anchor unresolved")
			continue
		}
		bad := ""
		succ := 0
		okp := enumPaths(fn, nil, nil, nil, func(e pathExit) {
			ret, isRet := e.Last.(*ssa.Return)
			if !isRet {
				return
			}
			errv := e.State.Resolve(ret.Results[len(ret.Results)-1])
			if !isConstNil(errv) {
				if isNil, known := e.State.NilKnown(errv); !(known && isNil) {
					// non-nil or unknown error value: only treat as success when the connection result is non-nil
					if len(ret.Results) == 1 || isConstNil(e.State.Resolve(ret.Results[0])) {
						return
					}
				}
			}
			succ++
			parsed, status := false, false
			for v, t := range e.State.Facts {
				if isReadErr(v, respRead) {
					_, eq, _ := nilTest(v)
					if t == eq {
						parsed = true
					}
				}
				if op, n, x, ok := cmpWithIntConst(v); ok && n == spec.code && loadedFieldName(x) == "StatusCode" {
					if (op == token.NEQ && !t) || (op == token.EQL && t) {
						status = true
					}
				}
			}
			if !status {
				// the test may sit in a helper: `if err := expectStatus(response, 101); err != nil { return }`
				for v, t := range e.State.Facts {
					x, eq, ok := nilTest(v)
					if !ok || t != eq {
						continue
					}
					hc, ok := x.(*ssa.Call)
					if !ok {
						continue
					}
					h := hc.Call.StaticCallee()
					if h == nil || !inModule(h) || len(h.Blocks) == 0 {
						continue
					}
					for ci, a := range hc.Call.Args {
						if n, isC := constIntVal(a); !isC || n != spec.code || ci >= len(h.Params) {
							continue
						}
						codeP := h.Params[ci]
						okAll, nnil := true, 0
						enumPaths(h, nil, nil, nil, func(he pathExit) {
							hret, isRet := he.Last.(*ssa.Return)
							if !isRet || len(hret.Results) != 1 || !isConstNil(he.State.Resolve(hret.Results[0])) {
								return
							}
							nnil++
							found := false
							for hv, ht := range he.State.Facts {
								b, isB := hv.(*ssa.BinOp)
								if !isB || (b.Op != token.EQL && b.Op != token.NEQ) {
									continue
								}
								for _, pr := range [][2]ssa.Value{{b.X, b.Y}, {b.Y, b.X}} {
									if pr[1] == ssa.Value(codeP) && loadedFieldName(pr[0]) == "StatusCode" {
										if (b.Op == token.NEQ && !ht) || (b.Op == token.EQL && ht) {
											found = true
										}
									}
								}
							}
							if !found {
								okAll = false
							}
						})
						if okAll && nnil > 0 {
							status = true
						}
					}
				}
			}
			if !parsed {
				bad = "client continues on a path where the server's response was not parsed"
			} else if !status {
				bad = fmt.Sprintf("client continues on a path that did not establish StatusCode == %d", spec.code)
			}
		})
		if !okp {
			r.Undecided("R06.3", key, w.Pos(fn.Pos()), "path budget exceeded")
			continue
		}
		r.Check(bad == "" && succ > 0, "R06.3", key, w.Pos(fn.Pos()), fmt.Sprintf("%d success path(s), each with the response parsed and StatusCode == %d", succ, spec.code), bad)
	}

	// ---- R06.4
	netConn := w.ByPath["net"].Types.Scope().Lookup("Conn").Type().Underlying().(*types.Interface)
	nbi := w.Func("internal/streams", "NewBufferedInputConnection")
	nbuf := 0
	for _, fn := range sortedModuleFuncs(w, w.SSA()) {
		for _, c := range callsIn(fn) {
			f := sCallee(c)
			if f == nil || f.Pkg() == nil || f.Pkg().Path() != "bufio" {
				continue
			}
			switch f.Name() {
			case "NewReader", "NewReaderSize", "NewScanner", "NewReadWriter":
			default:
				continue
			}
			arg := c.Common().Args[0]
			overConn := false
			for _, root := range provenance(arg, provOpts{}) {
				if implementsIface(root.Type(), netConn) {
					overConn = true
				}
			}
			if !overConn {
				continue
			}
			nbuf++
			obj, _ := fn.Object().(*types.Func)
			key := "call:bufio." + f.Name() + "@" + ssaFuncKey(fn)
			r.Check(obj == nbi, "R06.4", key, w.Pos(c.Pos()), "the one buffered reader per connection is created by NewBufferedInputConnection",
				"a second buffered reader is created over a connection: bytes it reads ahead are lost to the next layer, so the handshake outcome depends on how the stream is segmented")
		}
	}
	if nbuf == 0 {
		r.Undecided("R06.4", "call:bufio.NewReader*", "-", "no buffered reader over a connection found (NewBufferedInputConnection changed?)")
	}
	// inside the handshake package no further buffering layer may be put over the inbound stream: the line/header
	// parser must sit directly on the connection's one bufio.Reader
	for _, fn := range sortedModuleFuncs(w, w.SSA()) {
		f0 := fn
		for f0.Parent() != nil {
			f0 = f0.Parent()
		}
		if f0.Pkg == nil || f0.Pkg.Pkg.Path() != modPath+"/internal/socketace" {
			continue
		}
		for _, c := range callsIn(fn) {
			f := sCallee(c)
			if f == nil || f.Pkg() == nil {
				continue
			}
			if f.Pkg().Path() == "bufio" && (f.Name() == "NewReader" || f.Name() == "NewReaderSize" || f.Name() == "NewScanner" || f.Name() == "NewReadWriter") {
				r.Violate("R06.4", "call:bufio."+f.Name()+"@"+ssaFuncKey(fn), w.Pos(c.Pos()), "the handshake code creates another buffered reader: whatever it reads ahead beyond the current header block (the next handshake message, TLS or multiplexer bytes coalesced into the same read) is thrown away with it, so the outcome depends on how the byte stream is segmented")
			}
			if f.Pkg().Path() == "net/textproto" && f.Name() == "NewReader" {
				key := "call:textproto.NewReader@" + ssaFuncKey(fn)
				okr := false
				for _, root := range provenance(c.Common().Args[0], provOpts{}) {
					if p, isParam := root.(*ssa.Parameter); isParam {
						if pt, ok := p.Type().(*types.Pointer); ok {
							if n, ok := pt.Elem().(*types.Named); ok && n.Obj().Pkg() != nil && n.Obj().Pkg().Path() == "bufio" && n.Obj().Name() == "Reader" {
								okr = true
							}
						}
					}
					if fa := asFieldAddr(root); fa != nil && bicNamed(w) != nil && recvIs(fa, bicNamed(w)) {
						okr = true
					}
				}
				r.Check(okr, "R06.4", key, w.Pos(c.Pos()), "the header parser reads directly from the connection's single bufio.Reader", "the header parser is not fed by the connection's single bufio.Reader (bytes read ahead are lost to the next handshake step)")
			}
		}
	}

	ruleHandshakeBounds(w, r, "R06.5")

	// callers of Request.Read / Response.Read pass the BufferedInputConnection's Reader field
	bic := w.Named("internal/streams", "BufferedInputConnection")
	for _, fn := range sortedModuleFuncs(w, w.SSA()) {
		for _, c := range callsIn(fn) {
			f := sCallee(c)
			if f != reqRead && f != respRead {
				continue
			}
			key := fmt.Sprintf("call:%s@%s", funcKey(f), ssaFuncKey(fn))
			arg := c.Common().Args[1]
			okr := false
			if fa := asFieldAddr(arg); fa != nil && bic != nil && recvIs(fa, bic) {
				if _, isParam := fa.X.(*ssa.Parameter); isParam {
					okr = true
				}
			}
			r.Check(okr, "R06.4", key, w.Pos(c.Pos()), "reads from the Reader of the function's BufferedInputConnection parameter", "handshake message is read from something other than the connection's single buffered reader")
		}
	}
}

func bicNamed(w *World) *types.Named { return w.Named("internal/streams", "BufferedInputConnection") }

// ruleHandshakeBounds: no peer byte sequence can drive an index out of range in the handshake parsers
func ruleHandshakeBounds(w *World, r *Report, rule string) {
	for _, fn := range sortedModuleFuncs(w, w.SSA()) {
		if fn.Parent() != nil || fn.Pkg == nil || fn.Synthetic != "" {
			continue
		}
		switch fn.Pkg.Pkg.Path() {
		case modPath + "/internal/socketace", modPath + "/internal/util/mime", modPath + "/internal/version":
		default:
			continue
		}
		n, issues := checkBounds(fn)
		if n == 0 {
			continue
		}
		key := "bounds:" + ssaFuncKey(fn)
		if len(issues) == 0 {
			r.Hold(rule, key, w.Pos(fn.Pos()), fmt.Sprintf("%d index/slice operation(s) proven in bounds from the dominating comparisons and the contracts of strings.Index & co.", n))
			continue
		}
		for _, is := range issues {
			r.Violate(rule, key, w.Pos(is.Instr.Pos()), is.What+": a peer-chosen line can make this expression panic, and nothing between the socket and this code recovers — the process dies")
		}
	}

}
