package main

// C07 — DNS tunnel delivers every byte exactly once, in order.

import (
	"fmt"
	"go/token"
	"go/types"
	"sort"
	"strings"

	"golang.org/x/tools/go/ssa"
)

func init() { register("C07", checkC07) }

func dnsPkgFuncs(w *World) []*ssa.Function {
	var out []*ssa.Function
	for _, fn := range sortedModuleFuncs(w, w.SSA()) {
		f := fn
		for f.Parent() != nil {
			f = f.Parent()
		}
		if f.Pkg != nil && strings.HasPrefix(f.Pkg.Pkg.Path(), modPath+"/internal/streams/dns") {
			out = append(out, fn)
		}
	}
	sort.Slice(out, func(i, j int) bool { return out[i].Pos() < out[j].Pos() })
	return out
}

func checkC07(w *World, r *Report) {
	r.Explanation = "Decides structural conditions without which the seq/ack design cannot be right for all histories: (R07.1) 16-bit sequence/ack numbers are used only through ==, !=, +/- constants, stores and calls — never ordered comparisons or widening — so the queue logic is invariant under rotation of the starting number, i.e. across the wrap; (R07.2) the bounded memory of acknowledged numbers evicts from the head (oldest first) and every append is followed on all paths by a bound that restores the limit; (R07.3) every mutex Lock in the DNS packages is released on every path (or deferred); (R07.4) closures run under a queue mutex perform no blocking channel operation; (R07.5) every packet request/response built for sending acknowledges in.NextSeqNo-1 of the sender's own in-queue and every receive path feeds the peer's ack to out.UpdateAcked and the payload to in.Append of the same endpoint; (R07.6) the chunking loop's stride is guaranteed positive; (R07.13) the consumers of decoded answers read their ack/payload/option fields only on the Err == nil edge (an error answer carries zero values: acting on them acknowledges packet 0). Not decided: delivery, retransmission convergence, duplicate suppression over real fault histories, liveness."
	r.NotDecided = []string{"delivery / retransmission convergence under loss histories", "successful write => delivered", "liveness once the path stops losing"}
	r.Trusted = []string{"sync.Mutex semantics", "uint16 arithmetic wraps"}
	r.Rule("R07.1", "sequence numbers are used only in wrap-safe ways", 6)
	r.Rule("R07.2", "ack memory is bounded and evicts oldest first", 2)
	r.Rule("R07.3", "every Lock is released on all paths", 10)
	r.Rule("R07.4", "no blocking channel operation in closures invoked under a mutex", 2)
	r.Rule("R07.5", "piggy-backed acknowledgements agree on both ends", 4)
	r.Rule("R07.6", "chunking stride is positive", 1)
	r.Rule("R07.7", "packets are released in order, once, each advancing the expected number by one", 3)
	r.Rule("R07.8", "outgoing packets are numbered consecutively under the mutex", 1)
	r.Rule("R07.9", "packets are retired only on a matching acknowledgement; the oldest is (re)sent first", 2)
	r.Rule("R07.10", "a write succeeds only after its packets were acknowledged", 1)
	r.Rule("R07.12", "the byte count of a write covers every chunk it queued", 1)
	r.Rule("R07.17", "a flag raised around a region is lowered on every path out of it", 1)
	r.Rule("R07.22", "the queues' waiters are woken only where the condition they wait for was just tested (any wake-up completes a blocked Write)", 1)
	c07WaitersWokenOnlyOnTheirCondition(w, r)
	r.Rule("R07.21", "when data arrives every registered reader is notified (a timed-out reader's notifier stays on the list by design)", 1)
	c07EveryWaiterIsWoken(w, r)
	r.Rule("R07.20", "a chunk the in-queue refuses leaves the queue as it was, and a refusal always depends on the chunk offered (no sticky failure)", 1)
	r.Rule("R07.19", "the retransmitting poller closes the connection only on an identity-tested verdict, never on accumulated transient failures", 2)
	r.Rule("R07.18", "every Unlock releases a mutex that is held on every path reaching it (unlock of an unlocked mutex is a fatal error)", 10)
	r.Rule("R07.16", "every lock-protected field of the tunnel's queues and connections is written under one and the same mutex everywhere", 3)
	r.Rule("R07.15", "mutexes of the DNS tunnel are acquired in one global order (no held-while-acquiring cycle)", 1)
	r.Rule("R07.14", "no function re-locks a mutex it already holds (queues, call mutex, user table)", 3)
	r.Rule("R07.13", "ack/payload fields of an answer that can carry an error reach the queues only where its Err is nil", 1)
	r.Rule("R07.11", "out-of-order packets are parked once: unseen, inside the window, remembered", 1)

	fns := dnsPkgFuncs(w)
	c07WrapSafe(w, r, fns)
	c07AckMemory(w, r)
	c07LockPairing(w, r, fns)
	c07Notifiers(w, r, fns)
	c07Piggyback(w, r)
	c07Stride(w, r)
	c07Bookkeeping(w, r)
	c07ErrGuardedFields(w, r)
	ruleFlagBrackets(w, r, "R07.17", func(p string) bool { return strings.HasPrefix(p, modPath+"/internal/streams/dns") }, "what tests the flag (the poller's retransmission of the queue head) stays switched off until some later call happens to lower it — a packet whose first transmission was lost is never sent again")
	ruleLocksetConsistent(w, r, "R07.16", func(p string) bool { return strings.HasPrefix(p, modPath+"/internal/streams/dns") }, "a Read overlapping an Append sees a torn buffer: bytes are delivered twice or an acknowledged packet is lost")
	ruleLockOrder(w, r, "R07.15", func(p string) bool { return strings.HasPrefix(p, modPath+"/internal/streams/dns") })
	ruleNoReentrantLock(w, r, "R07.14", func(p string) bool { return strings.HasPrefix(p, modPath+"/internal/streams/dns") })
	c07PollerClosesOnVerdictOnly(w, r)
	c07RefusedChunkLeavesQueueAlone(w, r)
	ruleUnlockHeld(w, r, "R07.18", func(p string) bool { return strings.HasPrefix(p, modPath+"/internal/streams/dns") })
}

// seqFields: struct fields of type uint16 that carry sequence numbers (by
// role: fields of util.Packet / InQueue / OutQueue / Packet{Request,Response}
// of type uint16 other than UserId, and the []uint16 ack lists).
func isSeqField(fv *types.Var) bool {
	if fv == nil || fv.Pkg() == nil || !strings.HasPrefix(fv.Pkg().Path(), modPath+"/internal/streams/dns") {
		return false
	}
	if b, ok := fv.Type().Underlying().(*types.Basic); ok && b.Kind() == types.Uint16 {
		return fv.Name() != "UserId" && fv.Name() != "userId"
	}
	if sl, ok := fv.Type().Underlying().(*types.Slice); ok {
		if b, ok := sl.Elem().Underlying().(*types.Basic); ok && b.Kind() == types.Uint16 {
			return fv.Name() == "acked"
		}
	}
	return false
}

func c07WrapSafe(w *World, r *Report, fns []*ssa.Function) { ruleWrapSafe(w, r, "R07.1", fns) }

func ruleWrapSafe(w *World, r *Report, rule string, fns []*ssa.Function) {
	// seed: loads of seq fields and elements of ack lists; propagate through phi, +/- const, uint16 parameters of
	// functions that receive a seq value
	// parameters that receive a sequence number (or a list of them) at some call site: `containsSeqNo(q.acked, n)`
	isU16 := func(v ssa.Value) bool {
		b, ok := v.Type().Underlying().(*types.Basic)
		return ok && b.Kind() == types.Uint16
	}
	isU16List := func(v ssa.Value) bool {
		sl, ok := v.Type().Underlying().(*types.Slice)
		if !ok {
			return false
		}
		b, ok := sl.Elem().Underlying().(*types.Basic)
		return ok && b.Kind() == types.Uint16
	}
	seqParam := map[*ssa.Parameter]bool{}
	for round := 0; round < 3; round++ {
		for _, g := range fns {
			for _, c := range callsIn(g) {
				sc := c.Common().StaticCallee()
				if sc == nil || !inModule(sc) || len(sc.Blocks) == 0 {
					continue
				}
				args := c.Common().Args
				for i, a := range args {
					if i >= len(sc.Params) || (!isU16(a) && !isU16List(a)) {
						continue
					}
					isSeq := false
					for _, root := range provenance(a, provOpts{}) {
						if fa := asFieldAddr(root); fa != nil && isSeqField(fieldVarOf(fa)) {
							isSeq = true
						}
						if u, ok := root.(*ssa.UnOp); ok {
							if fa, ok := u.X.(*ssa.FieldAddr); ok && isSeqField(fieldVarOf(fa)) {
								isSeq = true
							}
						}
						if p, ok := root.(*ssa.Parameter); ok && seqParam[p] {
							isSeq = true
						}
					}
					if isSeq {
						seqParam[sc.Params[i]] = true
					}
				}
			}
		}
	}
	for _, fn := range fns {
		seq := map[ssa.Value]bool{}
		for _, p := range fn.Params {
			if seqParam[p] && isU16(p) {
				seq[p] = true
			}
		}
		changed := true
		for changed {
			changed = false
			allInstrs(fn, func(in ssa.Instruction) {
				v, ok := in.(ssa.Value)
				if !ok || seq[v] || !isU16(v) {
					return
				}
				switch x := in.(type) {
				case *ssa.UnOp:
					if x.Op == token.MUL {
						if fa, ok := x.X.(*ssa.FieldAddr); ok && isSeqField(fieldVarOf(fa)) {
							seq[v] = true
							changed = true
						}
						if ia, ok := x.X.(*ssa.IndexAddr); ok {
							for _, root := range provenance(ia.X, provOpts{}) {
								if fa := asFieldAddr(root); fa != nil && isSeqField(fieldVarOf(fa)) {
									seq[v] = true
									changed = true
								}
								if p, ok := root.(*ssa.Parameter); ok && seqParam[p] {
									seq[v] = true
									changed = true
								}
							}
						}
					}
				case *ssa.Phi:
					for _, e := range x.Edges {
						if seq[e] {
							seq[v] = true
							changed = true
						}
					}
				case *ssa.BinOp:
					if (x.Op == token.ADD || x.Op == token.SUB) && (seq[x.X] || seq[x.Y]) {
						seq[v] = true
						changed = true
					}
				}
			})
		}
		if len(seq) == 0 {
			continue
		}
		bad := ""
		uses := 0
		allInstrs(fn, func(in ssa.Instruction) {
			switch x := in.(type) {
			case *ssa.BinOp:
				if !seq[x.X] && !seq[x.Y] {
					return
				}
				uses++
				switch x.Op {
				case token.LSS, token.GTR, token.LEQ, token.GEQ:
					bad = fmt.Sprintf("%s: a sequence/ack number is compared with %s: after the 16-bit wrap the order is inverted and fresh packets look old", w.Pos(x.Pos()), x.Op)
				case token.MUL, token.QUO, token.REM, token.SHL, token.SHR:
					bad = fmt.Sprintf("%s: arithmetic %s on a sequence number is not rotation-invariant", w.Pos(x.Pos()), x.Op)
				}
			case *ssa.Convert:
				if !seq[x.X] {
					return
				}
				uses++
				if b, ok := x.Type().Underlying().(*types.Basic); ok && b.Info()&types.IsInteger != 0 && b.Kind() != types.Uint16 {
					// widening is harmless only when the result feeds formatting; flag arithmetic/comparison uses
					for _, ref := range *x.Referrers() {
						if bo, ok := ref.(*ssa.BinOp); ok {
							bad = fmt.Sprintf("%s: a sequence number is widened to %s and then used in %s: the wrap at 65536 is lost", w.Pos(bo.Pos()), b.Name(), bo.Op)
						}
					}
				}
			}
		})
		r.Check(bad == "", rule, "func:"+ssaFuncKey(fn)+"|seq-uses", w.Pos(fn.Pos()), fmt.Sprintf("%d arithmetic/comparison use(s) of sequence numbers, all ==, != or +/- constant", uses), bad, "seq_values", len(seq), "uses", uses)
	}
}

func c07AckMemory(w *World, r *Report) { ruleAckMemory(w, r, "R07.2") }

func ruleAckMemory(w *World, r *Report, rule string) {
	maxC, _ := w.Pkg("internal/streams/dns/util").Types.Scope().Lookup("MaxCachedChunks").(*types.Const)
	for _, tn := range []string{"InQueue", "OutQueue"} {
		n := w.Named("internal/streams/dns/util", tn)
		acked := fieldOf(n, "acked")
		key := "field:streams/dns/util." + tn + ".acked"
		if n == nil || acked == nil || maxC == nil {
			r.Undecided(rule, key, "-", "anchor unresolved")
			continue
		}
		if _, isMap := acked.Type().Underlying().(*types.Map); isMap {
			// a set of numbers: it must forget, too — sequence numbers come round again after 65536 chunks
			nIns, nDel := 0, 0
			at := ""
			for _, fn := range methodFuncsOf(w, n) {
				ofAcked := func(v ssa.Value) bool {
					for _, root := range provenance(v, provOpts{}) {
						if isLoadOfField(root, acked) {
							return true
						}
					}
					return false
				}
				allInstrs(fn, func(in ssa.Instruction) {
					switch x := in.(type) {
					case *ssa.MapUpdate:
						if ofAcked(x.Map) {
							nIns++
							at = w.Pos(x.Pos())
						}
					case *ssa.Call:
						if b, ok := x.Call.Value.(*ssa.Builtin); ok && (b.Name() == "delete" || b.Name() == "clear") && len(x.Call.Args) > 0 && ofAcked(x.Call.Args[0]) {
							nDel++
						}
					}
				})
			}
			switch {
			case nIns == 0:
				r.Check(false, rule, key, w.Pos(acked.Pos()), "", "the ack memory is never added to")
			case nDel == 0:
				r.Check(false, rule, key, w.Pos(acked.Pos()), "", fmt.Sprintf("%s: the ack memory is a set that only grows: sequence numbers are reused after 65536 chunks, so an acknowledgement remembered from the previous round retires the new chunk with that number before it was ever sent (silent loss in a long transfer)", at))
			default:
				r.Undecided(rule, key, w.Pos(acked.Pos()), "the ack memory is a map with deletions: oldest-first eviction under the bound is not decided for this representation")
			}
			continue
		}
		bad := ""
		nApp, nTrim := 0, 0
		for _, fn := range methodFuncsOf(w, n) {
			isTrim := func(in ssa.Instruction) bool {
				st, ok := in.(*ssa.Store)
				if !ok {
					return false
				}
				fa, ok := st.Addr.(*ssa.FieldAddr)
				if !ok || fieldVarOf(fa) != acked {
					return false
				}
				_, isSlice := st.Val.(*ssa.Slice)
				return isSlice
			}
			allInstrs(fn, func(in ssa.Instruction) {
				st, ok := in.(*ssa.Store)
				if !ok {
					return
				}
				fa, ok := st.Addr.(*ssa.FieldAddr)
				if !ok || fieldVarOf(fa) != acked {
					return
				}
				switch v := st.Val.(type) {
				case *ssa.Slice:
					nTrim++
					// must drop from the head: Low set, High unset (or == len)
					lowZero := v.Low == nil
					if z, isC := constIntVal(v.Low); v.Low != nil && isC && z == 0 {
						lowZero = true
					}
					if lowZero {
						bad = fmt.Sprintf("%s: the bounded ack memory is truncated with x[0:N]: it keeps the OLDEST numbers forever and forgets every newer one — after the 16-bit wrap those frozen numbers retire fresh packets unsent (silent loss)", w.Pos(st.Pos()))
					} else if v.High != nil {
						bad = fmt.Sprintf("%s: ack memory re-sliced with both bounds: not a plain oldest-first eviction", w.Pos(st.Pos()))
					}
				case *ssa.Call:
					if b, ok := v.Call.Value.(*ssa.Builtin); ok && b.Name() == "append" {
						nApp++
						// after the append, every path to return passes a trimming store guarded by the bound, or a call that does
						reachesTrim := func(in2 ssa.Instruction) bool {
							if isTrim(in2) {
								return true
							}
							if c, ok := in2.(ssa.CallInstruction); ok {
								if sc := c.Common().StaticCallee(); sc != nil && inModule(sc) {
									found := false
									allInstrs(sc, func(x ssa.Instruction) {
										if isTrim(x) {
											found = true
										}
									})
									return found
								}
							}
							return false
						}
						// the trim is conditional (if len > Max): accept "reaches the bound test": a comparison of len(acked) with MaxCachedChunks
						isBoundTest := func(in2 ssa.Instruction) bool {
							bo, ok := in2.(*ssa.BinOp)
							if !ok {
								return reachesTrim(in2)
							}
							for _, side := range []ssa.Value{bo.X, bo.Y} {
								if c, ok := side.(*ssa.Call); ok {
									if bi, ok := c.Call.Value.(*ssa.Builtin); ok && bi.Name() == "len" && isLoadOfField(c.Call.Args[0], acked) {
										return true
									}
								}
							}
							return false
						}
						isRet := func(in2 ssa.Instruction) bool { _, ok := in2.(*ssa.Return); return ok }
						if t := canReach(fn, st, isBoundTest, isRet); t != nil {
							// the bound may be applied by every caller after the helper returns
							obj := fnObj(fn)
							ncall, allBound := 0, true
							for _, caller := range methodFuncsOf(w, n) {
								for _, c := range callsIn(caller) {
									if obj == nil || sCallee(c) != obj {
										continue
									}
									ncall++
									isBT := func(in2 ssa.Instruction) bool {
										bo, ok := in2.(*ssa.BinOp)
										if !ok {
											return false
										}
										for _, side := range []ssa.Value{bo.X, bo.Y} {
											if cl, ok := side.(*ssa.Call); ok {
												if bi, ok := cl.Call.Value.(*ssa.Builtin); ok && bi.Name() == "len" && isLoadOfField(cl.Call.Args[0], acked) {
													return true
												}
											}
										}
										return false
									}
									// the bound may sit in a helper the caller runs (cleanAckedChunks), and may be run only where the
									// helper reports that it appended (`if q.recordAck(n) { q.cleanAckedChunks() }`)
									isBT2 := func(in2 ssa.Instruction) bool {
										if isBT(in2) {
											return true
										}
										if c2, ok := in2.(ssa.CallInstruction); ok {
											if sc := c2.Common().StaticCallee(); sc != nil && inModule(sc) && sc != fn {
												found := false
												allInstrs(sc, func(x ssa.Instruction) {
													if isBT(x) || isTrim(x) {
														found = true
													}
												})
												return found
											}
										}
										return false
									}
									// the constant the helper returns on the paths that pass the append (if it is one)
									var appendRet *bool
									consistent := true
									enumPaths(fn, nil, func(x ssa.Instruction) bool { return x == ssa.Instruction(st) }, nil, func(e pathExit) {
										ret, isR := e.Last.(*ssa.Return)
										if !isR || len(e.State.Events) == 0 {
											return
										}
										if len(ret.Results) != 1 {
											consistent = false
											return
										}
										b, isC := constBool(e.State.Resolve(ret.Results[0]))
										if !isC || (appendRet != nil && *appendRet != b) {
											consistent = false
											return
										}
										appendRet = &b
									})
									ci, _ := c.(ssa.Instruction)
									cv, _ := c.(ssa.Value)
									okc := enumPaths(caller, nil, func(x ssa.Instruction) bool { return x == ci || isBT2(x) }, nil, func(e pathExit) {
										if _, isR := e.Last.(*ssa.Return); !isR {
											return
										}
										// is there an execution of the helper that is not followed by the bound?
										pending := false
										for _, ev := range e.State.Events {
											if ev == ci {
												pending = true
											} else {
												pending = false
											}
										}
										if !pending {
											return
										}
										if consistent && appendRet != nil && cv != nil {
											if t, known := e.State.Truth(cv); known && t != *appendRet {
												return // the helper reported that nothing was appended
											}
										}
										allBound = false
									})
									if !okc {
										allBound = false
									}
								}
							}
							if ncall == 0 || !allBound {
								bad = fmt.Sprintf("%s: after this append to the ack memory a return (%s) is reachable without the bound being applied (here or in every caller): the list grows without limit on that path", w.Pos(st.Pos()), w.Pos(t.Pos()))
							}
						}
					}
				}
			})
			// the trim must restore the bound: either a loop or a slice expression x[len-Max:] ; a single x[1:] under `if` restores it only if every append path trims
		}
		if nApp == 0 {
			bad = "the ack memory is never appended to"
		}
		if nTrim == 0 && bad == "" {
			bad = "the ack memory is never bounded"
		}
		r.Check(bad == "", rule, key, w.Pos(acked.Pos()), fmt.Sprintf("%d append(s), each followed by the bound; %d eviction(s), all from the head", nApp, nTrim), bad, "appends", nApp, "evictions", nTrim)
	}
}

// c07LockPairing: A5a.
func c07LockPairing(w *World, r *Report, fns []*ssa.Function) { ruleLockPairing(w, r, "R07.3", fns) }

func ruleLockPairing(w *World, r *Report, rule string, fns []*ssa.Function) {
	for _, fn := range fns {
		ord := 0
		for _, c := range callsIn(fn) {
			call, ok := c.(*ssa.Call)
			if !ok {
				continue
			}
			f := sCallee(c)
			if !isMethod(f, "sync", "Mutex", "Lock") && !isMethod(f, "sync", "RWMutex", "Lock") && !isMethod(f, "sync", "RWMutex", "RLock") {
				continue
			}
			mu := call.Call.Args[0]
			name := "mutex"
			if fa, ok := mu.(*ssa.FieldAddr); ok {
				name = fieldVarOf(fa).Name()
			} else if u, ok := mu.(*ssa.UnOp); ok {
				if fa, ok := u.X.(*ssa.FieldAddr); ok {
					name = fieldVarOf(fa).Name()
				}
			}
			key := fmt.Sprintf("func:%s|lock:%s#%d", ssaFuncKey(fn), name, ord)
			ord++
			sameMutex := func(v ssa.Value) bool {
				if v == mu {
					return true
				}
				fa1, fa2 := asFieldAddr(v), asFieldAddr(mu)
				if fa1 != nil && fa2 != nil && fieldVarOf(fa1) == fieldVarOf(fa2) {
					return true
				}
				f1, ok1 := v.(*ssa.FieldAddr)
				f2, ok2 := mu.(*ssa.FieldAddr)
				return ok1 && ok2 && fieldVarOf(f1) == fieldVarOf(f2) && f1.X == f2.X
			}
			isUnlock := func(in ssa.Instruction) bool {
				if d, ok := in.(*ssa.Defer); ok {
					// passing a deferred Unlock guarantees the release at function exit
					uf := sCallee(d)
					return uf != nil && (uf.Name() == "Unlock" || uf.Name() == "RUnlock") && len(d.Call.Args) > 0 && sameMutex(d.Call.Args[0])
				}
				c2, ok := in.(*ssa.Call)
				if !ok {
					return false
				}
				uf := sCallee(c2)
				return uf != nil && (uf.Name() == "Unlock" || uf.Name() == "RUnlock") && len(c2.Call.Args) > 0 && sameMutex(c2.Call.Args[0])
			}
			isExit := func(in ssa.Instruction) bool {
				switch in.(type) {
				case *ssa.Return:
					return true
				}
				return false
			}
			if t := canReach(fn, call, isUnlock, isExit); t != nil {
				r.Violate(rule, key, w.Pos(call.Pos()), fmt.Sprintf("the function can return at %s with %s still locked: every later caller blocks forever", w.Pos(t.Pos()), name))
			} else {
				r.Hold(rule, key, w.Pos(call.Pos()), "an Unlock (direct or deferred) lies on every path to every return")
			}
		}
	}
}

// c07Notifiers: closures stored into a []func() field that is ranged over and
// invoked while a mutex is held must not block on a channel.
func c07Notifiers(w *World, r *Report, fns []*ssa.Function) {
	// fields of type []func() invoked under lock
	invoked := map[*types.Var]string{}
	for _, fn := range fns {
		region, _ := lockRegion(fn, func(v ssa.Value) bool {
			_, ok := v.(*ssa.FieldAddr)
			return ok
		})
		for _, c := range callsIn(fn) {
			cc := c.Common()
			if cc.IsInvoke() || cc.StaticCallee() != nil {
				continue
			}
			// the list whose element is called: a field, or a slice parameter that callers fill with a field's list
			// (`q.queueNotifiers = fireAll(q.queueNotifiers)`, called with the mutex held)
			for _, fld := range calledListFields(w, fns, fn, c) {
				if region[c] || fld.underLockAtCaller {
					invoked[fld.f] = w.Pos(c.Pos())
				}
			}
		}
	}
	for _, fn := range fns {
		allInstrs(fn, func(in ssa.Instruction) {
			st, ok := in.(*ssa.Store)
			if !ok {
				return
			}
			fa, ok := st.Addr.(*ssa.FieldAddr)
			if !ok {
				return
			}
			fld := fieldVarOf(fa)
			where, isInv := invoked[fld]
			if !isInv {
				return
			}
			// closures appended
			var cands []ssa.Value
			cands = append(cands, rootsOf(w, st.Val)...)
			if c, ok := st.Val.(*ssa.Call); ok {
				if b, ok := c.Call.Value.(*ssa.Builtin); ok && b.Name() == "append" {
					for _, a := range c.Call.Args[1:] {
						cands = append(cands, rootsOf(w, a)...)
					}
				}
			}
			for _, root := range cands {
				mc, ok := root.(*ssa.MakeClosure)
				if !ok {
					continue
				}
				cf := mc.Fn.(*ssa.Function)
				key := fmt.Sprintf("closure:%s->%s.%s", ssaFuncKey(cf), recvNameOfField(fa), fld.Name())
				bad := ""
				allInstrs(cf, func(x ssa.Instruction) {
					switch y := x.(type) {
					case *ssa.Send:
						capv, known := chanCapacity(mc, cf, y.Chan)
						if !known || capv == 0 {
							bad = fmt.Sprintf("%s: the closure sends on an unbuffered channel; it is invoked at %s while the queue mutex is held — when the waiter has already given up (deadline) nobody receives and the queue is wedged with the mutex held", w.Pos(y.Pos()), where)
						}
					case *ssa.UnOp:
						if y.Op == token.ARROW {
							bad = fmt.Sprintf("%s: the closure receives from a channel while a mutex is held", w.Pos(y.Pos()))
						}
					case *ssa.Select:
						if y.Blocking {
							bad = fmt.Sprintf("%s: blocking select in a closure invoked under a mutex", w.Pos(y.Pos()))
						}
					}
				})
				r.Check(bad == "", "R07.4", key, w.Pos(cf.Pos()), "closure invoked under the mutex cannot block (buffered send / no channel operation)", bad)
			}
		})
	}
}

func recvNameOfField(fa *ssa.FieldAddr) string {
	t := fa.X.Type()
	if p, ok := t.(*types.Pointer); ok {
		t = p.Elem()
	}
	if n, ok := t.(*types.Named); ok {
		return n.Obj().Name()
	}
	return t.String()
}

// chanCapacity resolves the capacity of a channel used inside a closure
// (captured variable) to the constant size of its make(chan) in the parent.
func chanCapacity(mc *ssa.MakeClosure, cf *ssa.Function, ch ssa.Value) (int64, bool) {
	resolve := func(v ssa.Value) (int64, bool) {
		if mk, ok := v.(*ssa.MakeChan); ok {
			return constIntVal(mk.Size)
		}
		return 0, false
	}
	if c, ok := resolve(ch); ok {
		return c, true
	}
	// load of a free variable
	if u, ok := ch.(*ssa.UnOp); ok {
		if fv, ok := u.X.(*ssa.FreeVar); ok {
			for i, f := range cf.FreeVars {
				if f == fv && i < len(mc.Bindings) {
					for _, st := range storesTo(mc.Bindings[i]) {
						if c, ok := resolve(st.Val); ok {
							return c, true
						}
					}
				}
			}
		}
	}
	if fv, ok := ch.(*ssa.FreeVar); ok {
		for i, f := range cf.FreeVars {
			if f == fv && i < len(mc.Bindings) {
				return resolve(mc.Bindings[i])
			}
		}
	}
	return 0, false
}

func c07Piggyback(w *World, r *Report) {
	inQ := w.Named("internal/streams/dns/util", "InQueue")
	nextSeq := fieldOf(inQ, "NextSeqNo")
	upd := w.Method("internal/streams/dns/util", "OutQueue", "UpdateAcked")
	app := w.Method("internal/streams/dns/util", "InQueue", "Append")
	if nextSeq == nil || upd == nil || app == nil {
		r.Undecided("R07.5", "anchor", "-", "anchor unresolved: InQueue.NextSeqNo / OutQueue.UpdateAcked / InQueue.Append")
		return
	}
	// senders: stores into a LastAckedSeqNo field of PacketRequest / PacketResponse
	for _, spec := range [][3]string{{"ClientDnsConnection", "SendAndReceive", "PacketRequest"}, {"ServerDnsListener", "packet", "PacketResponse"}} {
		fn := w.SSAFunc(w.Method("internal/streams/dns", spec[0], spec[1]))
		key := "method:(*streams/dns." + spec[0] + ")." + spec[1]
		if fn == nil {
			r.Undecided("R07.5", key, "-", "anchor unresolved")
			continue
		}
		msgT := w.Named("internal/streams/dns/commands", spec[2])
		ackF := fieldOf(msgT, "LastAckedSeqNo")
		nst := 0
		bad := ""
		var inOwner ssa.Value
		// the exchange may have been moved into a helper of the same package (a method of the endpoint or of the session object)
		entry := fn
		for _, g := range staticCone(entry, 2) {
			has := false
			allInstrs(g, func(in ssa.Instruction) {
				if st, ok := in.(*ssa.Store); ok {
					if fa, ok := st.Addr.(*ssa.FieldAddr); ok && fieldVarOf(fa) == ackF {
						has = true
					}
				}
			})
			if has && g.Pkg == entry.Pkg {
				fn = g
				break
			}
		}
		allInstrs(fn, func(in ssa.Instruction) {
			st, ok := in.(*ssa.Store)
			if !ok {
				return
			}
			fa, ok := st.Addr.(*ssa.FieldAddr)
			if !ok || fieldVarOf(fa) != ackF {
				return
			}
			nst++
			// value must be (load in.NextSeqNo) - 1
			bo, ok := st.Val.(*ssa.BinOp)
			okv := false
			if ok && bo.Op == token.SUB {
				if c, isC := constIntVal(bo.Y); isC && c == 1 && isLoadOfField(bo.X, nextSeq) {
					okv = true
					if fa2 := asFieldAddr(bo.X); fa2 != nil {
						inOwner = fa2.X
					}
				}
			}
			if !okv {
				bad = fmt.Sprintf("%s: the acknowledgement sent is not <own in-queue>.NextSeqNo - 1 (acknowledging a packet that was not received yet makes the peer retire it unsent; acknowledging too little only costs a retransmission)", w.Pos(st.Pos()))
			}
		})
		if nst == 0 {
			bad = "the outgoing packet message never carries an acknowledgement"
		}
		r.Check(bad == "", "R07.5", key+"|send-ack", w.Pos(fn.Pos()), "outgoing ack = in.NextSeqNo - 1", bad)

		// receive side: UpdateAcked(msg.LastAckedSeqNo) and Append(msg.Packet) on the same endpoint's queues
		var updCall, appCall *ssa.Call
		var recvFn *ssa.Function // the function (fn or a helper method it calls) that consumes the answer
		for _, g := range staticCone(fn, 2) {
			var u, a *ssa.Call
			for _, c := range callsIn(g) {
				if call, ok := c.(*ssa.Call); ok {
					if sCallee(c) == upd {
						u = call
					}
					if sCallee(c) == app {
						a = call
					}
				}
			}
			if u != nil && a != nil && updCall == nil {
				updCall, appCall, recvFn = u, a, g
			}
		}
		bad = ""
		if updCall == nil || appCall == nil {
			bad = "the receive path does not feed the peer's acknowledgement to out.UpdateAcked and the payload to in.Append"
		} else {
			// args come from the peer's message
			fromMsgField := func(v ssa.Value, name string) bool {
				fa := asFieldAddr(v)
				return fa != nil && fieldVarOf(fa) != nil && fieldVarOf(fa).Name() == name
			}
			if !fromMsgField(updCall.Call.Args[1], "LastAckedSeqNo") {
				bad = fmt.Sprintf("%s: UpdateAcked is not given the peer's LastAckedSeqNo", w.Pos(updCall.Pos()))
			}
			if !fromMsgField(appCall.Call.Args[1], "Packet") {
				bad = fmt.Sprintf("%s: Append is not given the peer's Packet", w.Pos(appCall.Pos()))
			}
			// same endpoint object: the queues' owners agree with the owner of the in-queue acknowledged above
			owner := func(v ssa.Value) ssa.Value {
				if fa, ok := v.(*ssa.FieldAddr); ok {
					return fa.X
				}
				return nil
			}
			o1, o2 := owner(updCall.Call.Args[0]), owner(appCall.Call.Args[0])
			if o1 == nil || o2 == nil || o1 != o2 {
				bad = "out.UpdateAcked and in.Append are applied to queues of different endpoint objects"
			} else if inOwner != nil && recvFn == fn {
				if fa, ok := inOwner.(*ssa.FieldAddr); ok && fa.X != o2 {
					bad = "the acknowledged in-queue and the queue fed by Append belong to different endpoint objects"
				}
			} else if recvFn != fn {
				// consumed in a helper: the helper works on its own receiver, and fn calls it on the endpoint whose in-queue it acknowledged
				if len(recvFn.Params) == 0 || o2 != ssa.Value(recvFn.Params[0]) {
					bad = "the helper that consumes the answer applies it to queues that are not its receiver's"
				}
				okCall := false
				for _, c := range callsIn(fn) {
					if c.Common().StaticCallee() == recvFn && len(c.Common().Args) > 0 {
						if fa, ok := inOwner.(*ssa.FieldAddr); ok && fa.X == c.Common().Args[0] {
							okCall = true
						}
						if inOwner == nil {
							okCall = true
						}
					}
				}
				if !okCall && bad == "" {
					bad = "the helper that consumes the answer is not called on the endpoint whose in-queue was acknowledged"
				}
			}
		}
		r.Check(bad == "", "R07.5", key+"|recv-ack", w.Pos(fn.Pos()), "peer's ack -> out.UpdateAcked, peer's packet -> in.Append, same endpoint", bad)
	}
}

func c07Stride(w *World, r *Report) {
	m := w.Method("internal/streams/dns/util", "OutQueue", "Write")
	fn := w.SSAFunc(m)
	key := "method:(*streams/dns/util.OutQueue).Write|stride"
	if fn == nil || len(fn.Params) < 3 {
		r.Undecided("R07.6", key, "-", "anchor unresolved")
		return
	}
	mtu := fn.Params[2]
	// a loop whose body re-slices b by mtu: must be dominated by a positivity test on mtu
	var loopSlice ssa.Instruction
	allInstrs(fn, func(in ssa.Instruction) {
		if sl, ok := in.(*ssa.Slice); ok {
			for _, v := range []ssa.Value{sl.Low, sl.High} {
				if v == nil {
					continue
				}
				for _, root := range provenance(v, provOpts{}) {
					if root == ssa.Value(mtu) && cycleThrough(in.Block()) != nil {
						loopSlice = in
					}
				}
			}
		}
	})
	if loopSlice == nil {
		r.Hold("R07.6", key, w.Pos(m.Pos()), "no loop strides by the mtu parameter")
		return
	}
	isPos := func(v ssa.Value) (bool, bool) { // returns (isTest, truthMeaningPositive)
		b, ok := v.(*ssa.BinOp)
		if !ok {
			return false, false
		}
		var other ssa.Value
		flip := false
		if b.X == ssa.Value(mtu) {
			other = b.Y
		} else if b.Y == ssa.Value(mtu) {
			other = b.X
			flip = true
		} else {
			return false, false
		}
		c, isC := constIntVal(other)
		if !isC {
			return false, false
		}
		op := b.Op
		if flip {
			switch op {
			case token.LSS:
				op = token.GTR
			case token.GTR:
				op = token.LSS
			case token.LEQ:
				op = token.GEQ
			case token.GEQ:
				op = token.LEQ
			}
		}
		switch {
		case op == token.EQL && c == 0:
			return true, false // true edge means zero
		case op == token.NEQ && c == 0:
			return true, true
		case op == token.GTR && c >= 0:
			return true, true
		case op == token.GEQ && c >= 1:
			return true, true
		case op == token.LSS && c >= 1 || op == token.LEQ && c >= 0:
			return true, false
		}
		return false, false
	}
	guarded := false
	for _, b := range fn.Blocks {
		if len(b.Instrs) == 0 {
			continue
		}
		ifi, ok := b.Instrs[len(b.Instrs)-1].(*ssa.If)
		if !ok {
			continue
		}
		core, neg := stripNot(ifi.Cond)
		isT, truePos := isPos(core)
		if !isT {
			continue
		}
		posEdge := 0
		if truePos == neg {
			posEdge = 1
		}
		if edgeDominates(b, posEdge, loopSlice.Block()) {
			guarded = true
		}
	}
	r.Check(guarded, "R07.6", key, w.Pos(loopSlice.Pos()), "the chunking loop runs only where mtu > 0 was established",
		"the chunking loop advances by mtu without any guarantee that mtu > 0: with fragment size 0 (accepted from the peer's set-options request) the loop appends empty chunks forever")
}

// ---------------------------------------------------------------- R07.7..R07.10
// Bookkeeping facts of the two queues that every history relies on.

func c07Bookkeeping(w *World, r *Report) {
	inQ := w.Named("internal/streams/dns/util", "InQueue")
	outQ := w.Named("internal/streams/dns/util", "OutQueue")
	pkt := w.Named("internal/streams/dns/util", "Packet")
	if inQ == nil || outQ == nil || pkt == nil {
		r.Undecided("R07.7", "anchor", "-", "anchor unresolved: InQueue/OutQueue/Packet")
		return
	}
	inNext, outNext := fieldOf(inQ, "NextSeqNo"), fieldOf(outQ, "NextSeqNo")
	inBuf := fieldOf(inQ, "in")
	seqF, dataF := fieldOf(pkt, "SeqNo"), fieldOf(pkt, "Data")

	// R07.7 appendPacket: exactly one "+1" store to NextSeqNo and one append of the packet's Data to the input buffer, on every path
	if fn := w.SSAFunc(methodOf(inQ, "appendPacket")); fn == nil {
		r.Undecided("R07.7", "method:(*streams/dns/util.InQueue).appendPacket", "-", "anchor unresolved")
	} else {
		isEv := func(in ssa.Instruction) bool {
			st, ok := in.(*ssa.Store)
			if !ok {
				return false
			}
			fa, ok := st.Addr.(*ssa.FieldAddr)
			return ok && (fieldVarOf(fa) == inNext || fieldVarOf(fa) == inBuf)
		}
		bad := ""
		n := 0
		enumPaths(fn, nil, isEv, nil, func(e pathExit) {
			if _, ok := e.Last.(*ssa.Return); !ok {
				return
			}
			n++
			incs, apps := 0, 0
			for _, ev := range e.State.Events {
				st := ev.(*ssa.Store)
				fv := fieldVarOf(st.Addr.(*ssa.FieldAddr))
				if fv == inNext {
					bo, ok := st.Val.(*ssa.BinOp)
					c, isC := int64(0), false
					if ok {
						c, isC = constIntVal(bo.Y)
					}
					if ok && bo.Op == token.ADD && isC && c == 1 && isLoadOfField(bo.X, inNext) {
						incs++
					} else {
						bad = fmt.Sprintf("%s: the expected sequence number is not advanced by exactly one", w.Pos(st.Pos()))
					}
				} else {
					// append(q.in, val.Data...)
					okApp := false
					if c, ok := st.Val.(*ssa.Call); ok {
						if b, ok := c.Call.Value.(*ssa.Builtin); ok && b.Name() == "append" && isLoadOfField(c.Call.Args[0], inBuf) && isLoadOfField(c.Call.Args[1], dataF) {
							okApp = true
						}
					}
					if okApp {
						apps++
					} else {
						bad = fmt.Sprintf("%s: the input buffer is not extended by exactly the packet's data", w.Pos(st.Pos()))
					}
				}
			}
			if incs != 1 || apps != 1 {
				bad = fmt.Sprintf("a path through appendPacket advances the expected number %d time(s) and appends data %d time(s) (want 1 and 1)", incs, apps)
			}
		})
		r.Check(bad == "" && n > 0, "R07.7", "method:(*streams/dns/util.InQueue).appendPacket", w.Pos(fn.Pos()), "each released packet appends exactly its data and advances the expected number by one", bad)
	}
	// R07.7b: appendPacket is called only under SeqNo == NextSeqNo of the very packet (in Append or its helpers)
	if appendFn := w.SSAFunc(methodOf(inQ, "Append")); appendFn != nil {
		ap := methodOf(inQ, "appendPacket")
		isAcked := methodOf(inQ, "isAcked")
		bad := ""
		dupBad := ""
		n := 0
		// the already-seen test in Append
		var ackCall ssa.Instruction
		for _, c := range callsIn(appendFn) {
			if sCallee(c) == isAcked {
				ackCall = c
			}
		}
		notSeen := func(in ssa.Instruction) bool {
			return ackCall != nil && dominatedByCond(appendFn, in, func(v ssa.Value) bool { return v == ackCall.(ssa.Value) }, false)
		}
		for i := 0; i < inQ.NumMethods(); i++ {
			fn := w.SSAFunc(inQ.Method(i))
			if fn == nil {
				continue
			}
			for _, c := range callsIn(fn) {
				if sCallee(c) != ap {
					continue
				}
				n++
				arg := c.Common().Args[1]
				guard := func(v ssa.Value) bool {
					b, ok := v.(*ssa.BinOp)
					if !ok || b.Op != token.EQL {
						return false
					}
					for _, pr := range [][2]ssa.Value{{b.X, b.Y}, {b.Y, b.X}} {
						fa := asFieldAddr(pr[0])
						if fa != nil && fieldVarOf(fa) == seqF && isLoadOfField(pr[1], inNext) {
							if fa.X == arg {
								return true
							}
							for _, r1 := range provenance(fa.X, provOpts{}) {
								for _, r2 := range provenance(arg, provOpts{}) {
									if r1 == r2 {
										return true
									}
								}
							}
						}
					}
					return false
				}
				if !dominatedByCond(fn, c, guard, true) {
					bad = fmt.Sprintf("%s: a packet is released to the reader without its number being compared equal to the expected one", w.Pos(c.Pos()))
				}
				// duplicate suppression: directly in Append, or through the helper's call site in Append
				if fn == appendFn {
					if !notSeen(c) {
						dupBad = fmt.Sprintf("%s: a packet can be released although its number is in the acknowledged list (duplicates are delivered twice)", w.Pos(c.Pos()))
					}
				} else {
					obj := fnObj(fn)
					found := false
					for _, c2 := range callsIn(appendFn) {
						if sCallee(c2) == obj {
							found = true
							if !notSeen(c2) {
								dupBad = fmt.Sprintf("%s: the release helper runs on a path where the already-seen test did not fail", w.Pos(c2.Pos()))
							}
						}
					}
					if !found {
						dupBad = fmt.Sprintf("%s: packets are released from %s, which Append does not call under its already-seen test", w.Pos(c.Pos()), ssaFuncKey(fn))
					}
				}
			}
		}
		r.Check(bad == "" && n >= 2, "R07.7", "method:(*streams/dns/util.InQueue).Append|in-order-release", w.Pos(appendFn.Pos()), fmt.Sprintf("%d release site(s), each under packet.SeqNo == NextSeqNo", n), bad+mapStr(n < 2, "expected the direct and the out-of-order release sites"))
		r.Check(dupBad == "" && ackCall != nil, "R07.7", "method:(*streams/dns/util.InQueue).Append|duplicate-suppression", w.Pos(appendFn.Pos()), "every release is on the not-already-acknowledged edge", dupBad+mapStr(ackCall == nil, "Append never consults the acknowledged list"))
	}

	// R07.11 / R12.6: a packet parked out of order is inside the window, not yet seen, and is remembered as seen on the same path
	if fn := w.SSAFunc(methodOf(inQ, "Append")); fn != nil {
		c07Parked(w, r, "R07.11", fn, inQ)
	}

	// R07.8 numbering: SeqNo of a new packet is NextSeqNo, then NextSeqNo += 1, both under the mutex — in
	// whichever method of OutQueue does it
	{
		bad := ""
		assigned, inc := false, false
		for _, fn := range sortedModuleFuncs(w, w.SSA()) {
			if ownerNamed(fn) != outQ {
				continue
			}
			region, _ := lockRegion(fn, func(v ssa.Value) bool { _, ok := v.(*ssa.FieldAddr); return ok })
			allInstrs(fn, func(in ssa.Instruction) {
				st, ok := in.(*ssa.Store)
				if !ok {
					return
				}
				fa, ok := st.Addr.(*ssa.FieldAddr)
				if !ok {
					return
				}
				switch fieldVarOf(fa) {
				case seqF:
					if isLoadOfField(st.Val, outNext) {
						assigned = true
					} else {
						bad = fmt.Sprintf("%s: a new packet is not numbered with the queue's next sequence number", w.Pos(st.Pos()))
					}
					if !region[in] {
						bad = fmt.Sprintf("%s: packet numbering happens outside the queue mutex", w.Pos(st.Pos()))
					}
					if ld, ok := st.Val.(ssa.Instruction); ok && !region[ld] {
						bad = fmt.Sprintf("%s: the next sequence number is read outside the queue mutex: two concurrent writers can be given the same number", w.Pos(ld.Pos()))
					}
				case outNext:
					bo, ok := st.Val.(*ssa.BinOp)
					c, isC := int64(0), false
					if ok {
						c, isC = constIntVal(bo.Y)
					}
					if ok && bo.Op == token.ADD && isC && c == 1 && isLoadOfField(bo.X, outNext) {
						inc = true
					} else {
						bad = fmt.Sprintf("%s: the next sequence number is not advanced by exactly one", w.Pos(st.Pos()))
					}
					if !region[in] {
						bad = fmt.Sprintf("%s: the next sequence number is advanced outside the queue mutex", w.Pos(st.Pos()))
					}
				}
			})
		}
		r.Check(bad == "" && assigned && inc, "R07.8", "type:streams/dns/util.OutQueue|numbering", "-", "new packet gets NextSeqNo, NextSeqNo advances by one, both under the mutex", bad+mapStr(!assigned || !inc, "numbering or increment not found"))
	}

	// R07.9 a packet is removed from the out-queue only when its number equals an acknowledged one (in
	// cleanAckedChunks or a helper it hands the acknowledged number to); NextChunk returns the oldest
	{
		outF := fieldOf(outQ, "out")
		ackedF := fieldOf(outQ, "acked")
		bad := ""
		n := 0
		isAckElem := func(x ssa.Value) bool {
			for _, root := range provenance(x, provOpts{}) {
				u, ok := root.(*ssa.UnOp)
				if !ok {
					continue
				}
				if ia, ok := u.X.(*ssa.IndexAddr); ok {
					for _, r2 := range provenance(ia.X, provOpts{}) {
						if isLoadOfField(r2, ackedF) {
							return true
						}
					}
				}
			}
			return false
		}
		for _, fn := range sortedModuleFuncs(w, w.SSA()) {
			if ownerNamed(fn) != outQ {
				continue
			}
			allInstrs(fn, func(in ssa.Instruction) {
				st, ok := in.(*ssa.Store)
				if !ok {
					return
				}
				fa, ok := st.Addr.(*ssa.FieldAddr)
				if !ok || fieldVarOf(fa) != outF {
					return
				}
				// a removal by filtering: `keep := out[:0]; for each c { if !acknowledged(c.SeqNo) { keep = append(keep, c) } }; out = keep`
				if keeps := filterKeepAppends(st.Val, outF); len(keeps) > 0 {
					n++
					for _, kp := range keeps {
						okf := false
						for _, b := range fn.Blocks {
							ifi, ok := b.Instrs[len(b.Instrs)-1].(*ssa.If)
							if !ok {
								continue
							}
							core, neg := stripNot(ifi.Cond)
							mentionsSeq, mentionsAck := condMentions(core, seqF, ackedF)
							if !mentionsSeq || !mentionsAck {
								continue
							}
							// `acked[c.SeqNo]` (a set lookup): the packet is kept where the lookup says false
							if lk, isLk := core.(*ssa.Lookup); isLk && !lk.CommaOk {
								keepEdge := 1
								if neg {
									keepEdge = 0
								}
								if edgeDominates(b, keepEdge, kp.Block()) {
									okf = true
								}
								continue
							}
							if edgeDominates(b, 0, kp.Block()) || edgeDominates(b, 1, kp.Block()) {
								okf = true
							}
						}
						if !okf {
							bad = fmt.Sprintf("%s: the out-queue is filtered, but a packet is kept or dropped without a test of its number against the acknowledged numbers", w.Pos(kp.Pos()))
						}
					}
					return
				}
				// a removal: append(out[a:b], out[c:]...) — both operands are re-slices of the queue
				call, ok := st.Val.(*ssa.Call)
				if !ok {
					return
				}
				bi, ok := call.Call.Value.(*ssa.Builtin)
				if !ok || bi.Name() != "append" || len(call.Call.Args) != 2 {
					return
				}
				fromOut := func(v ssa.Value) bool {
					sl, ok := v.(*ssa.Slice)
					if !ok {
						return false
					}
					for _, root := range provenance(sl.X, provOpts{}) {
						if isLoadOfField(root, outF) {
							return true
						}
					}
					return false
				}
				if !fromOut(call.Call.Args[0]) || !fromOut(call.Call.Args[1]) {
					return
				}
				n++
				okg := false
				for _, b := range fn.Blocks {
					if len(b.Instrs) == 0 {
						continue
					}
					ifi, ok := b.Instrs[len(b.Instrs)-1].(*ssa.If)
					if !ok {
						continue
					}
					bo, ok := ifi.Cond.(*ssa.BinOp)
					if !ok || bo.Op != token.EQL || !edgeDominates(b, 0, st.Block()) {
						continue
					}
					isSeq := func(x ssa.Value) bool { fa := asFieldAddr(x); return fa != nil && fieldVarOf(fa) == seqF }
					for _, pair := range [][2]ssa.Value{{bo.X, bo.Y}, {bo.Y, bo.X}} {
						if !isSeq(pair[0]) {
							continue
						}
						if isAckElem(pair[1]) {
							okg = true
						}
						if prm, ok := pair[1].(*ssa.Parameter); ok {
							// every caller passes an acknowledged number
							idx := -1
							for k, q := range fn.Params {
								if q == prm {
									idx = k
								}
							}
							ncall, all := 0, true
							for _, caller := range sortedModuleFuncs(w, w.SSA()) {
								for _, c := range callsIn(caller) {
									if c.Common().StaticCallee() == fn && idx >= 0 && idx < len(c.Common().Args) {
										ncall++
										if !isAckElem(c.Common().Args[idx]) {
											all = false
										}
									}
								}
							}
							if ncall > 0 && all {
								okg = true
							}
						}
					}
				}
				if !okg {
					// the position comes from a search helper: `p := q.pendingIndex(a); if p < 0 { continue }; out = append(out[0:p], out[p+1:]...)`
					if sl, ok := call.Call.Args[0].(*ssa.Slice); ok && sl.High != nil {
						for _, root := range provenance(sl.High, provOpts{}) {
							hc, ok := root.(*ssa.Call)
							if !ok {
								continue
							}
							h := hc.Call.StaticCallee()
							if h == nil || !inModule(h) || len(h.Blocks) == 0 {
								continue
							}
							// every non-constant result of the helper is returned under SeqNo == parameter; constants are negative
							helperOK, prm := true, -1
							allInstrs(h, func(in ssa.Instruction) {
								ret, isRet := in.(*ssa.Return)
								if !isRet || len(ret.Results) != 1 {
									return
								}
								if k, isC := constIntVal(ret.Results[0]); isC {
									if k >= 0 {
										helperOK = false
									}
									return
								}
								found := false
								for _, b := range h.Blocks {
									ifi, ok := b.Instrs[len(b.Instrs)-1].(*ssa.If)
									if !ok {
										continue
									}
									bo, ok := ifi.Cond.(*ssa.BinOp)
									if !ok || bo.Op != token.EQL || !edgeDominates(b, 0, ret.Block()) {
										continue
									}
									for _, pair := range [][2]ssa.Value{{bo.X, bo.Y}, {bo.Y, bo.X}} {
										fa := asFieldAddr(pair[0])
										if fa == nil || fieldVarOf(fa) != seqF {
											continue
										}
										// the element compared is the one whose index is returned
										idxOK := false
										for _, r2 := range provenance(fa.X, provOpts{}) {
											if u, ok := r2.(*ssa.UnOp); ok {
												if ia, ok := u.X.(*ssa.IndexAddr); ok && ia.Index == ret.Results[0] {
													idxOK = true
												}
											}
										}
										if pi := paramIndex(h, pair[1]); pi >= 0 && idxOK {
											found, prm = true, pi
										}
									}
								}
								if !found {
									helperOK = false
								}
							})
							if !helperOK || prm < 0 || prm >= len(hc.Call.Args) || !isAckElem(hc.Call.Args[prm]) {
								continue
							}
							// and the removal runs only where the search found something
							nonNeg := false
							for _, b := range fn.Blocks {
								ifi, ok := b.Instrs[len(b.Instrs)-1].(*ssa.If)
								if !ok {
									continue
								}
								bo, ok := ifi.Cond.(*ssa.BinOp)
								if !ok || bo.X != ssa.Value(hc) {
									continue
								}
								k, isC := constIntVal(bo.Y)
								if !isC {
									continue
								}
								switch {
								case bo.Op == token.LSS && k == 0 && edgeDominates(b, 1, st.Block()),
									bo.Op == token.GEQ && k == 0 && edgeDominates(b, 0, st.Block()),
									bo.Op == token.GTR && k == -1 && edgeDominates(b, 0, st.Block()),
									bo.Op == token.NEQ && k == -1 && edgeDominates(b, 0, st.Block()),
									bo.Op == token.EQL && k == -1 && edgeDominates(b, 1, st.Block()):
									nonNeg = true
								}
							}
							if nonNeg {
								okg = true
							}
						}
					}
				}
				if !okg {
					bad = fmt.Sprintf("%s: a packet is removed from the out-queue without its number being equal to an acknowledged number", w.Pos(st.Pos()))
				}
			})
		}
		r.Check(bad == "" && n > 0, "R07.9", "type:streams/dns/util.OutQueue|retire", "-", fmt.Sprintf("%d removal(s), each under packet.SeqNo == an acknowledged number", n), bad+mapStr(n == 0, "no removal from the out-queue found: acknowledged packets are never retired"))
	}
	if fn := w.SSAFunc(methodOf(outQ, "NextChunk")); fn != nil {
		outF := fieldOf(outQ, "out")
		bad := ""
		n := 0
		allInstrs(fn, func(in ssa.Instruction) {
			ret, ok := in.(*ssa.Return)
			if !ok || isConstNil(ret.Results[0]) {
				return
			}
			n++
			// every non-nil origin of the result — through a helper such as firstPending() — is out[0]
			okr, nroots := true, 0
			roots := provInter(ret.Results[0], 0)
			for i := 0; i < len(roots) && i < 32; i++ {
				// a result variable that the critical section (a function literal) assigns
				if u, ok := roots[i].(*ssa.UnOp); ok {
					if cell, ok := u.X.(*ssa.Alloc); ok {
						for _, v := range capturedCellStores(cell) {
							roots = append(roots, provInter(v, 0)...)
						}
						roots[i] = ssa.NewConst(nil, ret.Results[0].Type())
					}
				}
			}
			for _, root := range roots {
				if isConstNil(root) {
					continue
				}
				nroots++
				isHead := false
				if u, ok := root.(*ssa.UnOp); ok {
					if ia, ok := u.X.(*ssa.IndexAddr); ok && isLoadOfField(ia.X, outF) {
						if z, isC := constIntVal(ia.Index); isC && z == 0 {
							isHead = true
						}
					}
				}
				if !isHead {
					okr = false
				}
			}
			if nroots == 0 {
				okr = false
			}
			if !okr {
				bad = fmt.Sprintf("%s: NextChunk does not return the oldest unacknowledged packet (out[0])", w.Pos(ret.Pos()))
			}
		})
		r.Check(bad == "" && n > 0, "R07.9", "method:(*streams/dns/util.OutQueue).NextChunk|oldest-first", w.Pos(fn.Pos()), "returns out[0], the oldest unacknowledged packet", bad)
	}

	// R07.12 Write: the byte count returned covers exactly the chunks handed to addChunk (a queued chunk is
	// retransmitted until acknowledged even when its first transmission failed, so it must be reported as accepted)
	if fn := w.SSAFunc(methodOf(outQ, "Write")); fn != nil {
		add := methodOf(outQ, "addChunk")
		isLenAdd := func(in ssa.Instruction) (ssa.Value, bool) {
			bo, ok := in.(*ssa.BinOp)
			if !ok || bo.Op != token.ADD {
				return nil, false
			}
			for _, side := range []ssa.Value{bo.X, bo.Y} {
				if c, ok := side.(*ssa.Call); ok {
					if bi, ok := c.Call.Value.(*ssa.Builtin); ok && bi.Name() == "len" {
						return c.Call.Args[0], true
					}
				}
			}
			return nil, false
		}
		bad := ""
		npaths := 0
		okp := enumPaths(fn, nil, func(in ssa.Instruction) bool {
			if c, ok := in.(ssa.CallInstruction); ok && sCallee(c) == add {
				return true
			}
			_, isAdd := isLenAdd(in)
			return isAdd
		}, nil, func(e pathExit) {
			ret, ok := e.Last.(*ssa.Return)
			if !ok {
				return
			}
			var pending ssa.Value // data of a queued chunk not yet counted
			var lastAdd ssa.Value
			queued := 0
			for _, ev := range e.State.Events {
				if c, ok := ev.(ssa.CallInstruction); ok && sCallee(c) == add {
					if pending != nil {
						bad = fmt.Sprintf("%s: a second chunk is queued before the first was added to the byte count", w.Pos(ev.Pos()))
					}
					pending = e.State.Resolve(c.Common().Args[1])
					queued++
					continue
				}
				if d, ok := isLenAdd(ev); ok && pending != nil && e.State.Resolve(d) == pending {
					pending = nil
					lastAdd = ev.(ssa.Value)
				}
			}
			if queued == 0 {
				return
			}
			npaths++
			if pending != nil {
				bad = fmt.Sprintf("%s: Write can return without counting a chunk it has already queued: the chunk is still retransmitted and delivered, a writer that resumes after the short count sends it again (the peer reads it twice)", w.Pos(ret.Pos()))
				return
			}
			if rv := e.State.Resolve(ret.Results[0]); lastAdd != nil && rv != lastAdd {
				bad = fmt.Sprintf("%s: the count returned is not the running total of the queued chunks", w.Pos(ret.Pos()))
			}
		})
		if !okp {
			r.Undecided("R07.12", "method:(*streams/dns/util.OutQueue).Write|count", w.Pos(fn.Pos()), "path budget exceeded")
		} else {
			r.Check(bad == "" && npaths > 0, "R07.12", "method:(*streams/dns/util.OutQueue).Write|count", w.Pos(fn.Pos()), fmt.Sprintf("%d returning path(s) that queued chunks: the count covers every queued chunk", npaths), bad)
		}
	}

	// R07.10 Write: a nil error is returned only as the result of waiting for the queue to drain
	if fn := w.SSAFunc(methodOf(outQ, "Write")); fn != nil {
		wait := methodOf(outQ, "waitEmptyQueue")
		bad := ""
		n := 0
		enumPaths(fn, nil, func(in ssa.Instruction) bool {
			c, ok := in.(ssa.CallInstruction)
			return ok && (sCallee(c) == wait || sCallee(c) == methodOf(outQ, "addChunk"))
		}, nil, func(e pathExit) {
			ret, ok := e.Last.(*ssa.Return)
			if !ok {
				return
			}
			errv := e.State.Resolve(ret.Results[1])
			if isNil, known := e.State.NilKnown(errv); known && !isNil {
				return
			}
			// possibly-success return: if any chunk was added, the last event must be the drain wait and the error returned is its result
			added := false
			var last ssa.Instruction
			for _, ev := range e.State.Events {
				if sCallee(ev.(ssa.CallInstruction)) != wait {
					added = true
				}
				last = ev
			}
			if !added {
				return
			}
			n++
			if last == nil || sCallee(last.(ssa.CallInstruction)) != wait {
				bad = "Write can report success right after queueing chunks, without waiting until they were acknowledged"
				return
			}
			if lv, ok := last.(ssa.Value); !ok || errv != lv {
				bad = "Write does not return the result of waiting for the acknowledgements"
			}
		})
		r.Check(bad == "" && n > 0, "R07.10", "method:(*streams/dns/util.OutQueue).Write|acked-before-success", w.Pos(fn.Pos()), fmt.Sprintf("%d path(s) that queued data return the result of waitEmptyQueue()", n), bad)
	}
}

// c07Parked: every growth of the out-of-order store happens (a) on the
// not-already-seen edge, (b) inside the acceptance window, and (c) on a path
// that also records the packet's number in the acknowledged list — otherwise a
// repeated out-of-order packet is parked again and again (unbounded memory per
// message, and stale copies are injected as data after the 16-bit wrap).
func c07Parked(w *World, r *Report, rule string, fn *ssa.Function, inQ *types.Named) {
	future, acked := fieldOf(inQ, "future"), fieldOf(inQ, "acked")
	pkt := w.Named("internal/streams/dns/util", "Packet")
	seqF := fieldOf(pkt, "SeqNo")
	isAcked := methodOf(inQ, "isAcked")
	key := "method:(*streams/dns/util.InQueue).Append|parked-packets"
	if future == nil || acked == nil || seqF == nil {
		r.Undecided(rule, key, "-", "anchor unresolved")
		return
	}
	isGrowth := func(in ssa.Instruction) bool {
		st, ok := in.(*ssa.Store)
		if !ok {
			return false
		}
		fa, ok := st.Addr.(*ssa.FieldAddr)
		if !ok || fieldVarOf(fa) != future {
			return false
		}
		c, ok := st.Val.(*ssa.Call)
		if !ok {
			return false
		}
		b, ok := c.Call.Value.(*ssa.Builtin)
		if !ok || b.Name() != "append" || !isLoadOfField(c.Call.Args[0], future) {
			return false
		}
		// removal idiom append(future[0:i], future[i+1:]...) is not growth
		if sl, ok := c.Call.Args[1].(*ssa.Slice); ok {
			if isLoadOfField(sl.X, future) {
				return false
			}
		}
		if sl, ok := c.Call.Args[0].(*ssa.Slice); ok && isLoadOfField(sl.X, future) {
			return false
		}
		return true
	}
	isAckAppend := func(in ssa.Instruction) bool {
		st, ok := in.(*ssa.Store)
		if !ok {
			return false
		}
		fa, ok := st.Addr.(*ssa.FieldAddr)
		if !ok || fieldVarOf(fa) != acked {
			return false
		}
		c, ok := st.Val.(*ssa.Call)
		if !ok {
			return false
		}
		b, ok := c.Call.Value.(*ssa.Builtin)
		return ok && b.Name() == "append"
	}
	bad := ""
	ngrow := 0
	okp := enumPaths(fn, nil, func(in ssa.Instruction) bool { return isGrowth(in) || isAckAppend(in) }, nil, func(e pathExit) {
		if _, ok := e.Last.(*ssa.Return); !ok {
			return
		}
		grew, remembered := false, false
		for _, ev := range e.State.Events {
			if isGrowth(ev) {
				grew = true
			}
			if isAckAppend(ev) {
				// the appended element is the parked packet's number
				c := ev.(*ssa.Store).Val.(*ssa.Call)
				for _, root := range rootsOf(w, c.Call.Args[1]) {
					if fa := asFieldAddr(root); fa != nil && fieldVarOf(fa) == seqF {
						if _, isParam := fa.X.(*ssa.Parameter); isParam {
							remembered = true
						}
					}
				}
			}
		}
		if !grew {
			return
		}
		ngrow++
		if !remembered {
			bad = "a packet is parked out of order on a path that does not record its number as seen: every repeat of that packet is parked again (memory grows per message; stale copies are delivered as data after the sequence number wraps)"
		}
		seen, known := false, false
		for v, t := range e.State.Facts {
			if c, ok := v.(*ssa.Call); ok && sCallee(c) == isAcked {
				seen, known = seen || t, true
			}
		}
		if !known || seen {
			bad = "a packet is parked out of order without the already-seen test having failed"
		}
		for _, ev := range e.State.Events {
			if !isGrowth(ev) {
				continue
			}
			isBoolPhi := func(v ssa.Value) bool {
				if c, ok := v.(*ssa.Call); ok {
					// window test extracted into a helper: bool result, argument = the packet's number
					if sc := c.Call.StaticCallee(); sc != nil && inModule(sc) {
						if bt, ok := c.Type().Underlying().(*types.Basic); ok && bt.Kind() == types.Bool {
							for _, a := range c.Call.Args {
								if fa := asFieldAddr(a); fa != nil && fieldVarOf(fa) == seqF {
									return true
								}
							}
						}
					}
					return false
				}
				ph, ok := v.(*ssa.Phi)
				if !ok {
					return false
				}
				bt, ok := ph.Type().Underlying().(*types.Basic)
				return ok && bt.Kind() == types.Bool
			}
			if !dominatedByCond(fn, ev, isBoolPhi, true) {
				bad = "a packet is parked out of order without the acceptance-window test having succeeded"
			}
		}
	})
	if !okp {
		r.Undecided(rule, key, w.Pos(fn.Pos()), "path budget exceeded")
		return
	}
	r.Check(bad == "" && ngrow > 0, rule, key, w.Pos(fn.Pos()), fmt.Sprintf("%d parking path(s): not seen before, inside the window, remembered as seen", ngrow), bad+mapStr(ngrow == 0, "no parking path found"))
}

// c07ErrGuardedFields: R07.13 — command answers that can carry an error (a
// struct of package commands with an `Err error` field) leave every other
// field zero when Err is set. Where such a field feeds the seq/ack queues it
// may be read only with Err == nil established (edge dominance).
func c07ErrGuardedFields(w *World, r *Report) {
	errGuardedFieldReads(w, r, "R07.13", "queue", "an error answer carries zero values, so this acknowledges / appends packet 0 of a refused exchange: the packet numbered 0 is dropped unsent (or a nil packet appended)")
}

// errGuardedFieldReads finds, in the DNS tunnel's consumers of decoded
// answers, every read of a non-Err field of an Err-bearing answer struct whose
// value flows into the given kind of sink ("queue": a method of
// util.InQueue/OutQueue; "session-id": a store to the client's user id) and
// requires the read to lie on the Err == nil edge of a test of that answer.
func errGuardedFieldReads(w *World, r *Report, rule, sink, consequence string) {
	cmds := w.Pkg("internal/streams/dns/commands")
	if cmds == nil {
		r.Undecided(rule, "anchor", "-", "package commands not found")
		return
	}
	errIdx := map[*types.Named]int{}
	sc := cmds.Types.Scope()
	for _, nm := range sc.Names() {
		tn, ok := sc.Lookup(nm).(*types.TypeName)
		if !ok {
			continue
		}
		n, ok := tn.Type().(*types.Named)
		if !ok {
			continue
		}
		st, ok := n.Underlying().(*types.Struct)
		if !ok || st.NumFields() < 2 {
			continue
		}
		for i := 0; i < st.NumFields(); i++ {
			if st.Field(i).Name() == "Err" && types.Identical(st.Field(i).Type(), types.Universe.Lookup("error").Type()) {
				errIdx[n] = i
			}
		}
	}
	if len(errIdx) == 0 {
		r.Undecided(rule, "anchor", "-", "no answer type with an Err field found")
		return
	}
	inQ, outQ := w.Named("internal/streams/dns/util", "InQueue"), w.Named("internal/streams/dns/util", "OutQueue")
	reaches := func(v ssa.Value) bool {
		seen := map[ssa.Value]bool{}
		var walk func(v ssa.Value, d int) bool
		walk = func(v ssa.Value, d int) bool {
			if seen[v] || d > 6 || v.Referrers() == nil {
				return false
			}
			seen[v] = true
			for _, ref := range *v.Referrers() {
				switch x := ref.(type) {
				case ssa.CallInstruction:
					if sink == "queue" {
						if f := sCallee(x); f != nil {
							if rn := recvNamed(f); rn != nil && (rn == inQ || rn == outQ) {
								return true
							}
						}
					}
				case *ssa.Store:
					if sink == "session-id" && x.Val == v {
						if fa := asFieldAddr(x.Addr); fa != nil {
							if fv := fieldVarOf(fa); fv != nil && strings.EqualFold(fv.Name(), "userId") {
								return true
							}
						}
					}
				}
				if val, ok := ref.(ssa.Value); ok {
					switch ref.(type) {
					case *ssa.Convert, *ssa.ChangeType, *ssa.Phi, *ssa.MakeInterface, *ssa.BinOp:
						if walk(val, d+1) {
							return true
						}
					}
				}
			}
			return false
		}
		return walk(v, 0)
	}
	type site struct {
		bad []string
		n   int
		pos string
	}
	sites := map[string]*site{}
	for _, fn := range sortedModuleFuncs(w, w.SSA()) {
		f0 := fn
		for f0.Parent() != nil {
			f0 = f0.Parent()
		}
		if f0.Pkg == nil || f0.Pkg.Pkg.Path() != modPath+"/internal/streams/dns" {
			continue
		}
		allInstrs(fn, func(in ssa.Instruction) {
			fa, ok := in.(*ssa.FieldAddr)
			if !ok {
				return
			}
			pt, ok := fa.X.Type().Underlying().(*types.Pointer)
			if !ok {
				return
			}
			n, ok := pt.Elem().(*types.Named)
			if !ok {
				return
			}
			ei, has := errIdx[n]
			if !has || fa.Field == ei {
				return
			}
			if _, isAlloc := fa.X.(*ssa.Alloc); isAlloc {
				return // built here, not a decoded answer
			}
			flows := false
			for _, ref := range *fa.Referrers() {
				if u, ok := ref.(*ssa.UnOp); ok && u.Op == token.MUL && reaches(u) {
					flows = true
				}
			}
			if !flows {
				return
			}
			key := "consumer:" + ssaFuncKey(fn) + "|" + n.Obj().Name()
			s := sites[key]
			if s == nil {
				s = &site{pos: w.Pos(fn.Pos())}
				sites[key] = s
			}
			s.n++
			isErrTest := func(v ssa.Value) bool {
				x, _, ok := nilTest(v)
				if !ok {
					return false
				}
				u, ok := x.(*ssa.UnOp)
				if !ok {
					return false
				}
				efa, ok := u.X.(*ssa.FieldAddr)
				return ok && efa.Field == ei && efa.X == fa.X
			}
			if !dominatedByCondNil(fn, in, isErrTest) {
				fname := n.Underlying().(*types.Struct).Field(fa.Field).Name()
				s.bad = append(s.bad, fmt.Sprintf("%s: %s.%s is consumed without Err == nil being established: %s", w.Pos(fa.Pos()), n.Obj().Name(), fname, consequence))
			}
		})
	}
	if len(sites) == 0 {
		r.Undecided(rule, "consumer:*", "-", "no consumer of an answer field feeding the "+sink+" found (anchor moved?)")
	}
	for key, s := range sites {
		sort.Strings(s.bad)
		r.Check(len(s.bad) == 0, rule, key, s.pos, fmt.Sprintf("%d field read(s) feeding the %s, all on the Err == nil edge", s.n, sink), strings.Join(s.bad, "; "))
	}
}

// c07PollerClosesOnVerdictOnly: R07.19 — the background poller is the only thing that retransmits a queued
// chunk, and closing the connection drops what is queued. Inside every background loop of the client that
// drives SendAndReceive, a close of the connection must be control-dependent on an error IDENTITY test of the
// exchange's result — against a sentinel the server reports (BadConn ...) or against the previous round's
// error value. Transport failures are fresh values on every round: under an identity test they never add up;
// under a comparison of messages or causes a short outage closes the tunnel and loses accepted data.
func c07PollerClosesOnVerdictOnly(w *World, r *Report) {
	cdc := w.Named("internal/streams/dns", "ClientDnsConnection")
	sar := methodOf(cdc, "SendAndReceive")
	closeM := methodOf(cdc, "Close")
	if cdc == nil || sar == nil || closeM == nil {
		r.Undecided("R07.19", "anchor", "-", "anchor unresolved: ClientDnsConnection.SendAndReceive / Close")
		return
	}
	closeFn := w.SSAFunc(closeM)
	closesConn := func(c ssa.CallInstruction) bool {
		if sCallee(c) == closeM {
			return true
		}
		sc := c.Common().StaticCallee()
		if sc == nil || !inModule(sc) || sc == closeFn {
			return false
		}
		for _, g := range staticCone(sc, 2) {
			if g == w.SSAFunc(sar) {
				return false // the exchange itself is not a close helper
			}
			for _, c2 := range callsIn(g) {
				if sCallee(c2) == closeM {
					return true
				}
			}
		}
		return false
	}
	n := 0
	for _, fn := range dnsPkgFuncs(w) {
		// background loops: functions started with `go` (closures or named) that call SendAndReceive inside a cycle
		var exch []*ssa.Call
		for _, c := range callsIn(fn) {
			if call, ok := c.(*ssa.Call); ok && sCallee(c) == sar && cycleThrough(call.Block()) != nil {
				exch = append(exch, call)
			}
		}
		if len(exch) == 0 || !startedWithGo(w, fn) {
			continue
		}
		for _, c := range callsIn(fn) {
			if _, isCall := c.(*ssa.Call); !isCall || !closesConn(c) {
				continue
			}
			n++
			key := fmt.Sprintf("close@%s#%d", ssaFuncKey(fn), n)
			at := c.(ssa.Instruction)
			identity := func(op token.Token) func(v ssa.Value) bool {
				return func(v ssa.Value) bool {
					b, ok := v.(*ssa.BinOp)
					if !ok || b.Op != op || !isErrorType(b.X.Type()) || !isErrorType(b.Y.Type()) {
						return false
					}
					for _, e := range exch {
						for _, side := range []ssa.Value{b.X, b.Y} {
							for _, root := range provenance(side, provOpts{}) {
								if root == ssa.Value(e) {
									return true
								}
							}
						}
					}
					return false
				}
			}
			// the verdict made by a helper that is handed the exchange's error: `failures.record(err)` answers true
			// only after an identity test of that error against the one remembered
			viaHelper := func(v ssa.Value) bool {
				hc, isCall := v.(*ssa.Call)
				if !isCall {
					return false
				}
				h := hc.Call.StaticCallee()
				if h == nil || !inModule(h) || len(h.Blocks) == 0 {
					return false
				}
				pi := -1
				for i, a := range hc.Call.Args {
					if !isErrorType(a.Type()) {
						continue
					}
					for _, e := range exch {
						for _, root := range provenance(a, provOpts{}) {
							if root == ssa.Value(e) {
								pi = i
							}
						}
					}
				}
				if pi < 0 || pi >= len(h.Params) {
					return false
				}
				isParam := func(x ssa.Value) bool {
					for _, root := range provenance(x, provOpts{}) {
						if root == ssa.Value(h.Params[pi]) {
							return true
						}
					}
					return false
				}
				return predicateHelperImplies(h, true, func(facts map[ssa.Value]bool) bool {
					for v2, t2 := range facts {
						b, isB := v2.(*ssa.BinOp)
						if !isB || !isErrorType(b.X.Type()) || !isErrorType(b.Y.Type()) {
							continue
						}
						if c, isC := b.X.(*ssa.Const); isC && c.IsNil() {
							continue
						}
						if c, isC := b.Y.(*ssa.Const); isC && c.IsNil() {
							continue
						}
						if (b.Op == token.EQL && t2 || b.Op == token.NEQ && !t2) && (isParam(b.X) || isParam(b.Y)) {
							return true
						}
					}
					return false
				})
			}
			ok := dominatedByCond(fn, at, identity(token.EQL), true) || dominatedByCond(fn, at, identity(token.NEQ), false) || dominatedByCond(fn, at, viaHelper, true)
			r.Check(ok, "R07.19", key, w.Pos(c.Pos()), "the close depends on an identity test of the exchange's error (a sentinel from the server, or the very same error value as the round before)",
				"the background poller can close the connection without an identity test of the exchange's error: failures that are a fresh value every round (time-outs, refused sockets) add up to a close, and the chunk that was accepted and is waiting for retransmission is dropped — 'once the path stops losing, everything accepted arrives' no longer holds")
		}
	}
	if n == 0 {
		r.Hold("R07.19", "close:none", "-", "no background loop of the client that drives SendAndReceive closes the connection")
	}
}

// startedWithGo: fn (or a closure nested in it is not considered) is the target of a go statement somewhere in the module.
func startedWithGo(w *World, fn *ssa.Function) bool {
	for _, g := range sortedModuleFuncs(w, w.SSA()) {
		for _, c := range callsIn(g) {
			gs, ok := c.(*ssa.Go)
			if !ok {
				continue
			}
			if gs.Call.StaticCallee() == fn {
				return true
			}
			if mc, ok := gs.Call.Value.(*ssa.MakeClosure); ok && mc.Fn == ssa.Value(fn) {
				return true
			}
		}
	}
	return false
}

// pkgFuncs: the functions (closures included) of the module packages whose path has one of the given suffixes.
func pkgFuncs(w *World, suffixes ...string) []*ssa.Function {
	var out []*ssa.Function
	for _, fn := range sortedModuleFuncs(w, w.SSA()) {
		f := fn
		for f.Parent() != nil {
			f = f.Parent()
		}
		if f.Pkg == nil {
			continue
		}
		for _, sfx := range suffixes {
			if strings.HasSuffix(f.Pkg.Pkg.Path(), sfx) {
				out = append(out, fn)
			}
		}
	}
	sort.Slice(out, func(i, j int) bool {
		if out[i].Pos() != out[j].Pos() {
			return out[i].Pos() < out[j].Pos()
		}
		return out[i].String() < out[j].String()
	})
	return out
}

type calledList struct {
	f                 *types.Var
	underLockAtCaller bool
}

// calledListFields: c is a dynamic call `list[i]()` in fn. Which struct fields can `list` be? Directly a field
// load, or a slice parameter of fn that some caller (among fns) fills from a field — then also whether that call
// site lies in a lock region of the caller.
func calledListFields(w *World, fns []*ssa.Function, fn *ssa.Function, c ssa.CallInstruction) []calledList {
	var out []calledList
	for _, root := range provenance(c.Common().Value, provOpts{}) {
		u, ok := root.(*ssa.UnOp)
		if !ok {
			continue
		}
		ia, ok := u.X.(*ssa.IndexAddr)
		if !ok {
			continue
		}
		for _, r2 := range provenance(ia.X, provOpts{}) {
			if fa := asFieldAddr(r2); fa != nil {
				out = append(out, calledList{f: fieldVarOf(fa)})
			}
			if p, ok := r2.(*ssa.Parameter); ok && p.Parent() == fn {
				idx := paramIndex(fn, p)
				for _, g := range fns {
					var region map[ssa.Instruction]bool
					for _, c2 := range callsIn(g) {
						if c2.Common().StaticCallee() != fn || idx < 0 || idx >= len(c2.Common().Args) {
							continue
						}
						if region == nil {
							region, _ = lockRegion(g, func(v ssa.Value) bool { _, ok := v.(*ssa.FieldAddr); return ok })
						}
						for _, r3 := range provenance(c2.Common().Args[idx], provOpts{}) {
							if fa := asFieldAddr(r3); fa != nil {
								out = append(out, calledList{f: fieldVarOf(fa), underLockAtCaller: region[c2.(ssa.Instruction)]})
							}
						}
					}
				}
			}
		}
	}
	return out
}

// filterKeepAppends: v is the result of the filter idiom over the slice field f — `keep := f[:0]` extended by
// single-element appends. Returns those appends (nil if v is something else).
func filterKeepAppends(v ssa.Value, f *types.Var) []*ssa.Call {
	var keeps []*ssa.Call
	base := false
	seen := map[ssa.Value]bool{}
	var walk func(x ssa.Value, d int)
	walk = func(x ssa.Value, d int) {
		if x == nil || seen[x] || d > 12 {
			return
		}
		seen[x] = true
		switch y := x.(type) {
		case *ssa.Phi:
			for _, e := range y.Edges {
				walk(e, d+1)
			}
		case *ssa.Call:
			if b, ok := y.Call.Value.(*ssa.Builtin); ok && b.Name() == "append" && len(y.Call.Args) == 2 {
				keeps = append(keeps, y)
				walk(y.Call.Args[0], d+1)
			}
		case *ssa.Slice:
			if h, ok := constIntVal(y.High); ok && y.High != nil && h == 0 {
				for _, root := range provenance(y.X, provOpts{}) {
					if isLoadOfField(root, f) {
						base = true
					}
				}
			}
		}
	}
	walk(v, 0)
	if !base {
		return nil
	}
	return keeps
}

// condMentions: does the backward slice of cond (through operands and the arguments of static calls, bounded) read
// the fields a and b?
func condMentions(cond ssa.Value, a, b *types.Var) (ma, mb bool) {
	seen := map[ssa.Value]bool{}
	var walk func(v ssa.Value, d int)
	walk = func(v ssa.Value, d int) {
		if v == nil || seen[v] || d > 10 {
			return
		}
		seen[v] = true
		if fa, ok := v.(*ssa.FieldAddr); ok {
			if fieldVarOf(fa) == a {
				ma = true
			}
			if fieldVarOf(fa) == b {
				mb = true
			}
		}
		if c, ok := v.(*ssa.Call); ok {
			if g := c.Call.StaticCallee(); g != nil && inModule(g) {
				allInstrs(g, func(in ssa.Instruction) {
					if fa, ok := in.(*ssa.FieldAddr); ok {
						if fieldVarOf(fa) == a {
							ma = true
						}
						if fieldVarOf(fa) == b {
							mb = true
						}
					}
				})
			}
		}
		if in, ok := v.(ssa.Instruction); ok {
			for _, op := range in.Operands(nil) {
				if *op != nil {
					walk(*op, d+1)
				}
			}
		}
	}
	walk(cond, 0)
	return
}

// methodFuncsOf: the declared methods of n and the function literals inside them (critical sections written as
// closures belong to their method).
func methodFuncsOf(w *World, n *types.Named) []*ssa.Function {
	var out []*ssa.Function
	var add func(f *ssa.Function)
	add = func(f *ssa.Function) {
		out = append(out, f)
		for _, a := range f.AnonFuncs {
			add(a)
		}
	}
	for i := 0; i < n.NumMethods(); i++ {
		if fn := w.SSAFunc(n.Method(i)); fn != nil {
			add(fn)
		}
	}
	return out
}

// ownerNamed: the receiver type of the method fn is, or is a function literal of.
func ownerNamed(fn *ssa.Function) *types.Named {
	for fn != nil && fn.Parent() != nil {
		fn = fn.Parent()
	}
	if fn == nil {
		return nil
	}
	return recvNamed(fnObj(fn))
}

// capturedCellStores: the values stored into the local variable behind `cell` (an Alloc that function literals
// capture), in the function itself and in the literals.
func capturedCellStores(cell *ssa.Alloc) []ssa.Value {
	var out []ssa.Value
	if cell.Referrers() == nil {
		return nil
	}
	for _, ref := range *cell.Referrers() {
		switch x := ref.(type) {
		case *ssa.Store:
			if x.Addr == ssa.Value(cell) {
				out = append(out, x.Val)
			}
		case *ssa.MakeClosure:
			g, _ := x.Fn.(*ssa.Function)
			if g == nil {
				continue
			}
			for i, b := range x.Bindings {
				if b != ssa.Value(cell) || i >= len(g.FreeVars) {
					continue
				}
				fv := g.FreeVars[i]
				if fv.Referrers() == nil {
					continue
				}
				for _, r2 := range *fv.Referrers() {
					if st, ok := r2.(*ssa.Store); ok && st.Addr == ssa.Value(fv) {
						out = append(out, st.Val)
					}
				}
			}
		}
	}
	return out
}
