package main

// C08 — DNS codecs are lossless, alphabet-confined and bounded (structural
// part: alphabets, registry, symmetric delegation, substitution tables,
// written-length results).

import (
	"fmt"
	"go/ast"
	"go/constant"
	"go/token"
	"go/types"
	"math"
	"sort"
	"strings"

	"golang.org/x/tools/go/ssa"
)

func init() { register("C08", checkC08) }

type codecInfo struct {
	Type     *types.Named
	Global   *types.Var // package-level Encoder variable bound to this type
	Code     int64
	CodeOK   bool
	Alphabet string // constant alphabet handed to a NewEncoding constructor (if table driven)
	AlphaPos token.Pos
	EncObj   types.Object // package-level encoding object used by Encode
	DecObj   types.Object
}

func findCodecs(w *World) []codecInfo {
	p := w.Pkg("internal/util/enc")
	iface := w.Interface("internal/util/enc", "Encoder")
	if p == nil || iface == nil {
		return nil
	}
	// package-level vars -> initializer
	inits := map[types.Object]ast.Expr{}
	for _, f := range p.Syntax {
		for _, d := range f.Decls {
			gd, ok := d.(*ast.GenDecl)
			if !ok || gd.Tok != token.VAR {
				continue
			}
			for _, sp := range gd.Specs {
				vs := sp.(*ast.ValueSpec)
				for i, nm := range vs.Names {
					if i < len(vs.Values) {
						inits[p.TypesInfo.Defs[nm]] = vs.Values[i]
					}
				}
			}
		}
	}
	// alphabet of an encoding object: first constant string argument of a call named NewEncoding in its initializer
	alphabetOf := func(obj types.Object) (string, token.Pos) {
		e, ok := inits[obj]
		if !ok {
			return "", token.NoPos
		}
		var out string
		var pos token.Pos
		ast.Inspect(e, func(x ast.Node) bool {
			c, ok := x.(*ast.CallExpr)
			if !ok {
				return true
			}
			if f := calleeOf(p.TypesInfo, c); f != nil && f.Name() == "NewEncoding" && len(c.Args) > 0 {
				if s, ok := constStr(p.TypesInfo, c.Args[0]); ok {
					out, pos = s, c.Args[0].Pos()
				}
			}
			return true
		})
		return out, pos
	}
	var out []codecInfo
	for _, n := range w.Implementers(iface) {
		ci := codecInfo{Type: n}
		// global bound to this type
		for obj, e := range inits {
			v, ok := obj.(*types.Var)
			if !ok {
				continue
			}
			t := p.TypesInfo.TypeOf(e)
			if pt, ok := t.(*types.Pointer); ok && types.Identical(pt.Elem(), n) {
				ci.Global = v
			}
		}
		// Code()
		if fd := w.Decl(methodOf(n, "Code")); fd != nil {
			ast.Inspect(fd.Body, func(x ast.Node) bool {
				if rs, ok := x.(*ast.ReturnStmt); ok && len(rs.Results) == 1 {
					if v := constVal(p.TypesInfo, rs.Results[0]); v != nil {
						if iv, ok := constant.Int64Val(constant.ToInt(v)); ok {
							ci.Code, ci.CodeOK = iv, true
						}
					}
				}
				return true
			})
		}
		// package-level objects whose methods Encode/Decode call
		objOf := func(m string) types.Object {
			fd := w.Decl(methodOf(n, m))
			if fd == nil {
				return nil
			}
			var found types.Object
			ast.Inspect(fd.Body, func(x ast.Node) bool {
				// a method call obj.M(...) or a method value obj.M handed to a helper
				sel, ok := x.(*ast.SelectorExpr)
				if !ok {
					return true
				}
				{
					if id, ok := sel.X.(*ast.Ident); ok {
						if obj, ok := p.TypesInfo.Uses[id].(*types.Var); ok && obj.Parent() == p.Types.Scope() && isEncodingObject(obj.Type()) {
							found = obj
						}
					}
				}
				return true
			})
			return found
		}
		ci.EncObj, ci.DecObj = objOf("Encode"), objOf("Decode")
		if ci.EncObj != nil {
			ci.Alphabet, ci.AlphaPos = alphabetOf(ci.EncObj)
		}
		out = append(out, ci)
	}
	return out
}

func forbiddenDNSByte(b byte) bool {
	return b == '.' || b == '\\' || b == ' ' || b < 0x20 || b == 0x7f
}

func checkAlphabet(s string, radix int) string {
	if radix > 0 && len(s) != radix {
		return fmt.Sprintf("alphabet has %d symbols, radix is %d", len(s), radix)
	}
	seen := map[byte]int{}
	for i := 0; i < len(s); i++ {
		if j, dup := seen[s[i]]; dup {
			return fmt.Sprintf("symbol %q appears at positions %d and %d: two values encode to the same character, decoding is ambiguous", s[i], j, i)
		}
		seen[s[i]] = i
		if forbiddenDNSByte(s[i]) {
			return fmt.Sprintf("symbol %q (position %d) is not DNS-safe (dot, backslash, space or control character)", s[i], i)
		}
	}
	return ""
}

func caseFoldInjective(s string) bool {
	seen := map[string]bool{}
	for i := 0; i < len(s); i++ {
		k := strings.ToLower(string(s[i]))
		if seen[k] {
			return false
		}
		seen[k] = true
	}
	return true
}

func checkC08(w *World, r *Report) {
	r.Explanation = "Decides the table-level facts of the selectable codecs: (R08.1) every alphabet constant handed to a NewEncoding constructor, and every constant string indexed by data on an Encode path, has exactly radix-many pairwise distinct symbols none of which is a dot, backslash, space or control character; (R08.2) the registry used by FromCode lists every package-level codec, codes are pairwise distinct upper-case constants; (R08.3) Encode and Decode of a table-driven codec use the same encoding object; (R08.4) Base85's byte substitutions remove exactly the forbidden bytes ascii85 can emit, map them outside ascii85's alphabet, and Decode applies the inverse map; (R08.5) the written-length results of ascii85.Encode/Decode are used to cut the maximum-sized buffer. (R08.9) for every selectable codec whose output length is a function of the input length under the length abstraction A11 (lengths, counters and bit-window positions known, contents unknown: Base128, Raw), Decode accepts exactly the lengths Encode produces and returns the input length, and the output is at most ceil(n*Ratio())+1 long, for input lengths 0..64 and by the affine period of the abstract loop state beyond. Not decided — and this is most of the property: round-trip equality and expansion bounds of the hand-written bit packers (Base128, Base192) and of the arithmetic codecs."
	r.NotDecided = []string{"equality of the decoded contents for all inputs (R08.9 decides the length algebra of the hand-written packers only); Base192 (registered, never selected by this module, its own test disabled) is outside the claim", "Ratio() expansion bounds of codecs whose output length depends on the contents or on library code", "encoding/base32, base64, ascii85, mtraver/base91 library behaviour"}
	r.Trusted = []string{"encoding/base32, encoding/base64, encoding/ascii85, github.com/mtraver/base91 implement their alphabets faithfully", "ascii85 emits bytes '!'..'u' and 'z' only", "luci base128.DecodeString returns n*7/8 bytes and refuses n unless (n*7/8*8+6)/7 == n (transcribed from the library source as a length model)"}
	r.Rule("R08.1", "alphabets well-formed and DNS-safe", 5)
	r.Rule("R08.2", "codec registry complete; codes distinct, constant, upper-case", 9)
	r.Rule("R08.3", "Encode and Decode use the same encoding object", 4)
	r.Rule("R08.8", "Encode/Decode hand out memory of their own (not a pooled, global or cached buffer the next call overwrites)", 8)
	r.Rule("R08.4", "Base85 substitution table covers the forbidden bytes and is inverted by Decode", 1)
	r.Rule("R08.5", "written-length results are used", 2)
	r.Rule("R08.7", "ascii85.Decode has worst-case room or its consumed count is checked", 1)
	r.Rule("R08.6", "advertised expansion ratios are at least the information-theoretic minimum", 8)
	r.Rule("R08.9", "hand-written packers: Decode accepts exactly the lengths Encode produces and returns the input length (length abstraction A11)", 2)

	codecs := findCodecs(w)
	if len(codecs) == 0 {
		r.Undecided("R08.1", "anchor", "-", "anchor unresolved: enc.Encoder implementers")
		return
	}
	p := w.Pkg("internal/util/enc")
	radixOf := map[string]int{"encoding/base32": 32, "encoding/base64": 64, "github.com/mtraver/base91": 91}
	for _, ci := range codecs {
		if ci.Alphabet == "" {
			continue
		}
		radix := 0
		if v, ok := ci.EncObj.(*types.Var); ok {
			if pt, ok := v.Type().(*types.Pointer); ok {
				if n, ok := pt.Elem().(*types.Named); ok && n.Obj().Pkg() != nil {
					radix = radixOf[n.Obj().Pkg().Path()]
				}
			}
		}
		msg := checkAlphabet(ci.Alphabet, radix)
		r.Check(msg == "", "R08.1", "alphabet:"+qualName(ci.Type), w.Pos(ci.AlphaPos), fmt.Sprintf("%d distinct DNS-safe symbols (radix %d)", len(ci.Alphabet), radix), msg, "alphabet_len", len(ci.Alphabet))
	}
	// constant strings indexed by a non-constant on an Encode path (cb128)
	for _, f := range p.Syntax {
		for _, d := range f.Decls {
			fd, ok := d.(*ast.FuncDecl)
			if !ok || fd.Body == nil {
				continue
			}
			ast.Inspect(fd.Body, func(x ast.Node) bool {
				ie, ok := x.(*ast.IndexExpr)
				if !ok {
					return true
				}
				s, isConst := constStr(p.TypesInfo, ie.X)
				if !isConst || constVal(p.TypesInfo, ie.Index) != nil {
					return true
				}
				// only data-indexed tables: index type byte
				if bt, ok := p.TypesInfo.TypeOf(ie.Index).Underlying().(*types.Basic); !ok || bt.Kind() != types.Uint8 {
					return true
				}
				name := exprStr(ie.X)
				radix := 0
				if len(s) == 128 || len(s) == 192 || len(s) == 256 {
					radix = len(s)
				}
				msg := checkAlphabet(s, radix)
				// data-indexed: the table must cover every value the index can take in this codec (7-bit symbols -> 128)
				r.Check(msg == "", "R08.1", "table:"+name+"@"+fd.Name.Name, w.Pos(ie.Pos()), fmt.Sprintf("%d distinct DNS-safe symbols", len(s)), msg, "alphabet_len", len(s))
				return true
			})
		}
	}

	// ---------------------------------------------------------------- R08.2
	registry := codecRegistry(w)
	fromCode := w.Decl(w.Func("internal/util/enc", "FromCode"))
	if len(registry) == 0 {
		r.Undecided("R08.2", "func:enc.FromCode", "-", "registry literal not found in FromCode")
	}
	codes := map[int64]string{}
	for _, ci := range codecs {
		key := "codec:" + qualName(ci.Type)
		pos := w.Pos(ci.Type.Obj().Pos())
		var problems []string
		if ci.Global == nil {
			problems = append(problems, "no package-level Encoder variable is bound to this type")
		} else if !registry[ci.Global] {
			problems = append(problems, ci.Global.Name()+" is not in FromCode's registry: a peer's option request or the auto-detection can select it but the other end cannot apply it")
		}
		if !ci.CodeOK {
			problems = append(problems, "Code() does not return a constant")
		} else {
			if other, dup := codes[ci.Code]; dup {
				problems = append(problems, fmt.Sprintf("Code() %q is also used by %s", rune(ci.Code), other))
			}
			codes[ci.Code] = qualName(ci.Type)
			if ci.Code < 'A' || ci.Code > 'Z' {
				problems = append(problems, fmt.Sprintf("Code() %q is not an upper-case letter (FromCode upper-cases its input)", rune(ci.Code)))
			}
		}
		r.Check(len(problems) == 0, "R08.2", key, pos, fmt.Sprintf("registered, code %q", rune(ci.Code)), strings.Join(problems, "; "))
	}
	r.Check(len(registry) >= len(codecs), "R08.2", "func:enc.FromCode|complete", declPos(w, fromCode), fmt.Sprintf("registry lists %d codecs for %d implementations", len(registry), len(codecs)), fmt.Sprintf("registry lists %d codecs but %d implementations exist", len(registry), len(codecs)))

	// ---------------------------------------------------------------- R08.3
	for _, ci := range codecs {
		if ci.EncObj == nil && ci.DecObj == nil {
			continue
		}
		key := "codec:" + qualName(ci.Type) + "|same-object"
		r.Check(ci.EncObj == ci.DecObj, "R08.3", key, w.Pos(ci.Type.Obj().Pos()), "Encode and Decode both use "+objName(ci.EncObj),
			fmt.Sprintf("Encode uses %s but Decode uses %s: what one end encodes the other cannot decode", objName(ci.EncObj), objName(ci.DecObj)))
	}

	c08Base85(w, r)
	c08WrittenLen(w, r)
	c08LengthAlgebra(w, r)
	r.Rule("R08.12", "package-level codec tables are complete before any use (built by a package initialiser, or under sync.Once with every read after the Do): codecs run on many goroutines", 1)
	c08TablesCompleteBeforeUse(w, r)
	r.Rule("R08.11", "Encode and Decode never write into their argument", 14)
	c08CodecsLeaveTheirInputAlone(w, r)
	r.Rule("R08.10", "no codec takes a single Read of a stream decoder for the whole input", 1)
	ruleSingleReadIsNotFull(w, r, "R08.10", func(p string) bool { return strings.HasSuffix(p, "/internal/util/enc") || strings.HasPrefix(p, modPath+"/internal/streams/dns") })
	c08FreshResults(w, r, codecs)
	c08Ratios(w, r, codecs)
	c08DecodeRoom(w, r)
}

// linearInLen: v = a*len(src) + b (integers); ok=false when v is anything else.
func linearInLen(v ssa.Value, src ssa.Value, depth int) (a, b int64, ok bool) {
	return linearInLenEnv(v, src, nil, depth)
}

// linearInLenEnv: v as a*len(src)+b. env gives the forms of parameters when v lives in a sizing helper
// (`make([]byte, decodeBufferLen(len(source)))`): such a helper must return the same form on all its paths.
func linearInLenEnv(v ssa.Value, src ssa.Value, env map[ssa.Value][2]int64, depth int) (a, b int64, ok bool) {
	if depth > 8 {
		return 0, 0, false
	}
	if f, in := env[v]; in {
		return f[0], f[1], true
	}
	if c, isC := constIntVal(v); isC {
		return 0, c, true
	}
	if src != nil && isLenOf(v, src) {
		return 1, 0, true
	}
	if call, isCall := v.(*ssa.Call); isCall {
		if h := call.Call.StaticCallee(); h != nil && inModule(h) && len(h.Blocks) > 0 && len(h.Params) == len(call.Call.Args) {
			henv := map[ssa.Value][2]int64{}
			for i, arg := range call.Call.Args {
				if !isIntType(arg.Type()) {
					return 0, 0, false
				}
				a1, b1, ok1 := linearInLenEnv(arg, src, env, depth+1)
				if !ok1 {
					return 0, 0, false
				}
				henv[h.Params[i]] = [2]int64{a1, b1}
			}
			first := true
			for _, blk := range h.Blocks {
				ret, isRet := blk.Instrs[len(blk.Instrs)-1].(*ssa.Return)
				if !isRet {
					continue
				}
				if len(ret.Results) != 1 {
					return 0, 0, false
				}
				a1, b1, ok1 := linearInLenEnv(ret.Results[0], nil, henv, depth+1)
				if !ok1 || (!first && (a1 != a || b1 != b)) {
					return 0, 0, false
				}
				a, b, first = a1, b1, false
			}
			return a, b, !first
		}
	}
	if bo, isB := v.(*ssa.BinOp); isB {
		a1, b1, ok1 := linearInLenEnv(bo.X, src, env, depth+1)
		a2, b2, ok2 := linearInLenEnv(bo.Y, src, env, depth+1)
		if !ok1 || !ok2 {
			return 0, 0, false
		}
		switch bo.Op {
		case token.ADD:
			return a1 + a2, b1 + b2, true
		case token.SUB:
			return a1 - a2, b1 - b2, true
		case token.MUL:
			if a1 == 0 {
				return b1 * a2, b1 * b2, true
			}
			if a2 == 0 {
				return a1 * b2, b1 * b2, true
			}
		}
	}
	return 0, 0, false
}

// c08DecodeRoom: R08.7 — ascii85.Decode stops silently (nil error) as soon as
// fewer than 4 bytes of room are left, and one 'z' expands to 4 bytes: unless
// the consumed-count result is checked, the destination must have room for
// 4*len(src)+4 bytes.
func c08DecodeRoom(w *World, r *Report) { ruleAscii85Room(w, r, "R08.7") }

func ruleAscii85Room(w *World, r *Report, rule string) {
	for _, fn := range sortedModuleFuncs(w, w.SSA()) {
		for _, c := range callsIn(fn) {
			f := sCallee(c)
			if f == nil || f.Pkg() == nil || f.Pkg().Path() != "encoding/ascii85" || f.Name() != "Decode" {
				continue
			}
			call := c.(*ssa.Call)
			key := "call:ascii85.Decode@" + ssaFuncKey(fn) + "|room"
			// is nsrc (Extract #1) used?
			nsrcUsed := false
			for _, ref := range *call.Referrers() {
				if ex, ok := ref.(*ssa.Extract); ok && ex.Index == 1 && ex.Referrers() != nil && len(*ex.Referrers()) > 0 {
					nsrcUsed = true
				}
			}
			if nsrcUsed {
				r.Hold(rule, key, w.Pos(call.Pos()), "the number of consumed source bytes is inspected")
				continue
			}
			dst, src := call.Call.Args[0], call.Call.Args[1]
			if cycleThrough(call.Block()) != nil {
				// decoding a piece at a time is right only if the next piece starts where Decode stopped
				r.Check(false, rule, key, w.Pos(call.Pos()), "", "ascii85.Decode is applied to one window of the text after the other and the number of consumed characters is discarded: groups are not of one length ('z' stands for a whole group of four zero bytes in ONE character), so a fixed window cuts groups apart and every byte after the first 'z' decodes to something else — no error, different bytes")
				continue
			}
			okRoom := false
			why := "destination buffer size is not a linear function of len(source)"
			for _, root := range provenance(dst, provOpts{}) {
				if ms, ok := root.(*ssa.MakeSlice); ok {
					a, b, lin := linearInLen(ms.Len, src, 0)
					if lin {
						if a >= 4 && b >= 4 {
							okRoom = true
						} else {
							why = fmt.Sprintf("destination has %d*len(source)%+d bytes", a, b)
						}
					}
				}
			}
			r.Check(okRoom, rule, key, w.Pos(call.Pos()), "destination has room for 4*len(source)+4 bytes (worst case: every character a 'z' group)",
				why+": ascii85.Decode returns early with a nil error once fewer than 4 bytes of room are left and a single 'z' expands to four zero bytes, so inputs with zero groups decode to a silent prefix (the consumed-count result is discarded)")
		}
	}
}

// c08Ratios: R08.6 — the advertised expansion ratio cannot be below the
// information-theoretic minimum 8/log2(radix): size budgets computed from a
// smaller ratio overrun for almost every input.
func c08Ratios(w *World, r *Report, codecs []codecInfo) {
	p := w.Pkg("internal/util/enc")
	for _, ci := range codecs {
		key := "codec:" + qualName(ci.Type) + "|ratio"
		fd := w.Decl(methodOf(ci.Type, "Ratio"))
		nd := w.Decl(methodOf(ci.Type, "Name"))
		if fd == nil || nd == nil {
			r.Undecided("R08.6", key, "-", "Ratio()/Name() not found")
			continue
		}
		var ratio float64 = -1
		ast.Inspect(fd.Body, func(x ast.Node) bool {
			if rs, ok := x.(*ast.ReturnStmt); ok && len(rs.Results) == 1 {
				if v := constVal(p.TypesInfo, rs.Results[0]); v != nil {
					ratio, _ = constant.Float64Val(constant.ToFloat(v))
				}
			}
			return true
		})
		radix := 0
		if ci.Alphabet != "" {
			radix = len(ci.Alphabet)
		} else {
			ast.Inspect(nd.Body, func(x ast.Node) bool {
				if rs, ok := x.(*ast.ReturnStmt); ok && len(rs.Results) == 1 {
					if sname, ok := constStr(p.TypesInfo, rs.Results[0]); ok {
						n := 0
						for _, ch := range sname {
							if ch >= '0' && ch <= '9' {
								n = n*10 + int(ch-'0')
							}
						}
						radix = n
						if n == 0 {
							radix = 256 // raw
						}
					}
				}
				return true
			})
		}
		if ratio < 0 || radix < 2 {
			r.Undecided("R08.6", key, w.Pos(fd.Pos()), fmt.Sprintf("ratio %v / radix %d not constant", ratio, radix))
			continue
		}
		min := 8 / math.Log2(float64(radix))
		r.Check(ratio >= min-1e-9, "R08.6", key, w.Pos(fd.Pos()), fmt.Sprintf("advertised ratio %.4f >= %.4f = 8/log2(%d)", ratio, min, radix),
			fmt.Sprintf("advertised ratio %.4f is below the minimum expansion %.4f of any radix-%d text encoding: every size budget derived from it overruns", ratio, min, radix))
	}
}

func objName(o types.Object) string {
	if o == nil {
		return "<none>"
	}
	return o.Name()
}

// substitution map of a function: `if b == C1 { x[k] = C2 }` chains over a
// ranged byte slice.
func substitutions(w *World, fn0 *ssa.Function) map[int64]int64 {
	out := map[int64]int64{}
	if fn0 == nil {
		return out
	}
	for _, fn := range staticCone(fn0, 2) {
		substitutionsIn(fn, out)
	}
	return out
}

// staticCone: fn and the module functions it calls statically (helpers), to
// the given depth.
func staticCone(fn *ssa.Function, depth int) []*ssa.Function {
	seen := map[*ssa.Function]bool{}
	var out []*ssa.Function
	var walk func(f *ssa.Function, d int)
	walk = func(f *ssa.Function, d int) {
		if f == nil || seen[f] || !inModule(f) || len(f.Blocks) == 0 {
			return
		}
		seen[f] = true
		out = append(out, f)
		if d >= depth {
			return
		}
		for _, c := range callsIn(f) {
			if sc := c.Common().StaticCallee(); sc != nil {
				walk(sc, d+1)
			}
			if mc, ok := c.Common().Value.(*ssa.MakeClosure); ok {
				walk(mc.Fn.(*ssa.Function), d+1)
			}
		}
	}
	walk(fn, 0)
	return out
}

func substitutionsIn(fn *ssa.Function, out map[int64]int64) {
	// lookup helpers over a constant table of pairs: `for _, s := range table { if s.A == c { return s.B, true } }`
	// with `var table = [...]struct{ A, B byte }{ {'.', 'v'}, … }` (only its declaration assigns it)
	if len(fn.Params) >= 1 {
		p := fn.Params[len(fn.Params)-1]
		if bt, ok := p.Type().Underlying().(*types.Basic); ok && bt.Kind() == types.Uint8 {
			allInstrs(fn, func(in ssa.Instruction) {
				bo, ok := in.(*ssa.BinOp)
				if !ok || bo.Op != token.EQL {
					return
				}
				var fld ssa.Value
				if bo.X == ssa.Value(p) {
					fld = bo.Y
				} else if bo.Y == ssa.Value(p) {
					fld = bo.X
				}
				if fld == nil {
					return
				}
				g, cmpField := tableFieldOf(fld)
				if g == nil {
					return
				}
				// the field returned on the true edge
				retField := ""
				allInstrs(fn, func(in2 ssa.Instruction) {
					ret, ok := in2.(*ssa.Return)
					if !ok || len(ret.Results) == 0 {
						return
					}
					if !edgeDominatesInstr(bo, ret) {
						return
					}
					if g2, f2 := tableFieldOf(ret.Results[0]); g2 == g {
						retField = f2
					}
				})
				if retField == "" || curWorld == nil {
					return
				}
				for _, row := range constStructRows(curWorld, g) {
					a, okA := row[cmpField]
					b, okB := row[retField]
					if okA && okB {
						out[a] = b
					}
				}
			})
		}
	}
	// pure mapping helpers: func(b byte) byte { switch b { case C: return K ... default: return b } }
	if sig := fn.Signature; sig.Params().Len() == 1 && sig.Results().Len() == 1 && len(fn.Params) >= 1 {
		p := fn.Params[len(fn.Params)-1]
		if bt, ok := p.Type().Underlying().(*types.Basic); ok && bt.Kind() == types.Uint8 {
			allInstrs(fn, func(in ssa.Instruction) {
				ret, ok := in.(*ssa.Return)
				if !ok || len(ret.Results) != 1 {
					return
				}
				to, isC := constIntVal(ret.Results[0])
				if !isC {
					return
				}
				for _, b := range fn.Blocks {
					if len(b.Instrs) == 0 {
						continue
					}
					ifi, ok := b.Instrs[len(b.Instrs)-1].(*ssa.If)
					if !ok {
						continue
					}
					bo, ok := ifi.Cond.(*ssa.BinOp)
					if !ok || bo.Op != token.EQL || bo.X != ssa.Value(p) {
						continue
					}
					from, isC2 := constIntVal(bo.Y)
					if isC2 && edgeDominates(b, 0, ret.Block()) {
						out[from] = to
					}
				}
			})
		}
	}
	allInstrs(fn, func(in ssa.Instruction) {
		st, ok := in.(*ssa.Store)
		if !ok {
			return
		}
		if _, isIA := st.Addr.(*ssa.IndexAddr); !isIA {
			return
		}
		to, isC := constIntVal(st.Val)
		if !isC {
			return
		}
		// dominating equality test b == C
		for _, b := range fn.Blocks {
			if len(b.Instrs) == 0 {
				continue
			}
			ifi, ok := b.Instrs[len(b.Instrs)-1].(*ssa.If)
			if !ok {
				continue
			}
			bo, ok := ifi.Cond.(*ssa.BinOp)
			if !ok || bo.Op != token.EQL {
				continue
			}
			from, isC2 := constIntVal(bo.Y)
			if !isC2 {
				continue
			}
			if len(b.Succs) == 2 && b.Succs[0] == st.Block() {
				out[from] = to
			}
		}
	})
}

func c08Base85(w *World, r *Report) { ruleBase85Substitution(w, r, "R08.4") }

func ruleBase85Substitution(w *World, r *Report, rule string) {
	n := w.Named("internal/util/enc", "Base85Encoder")
	key := "codec:util/enc.Base85Encoder|substitution"
	if n == nil {
		r.Undecided(rule, key, "-", "anchor unresolved")
		return
	}
	enc := substitutions(w, w.SSAFunc(methodOf(n, "Encode")))
	dec := substitutions(w, w.SSAFunc(methodOf(n, "Decode")))
	var problems []string
	problems = append(problems, replacerSubstitutions(w, w.Decl(methodOf(n, "Encode")), enc)...)
	problems = append(problems, replacerSubstitutions(w, w.Decl(methodOf(n, "Decode")), dec)...)
	inA85 := func(b int64) bool { return (b >= '!' && b <= 'u') || b == 'z' }
	for b := int64('!'); b <= 'u'; b++ {
		if forbiddenDNSByte(byte(b)) {
			if _, ok := enc[b]; !ok {
				problems = append(problems, fmt.Sprintf("ascii85 can emit %q, which is not DNS-safe, and Encode does not substitute it", rune(b)))
			}
		}
	}
	targets := map[int64]bool{}
	for from, to := range enc {
		if inA85(to) {
			problems = append(problems, fmt.Sprintf("%q is replaced by %q, which ascii85 itself emits: the substitution is not invertible", rune(from), rune(to)))
		}
		if forbiddenDNSByte(byte(to)) {
			problems = append(problems, fmt.Sprintf("%q is replaced by the unsafe %q", rune(from), rune(to)))
		}
		if targets[to] {
			problems = append(problems, fmt.Sprintf("two bytes are replaced by the same %q", rune(to)))
		}
		targets[to] = true
		if back, ok := dec[to]; !ok || back != from {
			problems = append(problems, fmt.Sprintf("Encode maps %q to %q but Decode does not map it back", rune(from), rune(to)))
		}
	}
	for from := range dec {
		if !targets[from] {
			problems = append(problems, fmt.Sprintf("Decode rewrites %q although Encode never produces it by substitution", rune(from)))
		}
	}
	if len(enc) == 0 {
		problems = append(problems, "no substitution found in Encode")
	}
	sort.Strings(problems)
	r.Check(len(problems) == 0, rule, key, w.Pos(n.Obj().Pos()), fmt.Sprintf("%d substitutions, all forbidden ascii85 bytes covered, targets outside ascii85's alphabet, inverted by Decode", len(enc)), strings.Join(problems, "; "), "encode_map", fmt.Sprint(enc), "decode_map", fmt.Sprint(dec))
}

// c08WrittenLen: the count returned by ascii85.Encode / ascii85.Decode must
// flow into a re-slice of the destination buffer.
func c08WrittenLen(w *World, r *Report) {
	n := 0
	for _, fn := range sortedModuleFuncs(w, w.SSA()) {
		for _, c := range callsIn(fn) {
			f := sCallee(c)
			if f == nil || f.Pkg() == nil || f.Pkg().Path() != "encoding/ascii85" || (f.Name() != "Encode" && f.Name() != "Decode") {
				continue
			}
			call, ok := c.(*ssa.Call)
			if !ok {
				continue
			}
			n++
			key := "call:ascii85." + f.Name() + "@" + ssaFuncKey(fn)
			// the count value: the call itself (Encode) or Extract #0 (Decode)
			var cnt ssa.Value = call
			if f.Name() == "Decode" {
				cnt = nil
				for _, ref := range *call.Referrers() {
					if ex, ok := ref.(*ssa.Extract); ok && ex.Index == 0 {
						cnt = ex
					}
				}
			}
			used := false
			if cnt != nil && cnt.Referrers() != nil {
				for _, ref := range *cnt.Referrers() {
					if sl, ok := ref.(*ssa.Slice); ok && (sl.High == cnt || sl.Low == cnt) {
						used = true
					}
				}
			}
			r.Check(used, "R08.5", key, w.Pos(call.Pos()), "the number of bytes written cuts the destination buffer",
				"the number of bytes written by ascii85."+f.Name()+" is dropped and the maximum-sized buffer is returned whole: trailing NUL bytes for every length not divisible by 4 and for every all-zero group (control characters in the output, decode mismatch)")
		}
	}
	if n == 0 {
		r.Undecided("R08.5", "call:ascii85", "-", "no ascii85 call found")
	}
}

// codecRegistry: the codec objects FromCode can hand out — the elements of the composite literal it
// ranges over, or of the package-level table it reads.
func codecRegistry(w *World) map[types.Object]bool {
	p := w.Pkg("internal/util/enc")
	fromCode := w.Decl(w.Func("internal/util/enc", "FromCode"))
	registry := map[types.Object]bool{}
	if fromCode != nil {
		ast.Inspect(fromCode.Body, func(x ast.Node) bool {
			cl, ok := x.(*ast.CompositeLit)
			if !ok {
				return true
			}
			for _, el := range cl.Elts {
				if id, ok := el.(*ast.Ident); ok {
					registry[p.TypesInfo.Uses[id]] = true
				}
			}
			return true
		})
	}
	if len(registry) == 0 && fromCode != nil {
		// the table may be a package-level variable FromCode iterates over / looks up in
		used := map[types.Object]bool{}
		ast.Inspect(fromCode.Body, func(x ast.Node) bool {
			if id, ok := x.(*ast.Ident); ok {
				if v, ok := p.TypesInfo.Uses[id].(*types.Var); ok && v.Parent() == p.Types.Scope() {
					used[v] = true
				}
			}
			return true
		})
		for _, f := range p.Syntax {
			for _, d := range f.Decls {
				gd, ok := d.(*ast.GenDecl)
				if !ok {
					continue
				}
				for _, sp := range gd.Specs {
					vs, ok := sp.(*ast.ValueSpec)
					if !ok {
						continue
					}
					for i, nm := range vs.Names {
						if !used[p.TypesInfo.Defs[nm]] || i >= len(vs.Values) {
							continue
						}
						cl, ok := vs.Values[i].(*ast.CompositeLit)
						if !ok {
							continue
						}
						for _, el := range cl.Elts {
							if kv, ok := el.(*ast.KeyValueExpr); ok {
								el = kv.Value
							}
							if id, ok := el.(*ast.Ident); ok {
								registry[p.TypesInfo.Uses[id]] = true
							}
						}
					}
				}
			}
		}
	}
	if len(registry) == 0 && fromCode != nil {
		// ... or a function of the package that returns the list (`candidates := allEncoders()`)
		ast.Inspect(fromCode.Body, func(x ast.Node) bool {
			call, ok := x.(*ast.CallExpr)
			if !ok {
				return true
			}
			id, ok := call.Fun.(*ast.Ident)
			if !ok {
				return true
			}
			fobj, ok := p.TypesInfo.Uses[id].(*types.Func)
			if !ok || fobj.Pkg() != p.Types {
				return true
			}
			if fd := w.Decl(fobj); fd != nil && fd.Body != nil {
				ast.Inspect(fd.Body, func(y ast.Node) bool {
					cl, ok := y.(*ast.CompositeLit)
					if !ok {
						return true
					}
					for _, el := range cl.Elts {
						if id2, ok := el.(*ast.Ident); ok {
							if v, ok := p.TypesInfo.Uses[id2].(*types.Var); ok && v.Parent() == p.Types.Scope() {
								registry[v] = true
							}
						}
					}
					return true
				})
			}
			return true
		})
	}
	return registry
}

func declPos(w *World, fd *ast.FuncDecl) string {
	if fd == nil {
		return "-"
	}
	return w.Pos(fd.Pos())
}

// isEncodingObject: a package-level object that encodes/decodes (encoding/base32, base64 ... style), as
// opposed to helpers such as *strings.Replacer or regexps.
func isEncodingObject(t types.Type) bool {
	ms := types.NewMethodSet(t)
	has := func(n string) bool { return ms.Lookup(nil, n) != nil }
	return (has("EncodeToString") || has("Encode")) && (has("DecodeString") || has("Decode"))
}

// replacerSubstitutions: byte substitutions applied through a package-level strings.NewReplacer table used in
// the method body: pairs of one-byte constants extend the map; a pair whose key or value is not exactly one
// byte long is reported (a two-character key does not substitute the single byte).
func replacerSubstitutions(w *World, fd *ast.FuncDecl, out map[int64]int64) []string {
	if fd == nil {
		return nil
	}
	p := w.PkgOfDecl(fd)
	var problems []string
	used := map[types.Object]bool{}
	ast.Inspect(fd.Body, func(x ast.Node) bool {
		c, ok := x.(*ast.CallExpr)
		if !ok {
			return true
		}
		sel, ok := c.Fun.(*ast.SelectorExpr)
		if !ok || (sel.Sel.Name != "Replace" && sel.Sel.Name != "WriteString") {
			return true
		}
		if id, ok := sel.X.(*ast.Ident); ok {
			if v, ok := p.TypesInfo.Uses[id].(*types.Var); ok && v.Parent() == p.Types.Scope() {
				used[v] = true
			}
		}
		return true
	})
	for _, f := range p.Syntax {
		for _, d := range f.Decls {
			gd, ok := d.(*ast.GenDecl)
			if !ok {
				continue
			}
			for _, sp := range gd.Specs {
				vs, ok := sp.(*ast.ValueSpec)
				if !ok {
					continue
				}
				for i, nm := range vs.Names {
					if !used[p.TypesInfo.Defs[nm]] || i >= len(vs.Values) {
						continue
					}
					call, ok := vs.Values[i].(*ast.CallExpr)
					if !ok {
						continue
					}
					if se, ok := call.Fun.(*ast.SelectorExpr); !ok || se.Sel.Name != "NewReplacer" {
						continue
					}
					for k := 0; k+1 < len(call.Args); k += 2 {
						from, to := constVal(p.TypesInfo, call.Args[k]), constVal(p.TypesInfo, call.Args[k+1])
						if from == nil || to == nil || from.Kind() != constant.String || to.Kind() != constant.String {
							problems = append(problems, fmt.Sprintf("%s: replacer pair is not a pair of constant strings", w.Pos(call.Args[k].Pos())))
							continue
						}
						fs, ts := constant.StringVal(from), constant.StringVal(to)
						if len(fs) != 1 || len(ts) != 1 {
							problems = append(problems, fmt.Sprintf("%s: the replacer pair %q -> %q is not byte-for-byte (%d -> %d bytes): a single %q is not substituted (a raw string `\\\\` is TWO backslashes)", w.Pos(call.Args[k].Pos()), fs, ts, len(fs), len(ts), fs[:1]))
							continue
						}
						out[int64(fs[0])] = int64(ts[0])
					}
				}
			}
		}
	}
	return problems
}

// c08FreshResults: R08.8 — an encoding stays what it is only if nobody else writes the memory it lives in.
// Every []byte a codec's Encode/Decode returns must originate from an allocation of that call (make, a
// string conversion, a library call's fresh result, append) or be the caller's own input — never memory
// loaded from a package-level variable, a struct field or a sync.Pool.
func c08FreshResults(w *World, r *Report, codecs []codecInfo) {
	for _, ci := range codecs {
		for _, mname := range []string{"Encode", "Decode"} {
			fn := w.SSAFunc(methodOf(ci.Type, mname))
			if fn == nil {
				continue
			}
			key := "codec:" + qualName(ci.Type) + "|" + mname + "-result"
			bad := ""
			n := 0
			shared := func(v ssa.Value) string {
				seen := map[ssa.Value]bool{}
				var walk func(v ssa.Value, d int) string
				walk = func(v ssa.Value, d int) string {
					if v == nil || seen[v] || d > 10 {
						return ""
					}
					seen[v] = true
					switch x := v.(type) {
					case *ssa.Global:
						return "the package-level variable " + x.Name()
					case *ssa.Call:
						if f := sCallee(x); f != nil && isMethod(f, "sync", "Pool", "Get") {
							return "a sync.Pool (the buffer goes back to the pool and the next call overwrites it)"
						}
						if b, ok := x.Call.Value.(*ssa.Builtin); ok && b.Name() == "append" && len(x.Call.Args) > 0 {
							return walk(x.Call.Args[0], d+1)
						}
						return ""
					case *ssa.Slice:
						return walk(x.X, d+1)
					case *ssa.UnOp:
						return walk(x.X, d+1)
					case *ssa.FieldAddr:
						if _, isParam := x.X.(*ssa.Parameter); isParam {
							return "a field of the codec object (shared by every user of the codec singleton)"
						}
						return walk(x.X, d+1)
					case *ssa.TypeAssert:
						return walk(x.X, d+1)
					case *ssa.Extract:
						return walk(x.Tuple, d+1)
					case *ssa.Phi:
						for _, e := range x.Edges {
							if s := walk(e, d+1); s != "" {
								return s
							}
						}
					case *ssa.ChangeType:
						return walk(x.X, d+1)
					case *ssa.MakeInterface:
						return walk(x.X, d+1)
					case *ssa.Alloc:
						// a local (e.g. the spilled result slot of a function with defers): what is stored into it
						for _, st := range storesTo(x) {
							if s := walk(st.Val, d+1); s != "" {
								return s
							}
						}
					}
					return ""
				}
				return walk(v, 0)
			}
			allInstrs(fn, func(in ssa.Instruction) {
				ret, ok := in.(*ssa.Return)
				if !ok || len(ret.Results) == 0 {
					return
				}
				if _, isSlice := ret.Results[0].Type().Underlying().(*types.Slice); !isSlice {
					return
				}
				n++
				if s := shared(ret.Results[0]); s != "" {
					bad = fmt.Sprintf("%s: the bytes returned live in %s: an encoding that is still held (a queued packet, a second goroutine's query) changes under its holder and no longer decodes to what was encoded", w.Pos(ret.Pos()), s)
				}
			})
			if n > 0 {
				r.Check(bad == "", "R08.8", key, w.Pos(fn.Pos()), fmt.Sprintf("%d return(s), each hands out memory allocated by that call (or the caller's input)", n), bad)
			}
		}
	}
}

// c08LengthAlgebra: R08.9 — for every codec whose Encode is a hand-written packer (its output length is
// determined by the input length alone under the length abstraction A11): Decode accepts exactly the lengths
// Encode produces and hands back as many bytes as went in, for every input length of three full periods of
// the packer's bit window (and by the period of the abstract loop state beyond), and the output stays within
// ceil(n*Ratio)+1.
func c08LengthAlgebra(w *World, r *Report) {
	encI := w.Interface("internal/util/enc", "Encoder")
	if encI == nil {
		r.Undecided("R08.9", "anchor", "-", "anchor unresolved: enc.Encoder")
		return
	}
	K := int64(64)
	if r.Tier == "thorough" {
		K = 512 // every request / response size the tunnel can form is below this
	}
	var lengths []int64
	for n := int64(0); n <= K; n++ {
		lengths = append(lengths, n)
	}
	var skipped []string
	defer func() {
		sort.Strings(skipped)
		r.Hold("R08.9", "codecs:outside-length-abstraction", "-", "library codecs and contents-dependent packers whose output length is not a function of the input length under A11 (not decided by this rule): "+strings.Join(skipped, "; "))
	}()
	// codecs this module can select: the package-level encoding objects referenced outside package enc
	selectable := map[*types.Named]bool{}
	encPkg := w.Pkg("internal/util/enc")
	for _, fn := range sortedModuleFuncs(w, w.SSA()) {
		if fn.Pkg == nil || fn.Pkg.Pkg == encPkg.Types {
			continue
		}
		allInstrs(fn, func(in ssa.Instruction) {
			for _, op := range in.Operands(nil) {
				g, ok := (*op).(*ssa.Global)
				if !ok || g.Pkg == nil || g.Pkg.Pkg != encPkg.Types {
					continue
				}
				// the concrete type stored into the variable by enc's initialiser
				if init := g.Pkg.Func("init"); init != nil {
					allInstrs(init, func(i2 ssa.Instruction) {
						if st, ok := i2.(*ssa.Store); ok && st.Addr == ssa.Value(g) {
							if mi, ok := st.Val.(*ssa.MakeInterface); ok {
								t := mi.X.Type()
								if pt, ok := t.(*types.Pointer); ok {
									t = pt.Elem()
								}
								if nn, ok := t.(*types.Named); ok {
									selectable[nn] = true
								}
							}
						}
					})
				}
			}
		})
	}
	for _, n := range w.Implementers(encI) {
		if n.Obj().Pkg() == nil || !strings.HasSuffix(n.Obj().Pkg().Path(), "/internal/util/enc") {
			continue
		}
		if !selectable[n] {
			skipped = append(skipped, n.Obj().Name()+" (registered but never selected by this module's client or server code: outside 'every codec the tunnel can select')")
			continue
		}
		encF, decF := w.SSAFunc(methodOf(n, "Encode")), w.SSAFunc(methodOf(n, "Decode"))
		key := "type:" + qualName(n) + "|length-algebra"
		if encF == nil || decF == nil {
			r.Undecided("R08.9", key, "-", "anchor unresolved: Encode/Decode")
			continue
		}
		ep := lengthProfile(w, encF, lengths)
		all := true
		for _, ok := range ep.Ok {
			if !ok {
				all = false
			}
		}
		if !all {
			skipped = append(skipped, n.Obj().Name()+" ("+ep.Why+")")
			continue
		}
		// decoder on exactly the lengths the encoder produces
		bad := ""
		for i, m := range ep.Out {
			dp := lengthProfile(w, decF, []int64{m})
			switch {
			case dp.Err[0]:
				bad = fmt.Sprintf("Encode turns %d byte(s) into %d symbol(s), a length Decode refuses with an error: such a payload cannot be decoded by the peer", lengths[i], m)
			case !dp.Ok[0]:
				bad = fmt.Sprintf("for %d symbol(s) (the encoding of %d byte(s)) the decoded length is not determined: %s", m, lengths[i], dp.Why)
			case dp.Out[0] != lengths[i]:
				bad = fmt.Sprintf("Encode turns %d byte(s) into %d symbol(s) and Decode turns those into %d byte(s): the original is not recovered", lengths[i], m, dp.Out[0])
			}
			if bad != "" {
				break
			}
		}
		// every element of a presized result is written on every path (an untouched element is a zero byte)
		for i, u := range ep.Unwritten {
			if u > 0 && bad == "" {
				bad = fmt.Sprintf("for an input of %d byte(s) a path of Encode returns a presized buffer of which %d element(s) were never written: they keep the zero byte, which is not in the codec's alphabet (a control character in a DNS name)", lengths[i], u)
			}
		}
		// size budgets: the output is at most ceil(n*Ratio())+1 symbols long
		if fd := w.Decl(methodOf(n, "Ratio")); fd != nil && bad == "" {
			ratio := -1.0
			ast.Inspect(fd.Body, func(x ast.Node) bool {
				if rs, ok := x.(*ast.ReturnStmt); ok && len(rs.Results) == 1 {
					if v := constVal(encPkg.TypesInfo, rs.Results[0]); v != nil {
						ratio, _ = constant.Float64Val(constant.ToFloat(v))
					}
				}
				return true
			})
			for i, m := range ep.Out {
				if ratio > 0 && float64(m) > math.Ceil(float64(lengths[i])*ratio)+1 {
					bad = fmt.Sprintf("Encode turns %d byte(s) into %d symbol(s), more than ceil(%d*%.4f)+1 which the advertised Ratio() allows: size budgets computed from the ratio overrun", lengths[i], m, lengths[i], ratio)
					break
				}
			}
		}
		// periodic abstract state: every loop head of Encode repeats (affinely) within a third of the explored range
		for h, p := range ep.Periods {
			if p == 0 && bad == "" {
				bad = fmt.Sprintf("the abstract state at a loop head of Encode (%s) does not become periodic within %d input bytes: lengths beyond are not covered", h, K)
			}
		}
		r.Check(bad == "", "R08.9", key, w.Pos(encF.Pos()), fmt.Sprintf("input lengths 0..%d: Encode's output length is determined by the input length; Decode accepts each and returns the input length; loop-state periods {%s}; lengths %v", K, periodsStr(ep.Periods), ep.Out[:16]), bad)
	}
}

// tableFieldOf: v is `elem.F` where elem is an element of a package-level array/slice of structs that only its
// declaration assigns (read through a range loop or an index): the table and the field name.
func tableFieldOf(v ssa.Value) (*ssa.Global, string) {
	var base ssa.Value
	var name string
	switch x := v.(type) {
	case *ssa.Field:
		st, ok := x.X.Type().Underlying().(*types.Struct)
		if !ok {
			return nil, ""
		}
		base, name = x.X, st.Field(x.Field).Name()
	case *ssa.UnOp:
		fa, ok := x.X.(*ssa.FieldAddr)
		if !ok {
			return nil, ""
		}
		base, name = fa.X, fieldVarOf(fa).Name()
	default:
		return nil, ""
	}
	// base: an element of the table — *IndexAddr(global or load of it), Index(load), or a copy of one in a local
	seen := map[ssa.Value]bool{}
	var find func(b ssa.Value, d int) *ssa.Global
	find = func(b ssa.Value, d int) *ssa.Global {
		if b == nil || d > 6 || seen[b] {
			return nil
		}
		seen[b] = true
		switch y := b.(type) {
		case *ssa.Global:
			if frozenGlobal(y) {
				return y
			}
		case *ssa.UnOp:
			return find(y.X, d+1)
		case *ssa.IndexAddr:
			return find(y.X, d+1)
		case *ssa.Index:
			return find(y.X, d+1)
		case *ssa.Alloc:
			// a local copy of the element (or of the whole array, for range over an array value)
			if y.Referrers() != nil {
				for _, ref := range *y.Referrers() {
					if st, ok := ref.(*ssa.Store); ok && st.Addr == ssa.Value(y) {
						if g := find(st.Val, d+1); g != nil {
							return g
						}
					}
				}
			}
		case *ssa.Phi:
			for _, e := range y.Edges {
				if g := find(e, d+1); g != nil {
					return g
				}
			}
		}
		return nil
	}
	return find(base, 0), name
}

// edgeDominatesInstr: does the true edge of the branch on cond dominate `in`?
func edgeDominatesInstr(cond ssa.Value, in ssa.Instruction) bool {
	ci, ok := cond.(ssa.Instruction)
	if !ok {
		return false
	}
	b := ci.Block()
	ifi, ok := b.Instrs[len(b.Instrs)-1].(*ssa.If)
	if !ok || ifi.Cond != cond {
		return false
	}
	return edgeDominates(b, 0, in.Block())
}

// constStructRows: the rows of a package-level array/slice literal of structs with constant integer (byte, rune)
// fields, as field name -> value.
func constStructRows(w *World, g *ssa.Global) []map[string]int64 {
	if g == nil {
		return nil
	}
	for _, p := range w.Pkgs {
		if p.Types != g.Pkg.Pkg {
			continue
		}
		for _, f := range p.Syntax {
			for _, d := range f.Decls {
				gd, ok := d.(*ast.GenDecl)
				if !ok || gd.Tok != token.VAR {
					continue
				}
				for _, sp := range gd.Specs {
					vs := sp.(*ast.ValueSpec)
					for i, name := range vs.Names {
						if p.TypesInfo.Defs[name] != g.Object() || i >= len(vs.Values) {
							continue
						}
						lit, ok := unparen(vs.Values[i]).(*ast.CompositeLit)
						if !ok {
							return nil
						}
						var elem types.Type
						switch lt := p.TypesInfo.TypeOf(lit).Underlying().(type) {
						case *types.Array:
							elem = lt.Elem()
						case *types.Slice:
							elem = lt.Elem()
						}
						if elem == nil {
							return nil
						}
						st, ok := elem.Underlying().(*types.Struct)
						if !ok {
							return nil
						}
						var rows []map[string]int64
						for _, el := range lit.Elts {
							if kv, ok := el.(*ast.KeyValueExpr); ok {
								el = kv.Value
							}
							rl, ok := unparen(el).(*ast.CompositeLit)
							if !ok {
								return nil
							}
							row := map[string]int64{}
							for j, fe := range rl.Elts {
								fname := ""
								var fval ast.Expr
								if fkv, ok := fe.(*ast.KeyValueExpr); ok {
									id, ok := fkv.Key.(*ast.Ident)
									if !ok {
										return nil
									}
									fname, fval = id.Name, fkv.Value
								} else if j < st.NumFields() {
									fname, fval = st.Field(j).Name(), fe
								}
								tv := p.TypesInfo.Types[fval]
								if tv.Value == nil {
									return nil
								}
								if iv, exact := constant.Int64Val(constant.ToInt(tv.Value)); exact {
									row[fname] = iv
								}
							}
							rows = append(rows, row)
						}
						return rows
					}
				}
			}
		}
	}
	return nil
}
