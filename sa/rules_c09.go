package main

// C09 — DNS tunnel requests survive the wire for every command and size.
// C10 — DNS tunnel responses survive the wire for every record type.

import (
	"fmt"
	"go/ast"
	"go/constant"
	"go/token"
	"go/types"
	"sort"
	"strings"

	"golang.org/x/tools/go/ssa"
)

func init() {
	register("C09", checkC09)
	register("C10", checkC10)
}

// pairLayouts: R09.1 / R10.1 for every implementer of the given interface.
func pairLayouts(w *World, r *Report, rule, ifaceName string) {
	iface := w.Interface("internal/streams/dns/commands", ifaceName)
	if iface == nil {
		r.Undecided(rule, "anchor", "-", "anchor unresolved: commands."+ifaceName)
		return
	}
	orders := map[string]bool{}
	roleTypes := commandRoleTypes(w, ifaceName)
	for _, n := range w.Implementers(iface) {
		if !roleTypes[n] {
			continue
		}
		encF := w.SSAFunc(methodOf(n, "Encode"))
		decF := w.SSAFunc(methodOf(n, "Decode"))
		key := "type:" + qualName(n) + "|layout"
		if encF == nil || decF == nil {
			r.Undecided(rule, key, "-", "Encode/Decode body unavailable")
			continue
		}
		enc := extractLayout(w, encF, nil, true, 0)
		dec := extractLayout(w, decF, nil, false, 0)
		// the body of the decoder (codec call and reads) moved into a helper that is handed the payload
		// (`text, err := decodeErrorText(response[1:])`): the helper's layout is the decoder's
		if dec.Codec == "" && dec.Undecided == "" {
			empty := true
			for _, pth := range dec.Paths {
				if len(pth.Ops) > 0 {
					empty = false
				}
			}
			if empty {
				var body *ssa.Function
				nb := 0
				for _, c := range callsIn(decF) {
					sc := c.Common().StaticCallee()
					if sc == nil || !inModule(sc) || len(sc.Blocks) == 0 {
						continue
					}
					takes := false
					for _, a := range c.Common().Args {
						if !isStringOrBytes(a.Type()) {
							continue
						}
						base := a
						for i := 0; i < 4; i++ {
							if sl, ok := base.(*ssa.Slice); ok {
								base = sl.X
								continue
							}
							break
						}
						for _, root := range provenance(base, provOpts{}) {
							for i := 0; i < 4; i++ {
								if sl, ok := root.(*ssa.Slice); ok {
									root = sl.X
									continue
								}
								break
							}
							if pp, ok := root.(*ssa.Parameter); ok && pp.Parent() == decF {
								takes = true
							}
						}
					}
					if !takes {
						continue
					}
					if hl := extractLayout(w, sc, nil, false, 1); hl.Codec != "" {
						body = sc
						nb++
					}
				}
				if nb == 1 {
					hdr := dec.Header
					dec = extractLayout(w, body, nil, false, 1)
					if dec.Header == "" {
						dec.Header = hdr
					}
				}
			}
		}
		for k := range enc.Orders {
			orders[k] = true
		}
		for k := range dec.Orders {
			orders[k] = true
		}
		ok, why, matched := layoutsAgree(enc, dec)
		var shapes []string
		seen := map[string]bool{}
		for _, p := range enc.Paths {
			if !seen[p.shape()] {
				seen[p.shape()] = true
				shapes = append(shapes, "["+p.shape()+"]")
			}
		}
		sort.Strings(shapes)
		if strings.HasPrefix(why, "undecided") {
			r.Undecided(rule, key, w.Pos(encF.Pos()), why)
		} else {
			r.Check(ok, rule, key, w.Pos(encF.Pos()), fmt.Sprintf("%d encoder layout(s) %v each matched by a decoder path (same item widths, same fields, tag bytes consistent)", matched, shapes),
				"Encode and Decode of "+n.Obj().Name()+" disagree on the wire layout: "+why, "encoder_layouts", shapes, "decoder_paths", len(dec.Paths))
		}
		// codec object agreement
		ck := "type:" + qualName(n) + "|codec"
		r.Check(enc.Codec == dec.Codec, rule, ck, w.Pos(decF.Pos()), "body encoded and decoded with the same codec ("+mapStr(enc.Codec == "", "none: carried verbatim")+enc.Codec+")",
			fmt.Sprintf("the body is encoded with %q but decoded with %q", enc.Codec, dec.Codec))
		// header helper agreement
		hk := "type:" + qualName(n) + "|header"
		okh := false
		switch ifaceName {
		case "Request":
			okh = strings.Contains(enc.Header, "EncodeRequestHeader") && strings.Contains(dec.Header, "DecodeRequestHeader")
		default:
			okh = strings.Contains(dec.Header, "ValidateType")
		}
		r.Check(okh, rule, hk, w.Pos(decF.Pos()), "header built and stripped by the matching helpers ("+enc.Header+" / "+dec.Header+")",
			fmt.Sprintf("header helpers do not match: encoder uses %q, decoder uses %q", enc.Header, dec.Header))
	}
	r.Check(len(orders) == 1, rule, "package:commands|byte-order", "-", fmt.Sprintf("one byte order throughout: %v", sortedKeys(orders)), fmt.Sprintf("mixed byte orders: %v", sortedKeys(orders)))
}

// commandRoleTypes: the struct types constructed by the NewRequest (resp.
// NewResponse) constructors of the command table — by role, since both
// interfaces have the same method set.
func commandRoleTypes(w *World, role string) map[*types.Named]bool {
	out := map[*types.Named]bool{}
	p := w.Pkg("internal/streams/dns/commands")
	if p == nil {
		return out
	}
	for _, f := range p.Syntax {
		ast.Inspect(f, func(x ast.Node) bool {
			kv, ok := x.(*ast.KeyValueExpr)
			if !ok {
				return true
			}
			id, ok := kv.Key.(*ast.Ident)
			if !ok || id.Name != "New"+role {
				return true
			}
			ast.Inspect(kv.Value, func(y ast.Node) bool {
				if cl, ok := y.(*ast.CompositeLit); ok {
					if n, ok := p.TypesInfo.TypeOf(cl).(*types.Named); ok {
						out[n] = true
					}
				}
				return true
			})
			return true
		})
	}
	return out
}

func checkC09(w *World, r *Report) {
	r.Explanation = "Decides the agreement structure of request encoding: (R09.1) for every request type each successful encoder path's sequence of wire items (byte tags with their constants, fixed-width fields with their struct fields, rest-of-buffer blobs) is matched by a successful decoder path that reads the same widths into the same fields under tag conditions that hold for the constants written; both sides use the same codec object, the matching header helpers and one byte order; (R09.2) the request header is 1+3 (+2 iff the command needs a user id) bytes on the encoding side and exactly that is stripped on the decoding side, user ids are reduced modulo 36^2 and padded to 2 base-36 digits; (R09.3) label and name limits: dot insertion every <= 63 characters, no dotting threshold above 63, names rejected above the limit derived from 253, and every question name comes from PrepareHostname under err == nil; (R09.4) command codes are pairwise distinct under case folding and the cache-busting alphabet is lower-case letters and digits. Not decided: that the size budget (floating-point, codec ratio) keeps every payload within the name limit; escaping of 8-bit codec output through miekg; equality of field values for all values."
	r.NotDecided = []string{"size budget from getUpstreamMtu keeps names within limits for every payload", "DNS escaping of 8-bit codec output through miekg Pack/Unpack", "field values survive for all values"}
	r.Trusted = []string{"encoding/binary fixed-size encoding", "bytes.Buffer semantics", "miekg/dns packs names of <= 253 octets with labels <= 63"}
	r.Rule("R09.1", "request Encode/Decode layout agreement", 19)
	r.Rule("R09.2", "request header constants agree", 2)
	r.Rule("R09.3", "label / name limits", 4)
	r.Rule("R09.5", "the name unescaper consumes every escape form whenever its bytes are there (no consuming step guarded more strictly than its width)", 1)
	r.Rule("R09.4", "command table and cache-busting alphabet", 2)
	r.Rule("R09.8", "the Base85 upstream codec leaves no byte in the question name that the DNS library reads as an escape or a separator (backslash, dot): the substitution table covers them", 1)
	ruleBase85Substitution(w, r, "R09.8")
	r.Rule("R09.7", "the server's decoder of an upstream codec never cuts a request payload short: ascii85.Decode has worst-case room or its consumed count is checked", 1)
	ruleAscii85Room(w, r, "R09.7")
	r.Rule("R09.6", "the regular expressions that decide the width of an unescaping step are anchored at the start", 1)
	ruleUnescaperRegexpsAnchored(w, r, "R09.6")

	pairLayouts(w, r, "R09.1", "Request")
	c09Header(w, r)
	c09Limits(w, r)
	c09UnescapeTight(w, r)
	c09Table(w, r)
}

func c09Header(w *World, r *Report) {
	encH := w.SSAFunc(w.Func("internal/streams/dns/commands", "EncodeRequestHeader"))
	decH := w.SSAFunc(w.Func("internal/streams/dns/commands", "DecodeRequestHeader"))
	key := "pair:EncodeRequestHeader~DecodeRequestHeader"
	if encH == nil || decH == nil {
		r.Undecided("R09.2", key, "-", "anchor unresolved")
		return
	}
	// encoder: 1 (code) + len(randomChars()) ; random length = size of the make in randomChars
	rc := w.SSAFunc(w.Func("internal/streams/dns/commands", "randomChars"))
	randLen := int64(-1)
	if rc != nil {
		allInstrs(rc, func(in ssa.Instruction) {
			if al, ok := in.(*ssa.Alloc); ok {
				if arr, ok := al.Type().(*types.Pointer).Elem().(*types.Array); ok {
					randLen = arr.Len()
				}
			}
			if ms, ok := in.(*ssa.MakeSlice); ok {
				if v, ok := constIntVal(ms.Len); ok {
					randLen = v
				}
			}
		})
	}
	widthProblem := ""
	if rc != nil && randLen < 0 {
		// a formatted counter: strconv.Format{U,}int(x, B) left-padded to K characters is exactly K wide only if x < B^K
		var fbase, padTo int64 = -1, -1
		var farg ssa.Value
		allInstrs(rc, func(in ssa.Instruction) {
			if c, ok := in.(*ssa.Call); ok && (isPkgFunc(sCallee(c), "strconv", "FormatUint") || isPkgFunc(sCallee(c), "strconv", "FormatInt")) {
				fbase, _ = constIntVal(c.Call.Args[1])
				farg = c.Call.Args[0]
			}
			if b, ok := in.(*ssa.BinOp); ok && b.Op == token.LSS {
				if v, ok := constIntVal(b.Y); ok {
					if lc, ok := b.X.(*ssa.Call); ok {
						if bi, ok := lc.Call.Value.(*ssa.Builtin); ok && bi.Name() == "len" {
							padTo = v
						}
					}
				}
			}
		})
		if fbase > 1 && padTo > 0 && farg != nil {
			// the largest value the argument can take: the narrowest unsigned type it went through, or a constant modulus
			bound := int64(-1)
			v := farg
			for d := 0; d < 8 && v != nil; d++ {
				switch x := v.(type) {
				case *ssa.Convert:
					if bt, ok := x.X.Type().Underlying().(*types.Basic); ok {
						var lim int64 = -1
						switch bt.Kind() {
						case types.Uint8:
							lim = 1 << 8
						case types.Uint16:
							lim = 1 << 16
						case types.Uint32:
							lim = 1 << 32
						}
						if lim > 0 && (bound < 0 || lim < bound) {
							bound = lim
						}
					}
					v = x.X
				case *ssa.BinOp:
					if x.Op == token.REM {
						if m, ok := constIntVal(x.Y); ok && m > 0 && (bound < 0 || m < bound) {
							bound = m
						}
					}
					v = x.X
				default:
					v = nil
				}
			}
			capacity := int64(1)
			for i := int64(0); i < padTo; i++ {
				capacity *= fbase
			}
			randLen = padTo
			if bound < 0 || bound > capacity {
				widthProblem = fmt.Sprintf("the cache-busting part is a number formatted in base %d and padded to %d characters, but the number ranges over %d values while %d characters hold only %d: beyond that the header is one character longer and the server strips the user id and the payload at the wrong offsets", fbase, padTo, bound, padTo, capacity)
			}
		}
	}
	// decoder: constants of the slice operations on req: first strip, then [0:2] and [2:]
	var strips []int64
	for _, g := range staticCone(decH, 2) {
		allInstrs(g, func(in ssa.Instruction) {
			if sl, ok := in.(*ssa.Slice); ok && sl.Low != nil && sl.High == nil {
				if v, ok := constIntVal(sl.Low); ok {
					strips = append(strips, v)
				}
			}
		})
	}
	sort.Slice(strips, func(i, j int) bool { return strips[i] > strips[j] })
	// user id: EncodeUserId pads to 2 and reduces mod 1296; decoder parses base 36
	eu := w.SSAFunc(w.Func("internal/streams/dns/commands", "EncodeUserId"))
	var mod, pad, base int64 = -1, -1, -1
	// the function that formats the user id is the one the header encoder really uses: EncodeUserId if it is in
	// its cone, the header encoder itself if the digits are produced inline
	if eu != nil {
		inCone := false
		for _, g := range staticCone(encH, 2) {
			if g == eu {
				inCone = true
			}
		}
		if !inCone {
			eu = encH
		}
	}
	var valueThreshold int64 = -1
	valueThresholdAt := ""
	if eu != nil {
		allInstrs(eu, func(in ssa.Instruction) {
			if b, ok := in.(*ssa.BinOp); ok {
				if b.Op == token.REM {
					mod, _ = constIntVal(b.Y)
				}
				if b.Op == token.LSS || b.Op == token.LEQ {
					if v, ok := constIntVal(b.Y); ok {
						x := b.X
						for {
							if cv, ok := x.(*ssa.Convert); ok {
								x = cv.X
								continue
							}
							break
						}
						isLen := false
						if lc, ok := x.(*ssa.Call); ok {
							if bi, ok := lc.Call.Value.(*ssa.Builtin); ok && bi.Name() == "len" {
								isLen = true
							}
						}
						if isLen || eu != encH {
							if b.Op == token.LSS {
								pad = v
							}
						} else if rb, ok := x.(*ssa.BinOp); ok && rb.Op == token.REM {
							// `if id < B { emit '0' }`: pads to two digits exactly when the threshold is the base
							valueThreshold, valueThresholdAt = v, w.Pos(b.Pos())
							if b.Op == token.LEQ {
								valueThreshold = v + 1
							}
						}
					}
				}
			}
			if c, ok := in.(*ssa.Call); ok {
				if isPkgFunc(sCallee(c), "strconv", "FormatInt") || isPkgFunc(sCallee(c), "strconv", "FormatUint") {
					base, _ = constIntVal(c.Call.Args[1])
				}
				if isPkgFunc(sCallee(c), "strconv", "AppendInt") || isPkgFunc(sCallee(c), "strconv", "AppendUint") {
					base, _ = constIntVal(c.Call.Args[2])
				}
			}
		})
	}
	if eu != nil && pad < 0 && valueThreshold < 0 && base > 0 {
		// digits right-aligned in a field of zeroes: `u := []byte{'0','0'}; copy(u[2-len(digits):], digits)` —
		// the width is the size of the field
		var field *ssa.Alloc
		allInstrs(eu, func(in ssa.Instruction) {
			al, ok := in.(*ssa.Alloc)
			if !ok {
				return
			}
			arr, ok := al.Type().(*types.Pointer).Elem().Underlying().(*types.Array)
			if !ok || al.Referrers() == nil {
				return
			}
			if bt, ok := arr.Elem().Underlying().(*types.Basic); !ok || bt.Kind() != types.Uint8 {
				return
			}
			zeros := int64(0)
			for _, ref := range *al.Referrers() {
				if ia, ok := ref.(*ssa.IndexAddr); ok && ia.Referrers() != nil {
					for _, r2 := range *ia.Referrers() {
						if st, ok := r2.(*ssa.Store); ok {
							if k, ok := constIntVal(st.Val); ok && k == '0' {
								zeros++
							}
						}
					}
				}
			}
			if zeros == arr.Len() {
				field = al
			}
		})
		if field != nil {
			allInstrs(eu, func(in ssa.Instruction) {
				c, ok := in.(*ssa.Call)
				if !ok {
					return
				}
				if b, ok := c.Call.Value.(*ssa.Builtin); !ok || b.Name() != "copy" {
					return
				}
				sl, ok := c.Call.Args[0].(*ssa.Slice)
				if !ok || sl.High != nil {
					return
				}
				inField := false
				for _, root := range provenance(sl.X, provOpts{}) {
					if root == ssa.Value(field) {
						inField = true
					}
				}
				if !inField {
					if sl2, ok := sl.X.(*ssa.Slice); ok && sl2.X == ssa.Value(field) {
						inField = true
					}
				}
				// the offset is width - len(source)
				n := field.Type().(*types.Pointer).Elem().Underlying().(*types.Array).Len()
				if bo, ok := sl.Low.(*ssa.BinOp); ok && inField && bo.Op == token.SUB {
					if k, ok := constIntVal(bo.X); ok && k == n {
						if lc, ok := bo.Y.(*ssa.Call); ok {
							if bi, ok := lc.Call.Value.(*ssa.Builtin); ok && bi.Name() == "len" && len(lc.Call.Args) == 1 && lc.Call.Args[0] == c.Call.Args[1] {
								pad = n
							}
						}
					}
				}
			})
		}
	}
	thresholdProblem := ""
	if valueThreshold >= 0 && pad < 0 {
		pad = 2
		if valueThreshold != base {
			thresholdProblem = fmt.Sprintf("%s: the user id gets its leading '0' when it is below %d, but it has a single base-%d digit exactly when it is below %d: the ids in between are emitted one character too long or too short, the server strips two characters and reads another user's id (and a shifted payload)", valueThresholdAt, valueThreshold, base, base)
		}
	}
	if eu != nil && base < 0 {
		// digits looked up in a table: `string([]byte{digits[id/K], digits[id%K]})` — the base is K (and the table
		// must be strconv's digits for that base), the width the number of digits emitted, the modulus the largest
		// remainder taken
		ndig := int64(0)
		var quo int64 = -1
		mod = -1
		allInstrs(eu, func(in ssa.Instruction) {
			switch x := in.(type) {
			case *ssa.BinOp:
				if k, ok := constIntVal(x.Y); ok {
					if x.Op == token.QUO {
						quo = k
					}
					if x.Op == token.REM && k > mod {
						mod = k
					}
				}
			case *ssa.Lookup, *ssa.Index:
				var coll ssa.Value
				if l, ok := x.(*ssa.Lookup); ok {
					coll = l.X
				} else {
					coll = x.(*ssa.Index).X
				}
				if sv, ok := constStrVal(coll); ok {
					ndig++
					if int64(len(sv)) >= 2 && sv == "0123456789abcdefghijklmnopqrstuvwxyz"[:len(sv)] && (quo < 0 || quo == int64(len(sv))) {
						base = int64(len(sv))
					}
				}
			}
		})
		if base > 0 && quo == base {
			pad = ndig
		} else {
			base = -1
		}
	}
	var pbase, pbits int64 = -1, -1
	for _, g := range staticCone(decH, 2) {
		allInstrs(g, func(in ssa.Instruction) {
			if c, ok := in.(*ssa.Call); ok && isPkgFunc(sCallee(c), "strconv", "ParseUint") {
				pbase, _ = constIntVal(c.Call.Args[1])
				pbits, _ = constIntVal(c.Call.Args[2])
			}
		})
	}
	parsedBy := "ParseUint"
	if pbase < 0 {
		// digits decoded by hand: `hi*36 + lo` — the base is the constant factor, the width that of the arithmetic
		for _, g := range staticCone(decH, 2) {
			allInstrs(g, func(in ssa.Instruction) {
				b, ok := in.(*ssa.BinOp)
				if !ok || b.Op != token.MUL || pbase >= 0 {
					return
				}
				k, isC := constIntVal(b.Y)
				if !isC {
					k, isC = constIntVal(b.X)
				}
				if !isC || k < 2 {
					return
				}
				if _, hi, ok := typeRange(b.Type()); ok {
					pbase, pbits = k, int64(hi.BitLen())
					parsedBy = "the arithmetic that combines the digits"
				}
			})
		}
	}
	var problems []string
	if randLen < 0 || len(strips) < 2 {
		r.Undecided("R09.2", key, w.Pos(decH.Pos()), fmt.Sprintf("header constants not recognised (random part %d, strips %v)", randLen, strips))
		return
	}
	if widthProblem != "" {
		problems = append(problems, widthProblem)
	}
	if thresholdProblem != "" {
		problems = append(problems, thresholdProblem)
	}
	if 1+randLen != strips[0] {
		problems = append(problems, fmt.Sprintf("the encoder emits 1+%d header bytes but the decoder strips %d", randLen, strips[0]))
	}
	if pad != strips[1] {
		problems = append(problems, fmt.Sprintf("user id is padded to %d characters but %d are stripped", pad, strips[1]))
	}
	if base != pbase {
		problems = append(problems, fmt.Sprintf("user id is formatted in base %d but parsed in base %d", base, pbase))
	}
	want := int64(1)
	for i := int64(0); i < pad; i++ {
		want *= base
	}
	if mod != want {
		problems = append(problems, fmt.Sprintf("user id is reduced modulo %d but %d characters of base %d hold %d values", mod, pad, base, want))
	}
	if pbits < 11 {
		problems = append(problems, fmt.Sprintf("%s has a width of %d bits, which cannot hold a user id below %d", parsedBy, pbits, want))
	}
	r.Check(len(problems) == 0, "R09.2", key, w.Pos(encH.Pos()), fmt.Sprintf("header: 1+%d bytes (+%d-character base-%d user id mod %d) on both sides", randLen, pad, base, mod), strings.Join(problems, "; "))
	// the NeedsUserId flag guards both
	guardOK := func(fn *ssa.Function) bool {
		found := false
		for _, b := range fn.Blocks {
			if len(b.Instrs) == 0 {
				continue
			}
			if ifi, ok := b.Instrs[len(b.Instrs)-1].(*ssa.If); ok {
				core, _ := stripNot(ifi.Cond)
				if f, ok := core.(*ssa.Field); ok && fieldVarOfField(f) != nil && fieldVarOfField(f).Name() == "NeedsUserId" {
					found = true
				}
				if fa := asFieldAddr(core); fa != nil && fieldVarOf(fa) != nil && fieldVarOf(fa).Name() == "NeedsUserId" {
					found = true
				}
			}
		}
		return found
	}
	r.Check(guardOK(encH) && guardOK(decH), "R09.2", "pair:EncodeRequestHeader~DecodeRequestHeader|flag", w.Pos(decH.Pos()), "the user id is emitted and stripped under the same NeedsUserId flag", "the user id is not emitted/stripped under the same NeedsUserId flag on both sides")
}

func intConstOf(w *World, rel, name string) (int64, bool) {
	p := w.Pkg(rel)
	if p == nil {
		return 0, false
	}
	c, ok := p.Types.Scope().Lookup(name).(*types.Const)
	if !ok {
		return 0, false
	}
	return constant.Int64Val(constant.ToInt(c.Val()))
}

func c09Limits(w *World, r *Report) {
	// Dotify chunk constant
	dot := w.SSAFunc(w.Func("internal/streams/dns/util", "Dotify"))
	if dot == nil {
		r.Undecided("R09.3", "func:util.Dotify", "-", "anchor unresolved")
	} else {
		c09Dotify(w, r, dot)
	}
	lab, ok1 := intConstOf(w, "internal/streams/dns/util", "LabelMaxlen")
	host, ok2 := intConstOf(w, "internal/streams/dns/util", "HostnameMaxLen")
	if !ok1 || !ok2 {
		r.Undecided("R09.3", "const:util.LabelMaxlen/HostnameMaxLen", "-", "anchor unresolved")
	} else {
		r.Check(lab <= 63, "R09.3", "const:util.LabelMaxlen", "-", fmt.Sprintf("names up to %d characters are left undotted (<= 63)", lab), fmt.Sprintf("names up to %d characters are emitted as a single label, above the 63-octet limit", lab))
		r.Check(host <= 253, "R09.3", "const:util.HostnameMaxLen", "-", fmt.Sprintf("maximum name length %d (<= 253)", host), fmt.Sprintf("maximum name length %d exceeds the 253-octet limit of a DNS name", host))
	}
	// PrepareHostname returns ErrTooLong above HostnameMaxLen-2
	ph := w.SSAFunc(w.Func("internal/streams/dns/util", "PrepareHostname"))
	phObj := w.Func("internal/streams/dns/util", "PrepareHostname")
	if ph == nil {
		r.Undecided("R09.3", "func:util.PrepareHostname|limit", "-", "anchor unresolved")
	} else {
		bad := ""
		nsucc := 0
		enumPaths(ph, nil, nil, nil, func(e pathExit) {
			ret, ok := e.Last.(*ssa.Return)
			if !ok || !isConstNil(e.State.Resolve(ret.Results[1])) {
				return
			}
			nsucc++
			bounded := false
			for v, t := range e.State.Facts {
				b, ok := v.(*ssa.BinOp)
				if !ok {
					continue
				}
				c, isC := constIntVal(b.Y)
				if !isC {
					continue
				}
				if call, ok := b.X.(*ssa.Call); ok {
					if bi, ok := call.Call.Value.(*ssa.Builtin); ok && bi.Name() == "len" {
						// len(hostname) > C false  or  len <= C true
						if ((b.Op == token.GTR && !t) || (b.Op == token.LEQ && t)) && c <= 253 && c >= 200 {
							bounded = true
						}
						if ((b.Op == token.GEQ && !t) || (b.Op == token.LSS && t)) && c <= 254 && c >= 200 {
							bounded = true
						}
					}
				}
			}
			if !bounded {
				bad = "PrepareHostname can return a name without having bounded its total length by the 253-octet limit"
			}
		})
		r.Check(bad == "" && nsucc > 0, "R09.3", "func:util.PrepareHostname|limit", w.Pos(ph.Pos()), fmt.Sprintf("%d success path(s), each after the total length was bounded", nsucc), bad)
	}
	// every dns.Question name in the request encoder comes from PrepareHostname under err == nil
	enc := w.SSAFunc(w.Method("internal/streams/dns/commands", "Serializer", "EncodeDnsRequestWithParams"))
	if enc == nil {
		r.Undecided("R09.3", "method:commands.Serializer.EncodeDnsRequestWithParams|names", "-", "anchor unresolved")
		return
	}
	nq := 0
	bad := ""
	// uses of a value as a question name: stores into dns.Question.Name in the encoder, or in a question-builder
	// helper it calls (then the use is the helper's call site and the value is the argument)
	type nameUse struct {
		val ssa.Value
		at  ssa.Instruction
		fn  *ssa.Function
	}
	var uses []nameUse
	cone := staticCone(enc, 2)
	for _, g := range cone {
		allInstrs(g, func(in ssa.Instruction) {
			st, ok := in.(*ssa.Store)
			if !ok {
				return
			}
			fa, ok := st.Addr.(*ssa.FieldAddr)
			if !ok {
				return
			}
			fv := fieldVarOf(fa)
			if fv == nil || fv.Name() != "Name" || fv.Pkg() == nil || fv.Pkg().Path() != "github.com/miekg/dns" {
				return
			}
			if g == enc {
				uses = append(uses, nameUse{st.Val, st, g})
				return
			}
			mapped := false
			for _, root := range provenance(st.Val, provOpts{}) {
				i := paramIndex(g, root)
				if i < 0 {
					mapped = false
					break
				}
				for _, h := range cone {
					for _, c := range callsIn(h) {
						if c.Common().StaticCallee() == g && i < len(c.Common().Args) {
							if ci, ok := c.(ssa.Instruction); ok {
								uses = append(uses, nameUse{c.Common().Args[i], ci, h})
								mapped = true
							}
						}
					}
				}
			}
			if !mapped {
				uses = append(uses, nameUse{st.Val, st, g})
			}
		})
	}
	for _, u := range uses {
		nq++
		fromPH := false
		var errv ssa.Value
		for _, root := range provenance(u.val, provOpts{}) {
			if ex, ok := root.(*ssa.Extract); ok {
				if c, ok := ex.Tuple.(*ssa.Call); ok && sCallee(c) == phObj && ex.Index == 0 {
					fromPH = true
					for _, ref := range *c.Referrers() {
						if e2, ok := ref.(*ssa.Extract); ok && e2.Index == 1 {
							errv = e2
						}
					}
				}
			}
		}
		if !fromPH {
			bad = fmt.Sprintf("%s: a question name is not produced by PrepareHostname (no label/length limits applied)", w.Pos(u.at.Pos()))
		} else if errv == nil || !dominatedByCondNil(u.fn, u.at, func(v ssa.Value) bool {
			x, _, ok := nilTest(v)
			if !ok {
				return false
			}
			for _, root := range provenance(x, provOpts{}) {
				if root == errv {
					return true
				}
			}
			return x == errv
		}) {
			bad = fmt.Sprintf("%s: PrepareHostname's error is not checked before the name is used", w.Pos(u.at.Pos()))
		}
	}
	r.Check(bad == "" && nq > 0, "R09.3", "method:commands.Serializer.EncodeDnsRequestWithParams|names", w.Pos(enc.Pos()), fmt.Sprintf("%d question name(s), each from PrepareHostname under err == nil", nq), bad)
}

func c09Table(w *World, r *Report) {
	p := w.Pkg("internal/streams/dns/commands")
	cmdT := w.Named("internal/streams/dns/commands", "Command")
	if p == nil || cmdT == nil {
		r.Undecided("R09.4", "table:commands.Commands", "-", "anchor unresolved")
		return
	}
	codes := map[string][]string{}
	n := 0
	for _, f := range p.Syntax {
		ast.Inspect(f, func(x ast.Node) bool {
			cl, ok := x.(*ast.CompositeLit)
			if !ok {
				return true
			}
			if t := p.TypesInfo.TypeOf(cl); t == nil || !types.Identical(t, cmdT) {
				return true
			}
			for _, el := range cl.Elts {
				if kv, ok := el.(*ast.KeyValueExpr); ok {
					if id, ok := kv.Key.(*ast.Ident); ok && id.Name == "Code" {
						if v := constVal(p.TypesInfo, kv.Value); v != nil {
							if iv, ok := constant.Int64Val(constant.ToInt(v)); ok {
								n++
								k := strings.ToLower(string(rune(iv)))
								codes[k] = append(codes[k], w.Pos(cl.Pos()))
							}
						}
					}
				}
			}
			return true
		})
	}
	var dups []string
	for k, v := range codes {
		if len(v) > 1 {
			dups = append(dups, fmt.Sprintf("%q at %v", k, v))
		}
	}
	sort.Strings(dups)
	r.Check(len(dups) == 0 && n > 0, "R09.4", "table:commands.Commands|codes", "-", fmt.Sprintf("%d command codes, pairwise distinct under case folding", n), "command codes collide (IsOfType folds case, the first table entry wins): "+strings.Join(dups, ", "))
	// cache-busting alphabet
	rcDecl := w.Decl(w.Func("internal/streams/dns/commands", "randomChars"))
	if rcDecl == nil {
		r.Undecided("R09.4", "func:commands.randomChars|alphabet", "-", "anchor unresolved")
		return
	}
	alpha := ""
	ast.Inspect(rcDecl.Body, func(x ast.Node) bool {
		if ie, ok := x.(*ast.IndexExpr); ok {
			if s, ok := constStr(p.TypesInfo, ie.X); ok {
				alpha = s
			}
		}
		return true
	})
	if alpha == "" {
		// a number formatted by strconv in a base <= 36 (digits and lower-case letters), padded with constant characters
		fbase := int64(-1)
		pads := ""
		inspectCalls(p.TypesInfo, rcDecl.Body, func(call *ast.CallExpr, callee *types.Func) {
			if callee != nil && callee.Pkg() != nil && callee.Pkg().Path() == "strconv" && (callee.Name() == "FormatUint" || callee.Name() == "FormatInt") && len(call.Args) == 2 {
				if v := constVal(p.TypesInfo, call.Args[1]); v != nil {
					fbase, _ = constant.Int64Val(constant.ToInt(v))
				}
			}
		})
		ast.Inspect(rcDecl.Body, func(x ast.Node) bool {
			if be, ok := x.(*ast.BinaryExpr); ok && be.Op == token.ADD {
				for _, side := range []ast.Expr{be.X, be.Y} {
					if sv, ok := constStr(p.TypesInfo, side); ok {
						pads += sv
					}
				}
			}
			return true
		})
		if fbase >= 2 && fbase <= 36 {
			alpha = "0123456789abcdefghijklmnopqrstuvwxyz"[:fbase] + pads
		}
	}
	okA := alpha != ""
	for i := 0; i < len(alpha); i++ {
		c := alpha[i]
		if !((c >= 'a' && c <= 'z') || (c >= '0' && c <= '9')) {
			okA = false
		}
	}
	r.Check(okA, "R09.4", "func:commands.randomChars|alphabet", w.Pos(rcDecl.Pos()), fmt.Sprintf("cache-busting characters come from %d lower-case letters and digits", len(alpha)), "the cache-busting alphabet contains characters other than lower-case letters and digits: "+alpha)
}

// ================================================================ C10

func checkC10(w *World, r *Report) {
	r.Explanation = "Decides the agreement structure of response carriage: (R10.1) response Encode/Decode layout agreement as for requests; (R10.2) the set of DNS record types the Wrap* functions construct equals the case set of the reassembly type switch and of the order-tag reader, and the dispatcher covers every query type the client may select; (R10.3) per record type the number of order-tag bytes prepended when wrapping equals the prefix stripped when unwrapping and the width read for sorting; (R10.4) tag + chunk size equals the fixed rdata size for A (4) and AAAA (16); (R10.5) every name-carrying record (CNAME, MX, SRV) builds its target with PrepareHostname, whose label/length limits make the record packable; (R10.6) the record type registered for the private RR equals the type the tunnel emits and asks for; (R10.9) in every Wrap* function no capacity guard is decided by its operand's type alone (a guard that can never fire) and every narrowing integer conversion is proven in range from the dominating guards. Not decided: miekg Pack/Unpack (escaping, TXT string limits), capacity for all payload lengths, short last chunks of A/AAAA (they fail to pack: a reported failure)."
	r.NotDecided = []string{"miekg Pack/Unpack semantics (escaping, TXT limits)", "capacity for all payload lengths", "monotonicity of the TXT/CNAME tag arithmetic beyond 512 records"}
	r.Trusted = []string{"miekg/dns unpacks a registered private type into dns.PrivateRR and an unregistered one into dns.RFC3597"}
	r.Rule("R10.1", "response Encode/Decode layout agreement", 22)
	r.Rule("R10.2", "record types: wrap = unwrap = priority; dispatcher covers the selectable types", 2)
	r.Rule("R10.3", "order-tag width agreement per record type", 8)
	r.Rule("R10.4", "fixed-size records filled exactly", 2)
	r.Rule("R10.5", "name-carrying records go through PrepareHostname", 3)
	r.Rule("R10.6", "private record type registered = emitted", 1)
	r.Rule("R10.8", "reassembly strips the domain by length, never by character set", 1)
	r.Rule("R10.7", "tag + chunk fits the record type's rdata limit", 3)
	r.Rule("R10.11", "a response whose construction failed is never sent (it can hold a valid-looking prefix of the answer records)", 1)
	r.Rule("R10.10", "wrapping helpers never append to or write into the slices they are given", 1)
	r.Rule("R10.9", "order counters: capacity guards can fire, narrowing conversions proven in range", 8)

	pairLayouts(w, r, "R10.1", "Response")
	c10Records(w, r)
	c10Private(w, r)
	c10NoWriteIntoCallerSlices(w, r)
	c10NoPartialAnswerOnError(w, r)
	r.Rule("R10.14", "no downstream codec cuts a response short: ascii85.Decode has worst-case room or its consumed count is checked", 1)
	ruleAscii85Room(w, r, "R10.14")
	r.Rule("R10.17", "the label dots of host-name answers are removed by content (bytes tested to be '.'), never by position", 1)
	c10DotRemovalIsByContent(w, r)
	r.Rule("R10.16", "a response decoder that reports success has stored something into the answer (a refusal never arrives as a blank, granted answer)", 5)
	c10DecodedResponseIsNeverBlank(w, r)
	r.Rule("R10.15", "a record buffer of constant size is written completely on every path: records are never padded (the client has no length field to tell padding from payload)", 3)
	c10RecordBuffersAreNeverPadded(w, r)
	r.Rule("R10.13", "the reassembly sorts the answer records by keys read from the records themselves (a comparator over a precomputed key slice does not follow the swaps)", 1)
	ruleSortComparatorIndexesSortedSlice(w, r, "R10.13", func(p string) bool { return strings.HasPrefix(p, modPath+"/internal/streams/dns") })
	r.Rule("R10.12", "answer records keep no recycled memory: what is taken from a sync.Pool is scratch space only (a record is packed after the wrapping function returned)", 1)
	rulePoolMemoryStaysLocal(w, r, "R10.12", func(p string) bool { return strings.HasPrefix(p, modPath+"/internal/streams/dns") || strings.HasPrefix(p, modPath+"/internal/util/enc") })
}

type wrapInfo struct {
	Fn      *ssa.Function
	RRType  string
	TagLen  int64 // bytes prepended (make([]byte, K)); 0 when none
	Chunk   int64 // constant chunk size (0 if computed)
	ViaPrep bool
	Target  bool // name-carrying
}

func rrTypeName(t types.Type) string {
	if p, ok := t.(*types.Pointer); ok {
		t = p.Elem()
	}
	if n, ok := t.(*types.Named); ok && n.Obj().Pkg() != nil && n.Obj().Pkg().Path() == "github.com/miekg/dns" {
		return n.Obj().Name()
	}
	return ""
}

func c10Records(w *World, r *Report) {
	util := w.Pkg("internal/streams/dns/util")
	prog := w.SSA()
	sp := prog.Package(util.Types)
	rrIface := w.ByPath["github.com/miekg/dns"].Types.Scope().Lookup("RR").Type().Underlying().(*types.Interface)
	phObj := w.Func("internal/streams/dns/util", "PrepareHostname")
	wraps := map[string]wrapInfo{}
	var names []string
	for nm, m := range sp.Members {
		fn, ok := m.(*ssa.Function)
		if !ok || !strings.HasPrefix(nm, "WrapDnsResponse") || nm == "WrapDnsResponse" {
			continue
		}
		wi := wrapInfo{Fn: fn}
		allInstrs(fn, func(in ssa.Instruction) {
			switch x := in.(type) {
			case *ssa.Alloc:
				if name := rrTypeName(x.Type()); name != "" && implementsIface(x.Type(), rrIface) && name != "RR_Header" {
					wi.RRType = name
				}
			case *ssa.MakeSlice:
				if v, ok := constIntVal(x.Len); ok && v > 0 && v <= 4 {
					wi.TagLen = v
				} else if ok && v > 4 && wi.TagLen == 0 {
					// a presized record buffer: the tag is what binary.PutUintNN writes at its start
					if x.Referrers() != nil {
						for _, ref := range *x.Referrers() {
							if c, isCall := ref.(*ssa.Call); isCall {
								if f := sCallee(c); f != nil && f.Pkg() != nil && f.Pkg().Path() == "encoding/binary" {
									if wd := map[string]int64{"PutUint16": 2, "PutUint32": 4}[f.Name()]; wd > 0 {
										wi.TagLen = wd
									}
								}
							}
						}
					}
				}
			case *ssa.Slice:
				if _, lowered := x.X.(*ssa.Alloc); lowered {
					break // go/ssa's form of make([]byte, K): not a cut of the payload
				}
				if x.High != nil {
					if v, ok := constIntVal(x.High); ok && v > 0 {
						wi.Chunk = v
					}
				}
			case *ssa.Call:
				if sCallee(x) == phObj {
					wi.ViaPrep = true
				}
				// chunk size handed to a splitting helper: cut(data, N)
				if sc := x.Call.StaticCallee(); sc != nil && inModule(sc) && sCallee(x) != phObj {
					for i, a := range x.Call.Args {
						if v, ok := constIntVal(a); ok && v > 0 && i < len(sc.Params) {
							if bt, ok := sc.Params[i].Type().Underlying().(*types.Basic); ok && bt.Info()&types.IsInteger != 0 {
								wi.Chunk = v
							}
						}
					}
					// record type built by a helper
					allInstrs(sc, func(in2 ssa.Instruction) {
						if al, ok := in2.(*ssa.Alloc); ok {
							if name := rrTypeName(al.Type()); name != "" && implementsIface(al.Type(), rrIface) && name != "RR_Header" {
								wi.RRType = name
							}
						}
					})
					// order tag built by a helper that returns a small fixed-size byte slice
					if res := sc.Signature.Results(); res.Len() == 1 && isStringOrBytes(res.At(0).Type()) {
						allInstrs(sc, func(in2 ssa.Instruction) {
							switch y := in2.(type) {
							case *ssa.MakeSlice:
								if v, ok := constIntVal(y.Len); ok && v > 0 && v <= 4 {
									wi.TagLen = v
								}
							case *ssa.Alloc:
								if arr, ok := y.Type().(*types.Pointer).Elem().(*types.Array); ok {
									if b, ok := arr.Elem().Underlying().(*types.Basic); ok && b.Kind() == types.Uint8 && arr.Len() > 0 && arr.Len() <= 4 {
										wi.TagLen = arr.Len()
									}
								}
							}
						})
					}
				}
			case *ssa.Store:
				if fa, ok := x.Addr.(*ssa.FieldAddr); ok {
					if fv := fieldVarOf(fa); fv != nil && (fv.Name() == "Target" || fv.Name() == "Mx") && fv.Pkg() != nil && fv.Pkg().Path() == "github.com/miekg/dns" {
						wi.Target = true
					}
				}
			}
		})
		// small fixed arrays `new [K]byte` + slice for make([]byte, K) with constant K
		allInstrs(fn, func(in ssa.Instruction) {
			if al, ok := in.(*ssa.Alloc); ok {
				if arr, ok := al.Type().(*types.Pointer).Elem().(*types.Array); ok {
					if b, ok := arr.Elem().Underlying().(*types.Basic); ok && b.Kind() == types.Uint8 && arr.Len() > 0 && arr.Len() <= 4 {
						wi.TagLen = arr.Len()
					}
				}
			}
		})
		// the same facts where the loop lives in a shared helper and the record is built by a callback
		// (`wrapBinaryRecords(msg, data, func(hdr, record) dns.RR { return &dns.NULL{…} })`): closures of the wrapper,
		// its module helpers and their closures
		{
			var extra []*ssa.Function
			seenX := map[*ssa.Function]bool{fn: true}
			addX := func(g *ssa.Function) {
				if g != nil && !seenX[g] && inModule(g) && len(g.Blocks) > 0 {
					seenX[g] = true
					extra = append(extra, g)
				}
			}
			for _, a := range fn.AnonFuncs {
				addX(a)
			}
			for _, c := range callsIn(fn) {
				if sc := c.Common().StaticCallee(); sc != nil && sCallee(c) != phObj {
					addX(sc)
					for _, a := range sc.AnonFuncs {
						addX(a)
					}
				}
			}
			for _, g := range extra {
				allInstrs(g, func(in ssa.Instruction) {
					switch x := in.(type) {
					case *ssa.Alloc:
						if name := rrTypeName(x.Type()); name != "" && implementsIface(x.Type(), rrIface) && name != "RR_Header" && wi.RRType == "" {
							wi.RRType = name
						}
						if arr, ok := x.Type().(*types.Pointer).Elem().(*types.Array); ok && wi.TagLen == 0 {
							if b, ok := arr.Elem().Underlying().(*types.Basic); ok && b.Kind() == types.Uint8 && arr.Len() > 0 && arr.Len() <= 4 {
								wi.TagLen = arr.Len()
							}
						}
					case *ssa.MakeSlice:
						if v, ok := constIntVal(x.Len); ok && v > 0 && v <= 4 && wi.TagLen == 0 {
							wi.TagLen = v
						}
					case *ssa.Call:
						if sCallee(x) == phObj {
							wi.ViaPrep = true
						}
					case *ssa.Slice:
						if _, lowered := x.X.(*ssa.Alloc); lowered || x.High == nil || wi.Chunk != 0 {
							break
						}
						if v, ok := constIntVal(x.High); ok && v > 0 {
							wi.Chunk = v
						} else if k, ok := cappedAt(x.High); ok {
							wi.Chunk = k
						}
					case *ssa.Store:
						if fa, ok := x.Addr.(*ssa.FieldAddr); ok {
							if fv := fieldVarOf(fa); fv != nil && (fv.Name() == "Target" || fv.Name() == "Mx") && fv.Pkg() != nil && fv.Pkg().Path() == "github.com/miekg/dns" {
								wi.Target = true
							}
						}
					}
				})
			}
			// a cut capped in the wrapper itself: `take := len(data); if take > K { take = K }; data[:take]`
			if wi.Chunk == 0 {
				allInstrs(fn, func(in ssa.Instruction) {
					if sl, ok := in.(*ssa.Slice); ok && sl.High != nil && wi.Chunk == 0 {
						if k, ok := cappedAt(sl.High); ok {
							wi.Chunk = k
						}
					}
				})
			}
		}
		// a presized record buffer (larger than a tag): the tag is what binary.PutUintNN writes into it
		if wi.TagLen == 0 {
			allInstrs(fn, func(in ssa.Instruction) {
				c, ok := in.(*ssa.Call)
				if !ok {
					return
				}
				f := sCallee(c)
				if f == nil || f.Pkg() == nil || f.Pkg().Path() != "encoding/binary" {
					return
				}
				wd := map[string]int64{"PutUint16": 2, "PutUint32": 4}[f.Name()]
				if wd == 0 {
					return
				}
				for _, a := range c.Call.Args {
					if sl, ok := a.(*ssa.Slice); ok && sl.Low == nil {
						if _, isAlloc := sl.X.(*ssa.Alloc); isAlloc {
							wi.TagLen = wd
						}
					}
					if _, isMk := a.(*ssa.MakeSlice); isMk {
						wi.TagLen = wd
					}
				}
			})
		}
		if wi.RRType != "" {
			wraps[wi.RRType] = wi
			names = append(names, wi.RRType)
		}
	}
	sort.Strings(names)
	// case sets of the type switches in UnwrapDnsResponse and TypePriority: TypeAssert instructions on dns types
	caseSet := func(fn *ssa.Function) map[string]*ssa.TypeAssert {
		out := map[string]*ssa.TypeAssert{}
		if fn == nil {
			return out
		}
		// the per-record type switch may live in a helper of the function
		for _, g := range staticCone(fn, 2) {
			allInstrs(g, func(in ssa.Instruction) {
				if ta, ok := in.(*ssa.TypeAssert); ok {
					if name := rrTypeName(ta.AssertedType); name != "" {
						if _, have := out[name]; !have {
							out[name] = ta
						}
					}
				}
			})
		}
		return out
	}
	unwrap := w.SSAFunc(w.Func("internal/streams/dns/util", "UnwrapDnsResponse"))
	prio := w.SSAFunc(w.Func("internal/streams/dns/util", "TypePriority"))
	uc, pc := caseSet(unwrap), caseSet(prio)
	setStr := func(m map[string]*ssa.TypeAssert) []string {
		var o []string
		for k := range m {
			o = append(o, k)
		}
		sort.Strings(o)
		return o
	}
	same := fmt.Sprint(names) == fmt.Sprint(setStr(uc)) && fmt.Sprint(names) == fmt.Sprint(setStr(pc))
	r.Check(same && len(names) > 0, "R10.2", "recordtypes:wrap=unwrap=priority", w.Pos(unwrap.Pos()), fmt.Sprintf("all three handle exactly %v", names),
		fmt.Sprintf("record types disagree: wrapped %v, reassembled %v, ordered %v — a record type that is produced but not reassembled yields a silently empty payload", names, setStr(uc), setStr(pc)))
	// dispatcher covers QueryTypesByPriority
	disp := w.Decl(w.Func("internal/streams/dns/util", "WrapDnsResponse"))
	covered := map[types.Object]bool{}
	if disp != nil {
		ast.Inspect(disp.Body, func(x ast.Node) bool {
			if cc, ok := x.(*ast.CaseClause); ok {
				for _, e := range cc.List {
					if obj := usedObj(util.TypesInfo, e); obj != nil {
						covered[obj] = true
					}
				}
			}
			// table-driven dispatch: a row {QueryTypeX, WrapDnsResponseX} or a map entry QueryTypeX: WrapDnsResponseX
			rowObjs := func(exprs []ast.Expr) {
				var objs []types.Object
				hasWrapper := false
				for _, e := range exprs {
					if kv, ok := e.(*ast.KeyValueExpr); ok {
						e = kv.Value
					}
					if obj := usedObj(util.TypesInfo, e); obj != nil {
						if f, isF := obj.(*types.Func); isF && strings.HasPrefix(f.Name(), "WrapDnsResponse") {
							hasWrapper = true
						} else {
							objs = append(objs, obj)
						}
					}
				}
				if hasWrapper {
					for _, o := range objs {
						covered[o] = true
					}
				}
			}
			if cl, ok := x.(*ast.CompositeLit); ok {
				rowObjs(cl.Elts)
			}
			if kv, ok := x.(*ast.KeyValueExpr); ok {
				rowObjs([]ast.Expr{kv.Key, kv.Value})
			}
			return true
		})
	}
	var missing []string
	nsel := 0
	for _, f := range util.Syntax {
		ast.Inspect(f, func(x ast.Node) bool {
			vs, ok := x.(*ast.ValueSpec)
			if !ok || len(vs.Names) != 1 || vs.Names[0].Name != "QueryTypesByPriority" || len(vs.Values) != 1 {
				return true
			}
			if cl, ok := vs.Values[0].(*ast.CompositeLit); ok {
				for _, el := range cl.Elts {
					if obj := usedObj(util.TypesInfo, el); obj != nil {
						nsel++
						if !covered[obj] {
							missing = append(missing, obj.Name())
						}
					}
				}
			}
			return true
		})
	}
	r.Check(len(missing) == 0 && nsel > 0, "R10.2", "dispatch:WrapDnsResponse|covers-selectable", w.Pos(disp.Pos()), fmt.Sprintf("all %d selectable query types have a wrapper", nsel), fmt.Sprintf("query types the client may select have no wrapper: %v", missing))

	// R10.3: tag width per type
	stripOf := func(fn *ssa.Function, ta *ssa.TypeAssert) (int64, bool) {
		// constants used as slice Low on values derived from the asserted value, in blocks dominated by the assert's ok-edge
		if ta == nil {
			return 0, false
		}
		var best int64 = 0
		found := false
		region := func(b *ssa.BasicBlock) bool {
			// the case body: blocks dominated by the block where the extracted value is used
			for _, ref := range *ta.Referrers() {
				if ex, ok := ref.(*ssa.Extract); ok && ex.Index == 0 {
					for _, use := range *ex.Referrers() {
						if use.Block() == b || use.Block().Dominates(b) {
							return true
						}
					}
				}
			}
			return false
		}
		isPrio := fn.Name() == "TypePriority"
		fn = ta.Parent() // the function that holds the type switch (the entry point or its helper)
		allInstrs(fn, func(in ssa.Instruction) {
			if !region(in.Block()) {
				return
			}
			switch x := in.(type) {
			case *ssa.Slice:
				if x.Low != nil {
					if v, ok := constIntVal(x.Low); ok && v > 0 && v <= 4 {
						best, found = v, true
					}
				}
				if x.High != nil && isPrio {
					if v, ok := constIntVal(x.High); ok && v > 0 && v <= 4 {
						best, found = v, true
					}
				}
			}
		})
		if !found {
			// the switch lives in a helper that hands the width back: `case *dns.CNAME: return v.Target, 2, true`,
			// and the caller cuts `name[width:]`
			allInstrs(fn, func(in ssa.Instruction) {
				ret, ok := in.(*ssa.Return)
				if !ok || len(ret.Results) < 2 || !region(in.Block()) {
					return
				}
				for i, res := range ret.Results {
					k, isC := constIntVal(res)
					if bt, okb := res.Type().Underlying().(*types.Basic); !isC || !okb || bt.Info()&types.IsInteger == 0 {
						continue
					}
					for _, caller := range sortedModuleFuncs(w, w.SSA()) {
						for _, c := range callsIn(caller) {
							call, isCall := c.(*ssa.Call)
							if !isCall || c.Common().StaticCallee() != fn || call.Referrers() == nil {
								continue
							}
							for _, ref := range *call.Referrers() {
								ex, ok := ref.(*ssa.Extract)
								if !ok || ex.Index != i || ex.Referrers() == nil {
									continue
								}
								for _, use := range *ex.Referrers() {
									if sl, ok := use.(*ssa.Slice); ok && sl.Low == ssa.Value(ex) && k >= 0 && k <= 4 {
										best, found = k, true
									}
								}
							}
						}
					}
				}
			})
		}
		return best, found
	}
	for _, name := range names {
		wi := wraps[name]
		key := "recordtype:" + name + "|tag"
		us, okU := stripOf(unwrap, uc[name])
		if !okU {
			us = 0
		}
		r.Check(us == wi.TagLen, "R10.3", key, w.Pos(wi.Fn.Pos()), fmt.Sprintf("%d order-tag byte(s) prepended and %d stripped", wi.TagLen, us),
			fmt.Sprintf("%s prepends %d order-tag byte(s) but the reassembly strips %d: every record loses or gains payload bytes", wi.Fn.Name(), wi.TagLen, us))
	}
	// R10.4
	for name, size := range map[string]int64{"A": 4, "AAAA": 16} {
		wi, ok := wraps[name]
		key := "recordtype:" + name + "|fixed-size"
		if !ok {
			r.Undecided("R10.4", key, "-", "wrapper not found")
			continue
		}
		r.Check(wi.TagLen+wi.Chunk == size, "R10.4", key, w.Pos(wi.Fn.Pos()), fmt.Sprintf("tag %d + chunk %d = %d octets", wi.TagLen, wi.Chunk, size),
			fmt.Sprintf("tag %d + chunk %d != %d: the address record cannot be packed", wi.TagLen, wi.Chunk, size))
	}
	// R10.7: tag + chunk fits the rdata limit of the record type
	for name, limit := range map[string]int64{"TXT": 255, "NULL": 65535, "PrivateRR": 65535} {
		wi, ok := wraps[name]
		key := "recordtype:" + name + "|capacity"
		if !ok {
			r.Undecided("R10.7", key, "-", "wrapper not found")
			continue
		}
		r.Check(wi.Chunk > 0 && wi.TagLen+wi.Chunk <= limit, "R10.7", key, w.Pos(wi.Fn.Pos()), fmt.Sprintf("tag %d + chunk %d <= %d", wi.TagLen, wi.Chunk, limit),
			fmt.Sprintf("tag %d + chunk %d exceeds the %d-octet limit of a %s %s: such a record cannot be packed", wi.TagLen, wi.Chunk, limit, name, mapStr(name == "TXT", "character-string")+mapStr(name != "TXT", "rdata")))
	}
	// R10.9: the per-record order counter cannot overflow its tag silently: every capacity guard can
	// actually fire (no comparison decided by the operand's type alone) and every narrowing integer
	// conversion in the wrappers is proven in range by the dominating guards
	for _, name := range names {
		wi := wraps[name]
		key := "recordtype:" + name + "|tag-range"
		var bad []string
		ncmp, nconv := 0, 0
		for _, f := range staticCone(wi.Fn, 2) {
			allInstrs(f, func(in ssa.Instruction) {
				switch x := in.(type) {
				case *ssa.BinOp:
					if why := vacuousComparison(x); why != "" {
						bad = append(bad, w.Pos(x.Pos())+": "+why)
					}
					switch x.Op {
					case token.LSS, token.LEQ, token.GTR, token.GEQ:
						ncmp++
					}
				case *ssa.Convert:
					lo, hi, narrowing := narrowingRange(x)
					if !narrowing {
						return
					}
					nconv++
					sys := factsAt(in)
					v := linOf(x.X, 0)
					if !sys.entails(linConst(lo), v) || !sys.entails(v, linConst(hi)) {
						bad = append(bad, fmt.Sprintf("%s: %s is narrowed to %s without a dominating guard that keeps it within [%d, %d]: the order tag wraps around and records are reassembled in the wrong order without an error", w.Pos(x.Pos()), x.X.Name(), x.Type(), lo, hi))
					}
				}
			})
		}
		sort.Strings(bad)
		r.Check(len(bad) == 0, "R10.9", key, w.Pos(wi.Fn.Pos()), fmt.Sprintf("%d ordering comparison(s) none decided by the operand type; %d narrowing conversion(s) proven in range", ncmp, nconv), strings.Join(bad, "; "))
	}
	// R10.8: payload-carrying names are never trimmed with a cutset function
	{
		seen := map[*ssa.Function]bool{}
		var bad []string
		nfun := 0
		var walk func(f *ssa.Function, d int)
		walk = func(f *ssa.Function, d int) {
			if f == nil || seen[f] || d > 4 || !inModule(f) {
				return
			}
			seen[f] = true
			nfun++
			for _, c := range callsIn(f) {
				cal := sCallee(c)
				if cal != nil && cal.Pkg() != nil && (cal.Pkg().Path() == "strings" || cal.Pkg().Path() == "bytes") {
					switch cal.Name() {
					case "Trim", "TrimLeft", "TrimRight", "TrimFunc", "TrimLeftFunc", "TrimRightFunc", "TrimSpace":
						bad = append(bad, fmt.Sprintf("%s: %s.%s removes every trailing/leading character of a SET, not a suffix: payload characters that also occur in the domain are eaten and a shorter payload is decoded without an error", w.Pos(c.Pos()), cal.Pkg().Name(), cal.Name()))
					}
				}
				if sc := c.Common().StaticCallee(); sc != nil {
					walk(sc, d+1)
				}
			}
		}
		walk(unwrap, 0)
		sort.Strings(bad)
		r.Check(len(bad) == 0, "R10.8", "func:util.UnwrapDnsResponse|no-cutset-trim", w.Pos(unwrap.Pos()), fmt.Sprintf("%d function(s) in the reassembly cone, none trims payload by character set", nfun), strings.Join(bad, "; "))
	}
	// R10.5
	for _, name := range names {
		wi := wraps[name]
		if !wi.Target {
			continue
		}
		r.Check(wi.ViaPrep, "R10.5", "recordtype:"+name+"|target", w.Pos(wi.Fn.Pos()), "target name built by PrepareHostname (labels <= 63, name <= limit)",
			wi.Fn.Name()+" concatenates the target name by hand: labels of up to ~190 octets that miekg cannot pack (dns: bad rdata) — the payload can never be carried in this record type although the siblings use PrepareHostname")
	}
}

func c10Private(w *World, r *Report) {
	key := "privaterr:registered=emitted"
	var regType int64 = -1
	var regPos string
	for _, fn := range sortedModuleFuncs(w, w.SSA()) {
		for _, c := range callsIn(fn) {
			f := sCallee(c)
			if f != nil && f.Pkg() != nil && f.Pkg().Path() == "github.com/miekg/dns" && f.Name() == "PrivateHandle" {
				if v, ok := constIntVal(c.Common().Args[1]); ok {
					regType = v
					regPos = w.Pos(c.Pos())
				}
			}
		}
	}
	// the emitted / asked-for type: initial value of util.QueryTypePrivate
	util := w.Pkg("internal/streams/dns/util")
	var emitted int64 = -1
	for _, f := range util.Syntax {
		ast.Inspect(f, func(x ast.Node) bool {
			vs, ok := x.(*ast.ValueSpec)
			if !ok {
				return true
			}
			for i, nm := range vs.Names {
				if nm.Name == "QueryTypePrivate" && i < len(vs.Values) {
					if c, ok := unparen(vs.Values[i]).(*ast.CallExpr); ok && len(c.Args) == 1 {
						if v, ok := constInt(util.TypesInfo, c.Args[0]); ok {
							emitted = v
						}
					} else if v, ok := constInt(util.TypesInfo, vs.Values[i]); ok {
						emitted = v
					}
				}
			}
			return true
		})
	}
	if regType < 0 || emitted < 0 {
		r.Undecided("R10.6", key, "-", fmt.Sprintf("constants not resolved (registered %d, emitted %d)", regType, emitted))
		return
	}
	r.Check(regType == emitted, "R10.6", key, regPos, fmt.Sprintf("private record type %d is both registered with miekg and emitted/queried", regType),
		fmt.Sprintf("the private RR is registered as type %d (0x%X) but records are emitted and queried with type %d: on the client they unpack as unknown RRs, match no reassembly case, and the payload is silently empty", regType, regType, emitted))
}

// c10NoWriteIntoCallerSlices: R10.10 — the helpers that turn a payload into names/records are handed
// sub-slices of the response being split (data[0:maxLen]); the capacity of such a slice reaches into the
// bytes of the NEXT record. A helper that appends to a slice parameter therefore
// overwrites data that is still to be sent — silently, lengths and alphabet stay right.
func c10NoWriteIntoCallerSlices(w *World, r *Report) {
	n := 0
	var bad []string
	for _, fn := range sortedModuleFuncs(w, w.SSA()) {
		f0 := fn
		for f0.Parent() != nil {
			f0 = f0.Parent()
		}
		if f0.Pkg == nil || f0.Pkg.Pkg.Path() != modPath+"/internal/streams/dns/util" {
			continue
		}
		fromParam := func(v ssa.Value) *ssa.Parameter {
			for _, root := range provenance(v, provOpts{}) {
				if p, ok := root.(*ssa.Parameter); ok {
					if _, isSlice := p.Type().Underlying().(*types.Slice); isSlice && p.Parent() == fn {
						return p
					}
				}
			}
			return nil
		}
		allInstrs(fn, func(in ssa.Instruction) {
			switch x := in.(type) {
			case *ssa.Call:
				if b, ok := x.Call.Value.(*ssa.Builtin); ok && b.Name() == "append" && len(x.Call.Args) > 0 {
					n++
					if p := fromParam(x.Call.Args[0]); p != nil {
						if site := subSliceReaches(w, fn, p, 0); site != "" {
							bad = append(bad, fmt.Sprintf("%s: %s appends to its slice parameter %s, and %s hands it a sub-slice of a longer buffer: the spare capacity is the caller's following bytes (the next record's payload), which are overwritten — lengths and alphabet stay right, the payload is silently different", w.Pos(x.Pos()), ssaFuncKey(fn), p.Name(), site))
						}
					}
				}
			}
		})
	}
	sort.Strings(bad)
	r.Check(len(bad) == 0 && n > 0, "R10.10", "pkg:streams/dns/util|no-write-into-caller-slices", "-", fmt.Sprintf("%d append site(s) in the wrapping helpers, none extends a slice parameter in place (copy/element stores into output buffers such as Read(p) are a different contract and not judged)", n), strings.Join(bad, "; "))
}

// subSliceReaches: does some static call chain hand parameter p of fn a sub-slice x[a:b] (b given) of a
// longer buffer? Returns the call site.
func subSliceReaches(w *World, fn *ssa.Function, p *ssa.Parameter, depth int) string {
	if depth > 3 {
		return ""
	}
	idx := -1
	for i, q := range fn.Params {
		if q == p {
			idx = i
		}
	}
	if idx < 0 {
		return ""
	}
	for _, caller := range sortedFuncs(allModuleFuncs(w, w.SSA())) {
		for _, c := range callsIn(caller) {
			if c.Common().StaticCallee() != fn || idx >= len(c.Common().Args) {
				continue
			}
			for _, root := range provenance(c.Common().Args[idx], provOpts{}) {
				switch x := root.(type) {
				case *ssa.Slice:
					if x.High != nil {
						if _, fresh := x.X.(*ssa.Alloc); !fresh {
							return w.Pos(c.Pos()) + " (" + ssaFuncKey(caller) + ")"
						}
					}
				case *ssa.Parameter:
					if x.Parent() == caller {
						if s := subSliceReaches(w, caller, x, depth+1); s != "" {
							return s
						}
					}
				}
			}
		}
	}
	return ""
}

// c09Dotify: R09.3 for the dot inserter, decided with the linear-entailment engine (A10) instead of a
// fixed code shape: the output is built by appends of pieces of the input and of single dots;
//  (a) every piece has a provable length <= 63 (a DNS label);
//  (b) after every dot, on every path, another piece follows whose length is provably >= 1 — otherwise
//      the name ends in, or contains, an empty label and cannot be packed.
func c09Dotify(w *World, r *Report, dot *ssa.Function) { ruleDotify(w, r, "R09.3", dot) }

func ruleDotify(w *World, r *Report, rule string, dot *ssa.Function) {
	key := "func:util.Dotify|labels"
	pos := w.Pos(dot.Pos())
	isDotSlice := func(v ssa.Value) bool {
		sl, ok := v.(*ssa.Slice)
		if !ok {
			return false
		}
		al, ok := sl.X.(*ssa.Alloc)
		if !ok {
			return false
		}
		arr, ok := al.Type().(*types.Pointer).Elem().Underlying().(*types.Array)
		if !ok || arr.Len() != 1 {
			return false
		}
		isDot := false
		for _, ref := range *al.Referrers() {
			if ia, ok := ref.(*ssa.IndexAddr); ok {
				for _, r2 := range *ia.Referrers() {
					if st, ok := r2.(*ssa.Store); ok {
						if c, ok := constIntVal(st.Val); ok && c == '.' {
							isDot = true
						}
					}
				}
			}
		}
		return isDot
	}
	appendOf := func(in ssa.Instruction) (piece ssa.Value, isDot bool, ok bool) {
		c, isCall := in.(*ssa.Call)
		if !isCall {
			return nil, false, false
		}
		b, isB := c.Call.Value.(*ssa.Builtin)
		if !isB || b.Name() != "append" || len(c.Call.Args) != 2 {
			return nil, false, false
		}
		if isDotSlice(c.Call.Args[1]) {
			return nil, true, true
		}
		return c.Call.Args[1], false, true
	}
	var dots, pieces []ssa.Instruction
	allInstrs(dot, func(in ssa.Instruction) {
		if _, isD, ok := appendOf(in); ok {
			if isD {
				dots = append(dots, in)
			} else {
				pieces = append(pieces, in)
			}
		}
	})
	if len(dots) == 0 || len(pieces) == 0 {
		r.Undecided(rule, key, pos, "the dot inserter is not built from appends of input pieces and '.' (idiom not recognised)")
		return
	}
	var bad []string
	// (a) label length
	for _, pi := range pieces {
		piece, _, _ := appendOf(pi)
		sys := factsAt(pi)
		if !sys.entails(lenOf(piece, 0), linConst(63)) {
			bad = append(bad, fmt.Sprintf("%s: a piece of the input is appended whose length is not proven <= 63: a DNS label may not exceed 63 octets, longer names cannot be packed", w.Pos(pi.Pos())))
		}
	}
	// (b) something non-empty follows every dot
	isPiece := func(in ssa.Instruction) bool { _, isD, ok := appendOf(in); return ok && !isD }
	for _, di := range dots {
		base := factsAt(di)
		okp := enumPaths(dot, di, nil, func(in ssa.Instruction) bool { return isPiece(in) || in == di }, func(e pathExit) {
			if e.Stop == nil {
				if _, isRet := e.Last.(*ssa.Return); isRet {
					bad = append(bad, fmt.Sprintf("%s: after this dot the function can return without appending anything: the name ends in an empty label", w.Pos(di.Pos())))
				}
				return
			}
			if e.Stop == di {
				bad = append(bad, fmt.Sprintf("%s: two dots can be appended in a row (empty label)", w.Pos(di.Pos())))
				return
			}
			piece, _, _ := appendOf(e.Stop)
			// evaluate the piece's length along this path in terms of the values that existed when the dot was appended
			pe := evalPath(di, e.Stop, e.State)
			if !base.entails(linConst(1), pe.lenOf(piece)) {
				bad = append(bad, fmt.Sprintf("%s: the piece appended after the dot at %s is not proven non-empty on a path: when the input length is an exact multiple of the label length the name gets an empty label (\"..\" before the domain) and dns.Msg.Pack refuses it", w.Pos(e.Stop.Pos()), w.Pos(di.Pos())))
			}
		})
		if !okp {
			r.Undecided(rule, key, pos, "path budget exceeded")
			return
		}
	}
	sort.Strings(bad)
	bad = uniqStrings(bad)
	r.Check(len(bad) == 0, rule, key, pos, fmt.Sprintf("%d piece append(s) proven <= 63 octets; after each of the %d dot append(s) a provably non-empty piece follows on every path", len(pieces), len(dots)), strings.Join(bad, "; "))
}

func uniqStrings(in []string) []string {
	var out []string
	for i, s := range in {
		if i == 0 || s != in[i-1] {
			out = append(out, s)
		}
	}
	return out
}


// c10NoPartialAnswerOnError: R10.11 — EncodeDnsResponse returns the half-built message together with its
// error (e.g. 255 well-formed A records when record 256 does not fit). Whoever writes to the wire must not
// send that message: the client does not look at the rcode, decodes the prefix as a complete payload and
// acknowledges it, so the rest of the stream is lost for good.
func c10NoPartialAnswerOnError(w *World, r *Report) {
	key := "handler:dns.HandleFunc|no-partial-answer"
	n := 0
	bad := ""
	for _, fn := range dnsPkgFuncs(w) {
		for _, c := range callsIn(fn) {
			f := sCallee(c)
			if f == nil || f.Name() != "WriteMsg" || len(c.Common().Args) == 0 {
				continue
			}
			n++
			arg := c.Common().Args[len(c.Common().Args)-1]
			stop, _ := c.(ssa.Instruction)
			okp := enumPaths(fn, nil, nil, func(in ssa.Instruction) bool { return in == stop }, func(e pathExit) {
				if e.Stop == nil || bad != "" {
					return
				}
				// where does the message come from on this path?
				for _, root := range provenance(e.State.Resolve(arg), provOpts{}) {
					root = e.State.Resolve(root)
					ex, ok := root.(*ssa.Extract)
					if !ok || ex.Index != 0 {
						continue
					}
					call, ok := ex.Tuple.(*ssa.Call)
					if !ok {
						continue
					}
					tup, ok := call.Type().(*types.Tuple)
					if !ok || tup.Len() < 2 {
						continue
					}
					// the producing call's error must be known nil on this path
					var errv ssa.Value
					for _, ref := range *call.Referrers() {
						if ex2, ok := ref.(*ssa.Extract); ok && ex2.Index == tup.Len()-1 {
							errv = ex2
						}
					}
					if errv == nil {
						bad = fmt.Sprintf("%s: the message sent comes from a call whose error result is dropped", w.Pos(c.Pos()))
						continue
					}
					if isNil, known := e.State.NilKnown(errv); !known || !isNil {
						bad = fmt.Sprintf("%s: the message that is written to the wire can be the one returned together with an error: a response that could not be built completely (too many records) still holds its well-formed first records, which the client decodes as a complete payload and acknowledges — the remainder is never delivered and nothing reports it", w.Pos(c.Pos()))
					}
				}
			})
			if !okp {
				bad = "path budget exceeded"
			}
		}
	}
	if n == 0 {
		r.Undecided("R10.11", key, "-", "no WriteMsg call found in the DNS tunnel packages")
		return
	}
	r.Check(bad == "", "R10.11", key, "-", fmt.Sprintf("%d WriteMsg call(s); a message that came with an error is never written", n), bad)
}

// c09UnescapeTight: R09.5 — StripDomain undoes what miekg/dns does to a question name on the wire: dots
// between labels, "\\DDD" for bytes outside the printable range, "\\c" for the characters it escapes. Each
// branch of its loop consumes a fixed number k of bytes (data = data[k:]). If the comparisons that dominate
// such a step entail len(data) >= k+1, the k-byte form is refused exactly when it is the LAST thing in the
// input, and the remainder is dropped or left to a branch that discards it: the server decodes a request that
// is one character short. Decided with the linear-entailment engine (A10).
func c09UnescapeTight(w *World, r *Report) {
	fn := w.SSAFunc(w.Func("internal/streams/dns/commands", "StripDomain"))
	key := "func:commands.StripDomain|consuming-steps"
	if fn == nil {
		r.Undecided("R09.5", key, "-", "anchor unresolved: commands.StripDomain")
		return
	}
	n := 0
	var bad []string
	for _, g := range staticCone(fn, 1) {
		allInstrs(g, func(in ssa.Instruction) {
			sl, ok := in.(*ssa.Slice)
			if !ok || sl.High != nil || sl.Low == nil {
				return
			}
			k, isC := constIntVal(sl.Low)
			if !isC || k < 1 {
				return
			}
			// only steps that advance the loop-carried input (the slice feeds a phi of the same buffer)
			feedsPhi := false
			for _, ref := range *sl.Referrers() {
				if _, ok := ref.(*ssa.Phi); ok {
					feedsPhi = true
				}
			}
			if !feedsPhi {
				return
			}
			n++
			sys := factsAt(in)
			if sys.entails(linConst(k+1), lenOf(sl.X, 0)) {
				bad = append(bad, fmt.Sprintf("%s: the step that consumes %d byte(s) runs only where at least %d remain: the same form at the very end of the name (after the domain was cut off nothing follows it) is not consumed — a payload whose last character is one that DNS escapes arrives one character short", w.Pos(sl.Pos()), k, k+1))
			}
		})
	}
	sort.Strings(bad)
	r.Check(len(bad) == 0 && n > 0, "R09.5", key, w.Pos(fn.Pos()), fmt.Sprintf("%d consuming step(s), none guarded more strictly than its own width", n), strings.Join(bad, "; ")+mapStr(n == 0, "no consuming step found in the unescaper (idiom not recognised)"))
}

// cappedAt: v is `x` capped by a constant — phi(x, K) where the K edge comes from the branch `x > K` (or `K < x`,
// `x >= K`): then v <= K.
func cappedAt(v ssa.Value) (int64, bool) {
	ph, ok := v.(*ssa.Phi)
	if !ok || len(ph.Edges) != 2 {
		return 0, false
	}
	for i := 0; i < 2; i++ {
		k, isC := constIntVal(ph.Edges[i])
		if !isC || k <= 0 {
			continue
		}
		x := ph.Edges[1-i]
		// the predecessor that supplies K is entered on the true edge of `x > K`
		pred := ph.Block().Preds[i]
		for _, pp := range pred.Preds {
			ifi, ok := pp.Instrs[len(pp.Instrs)-1].(*ssa.If)
			if !ok || pp.Succs[0] != pred {
				continue
			}
			b, ok := ifi.Cond.(*ssa.BinOp)
			if !ok {
				continue
			}
			if kk, isK := constIntVal(b.Y); isK && kk == k && b.X == x && (b.Op == token.GTR || b.Op == token.GEQ) {
				return k, true
			}
			if kk, isK := constIntVal(b.X); isK && kk == k && b.Y == x && (b.Op == token.LSS || b.Op == token.LEQ) {
				return k, true
			}
		}
	}
	return 0, false
}
