package main

// C11 — DNS auto-negotiation only settles on parameters that work.

import (
	"fmt"
	"go/ast"
	"go/token"
	"go/types"
	"os"
	"sort"
	"strings"

	"golang.org/x/tools/go/ssa"
)

func init() { register("C11", checkC11) }

func checkC11(w *World, r *Report) {
	r.Explanation = "Decides the structural part of 'probe, then commit, and terminate': (R11.1) in Handshake every commit step is dominated by its probe (upstream codec, downstream codec, fragment size which also receives the probe's result, version handshake after query-type detection when none is preset) and Handshake reports success only on the err == nil edges of the version handshake, the fragment-size probe and the fragment-size switch; (R11.2) every auto-detection candidate is in the codec registry and every upstream candidate has at least one test pattern (an empty list passes the probe vacuously); (R11.3) the fragment-probe generator on the server and the checker on the client use equal constants and both ends compare against the single DownloadCodecCheck pattern; (R11.4) every loop in Handshake's synchronous call cone whose exit depends on loop-carried variables changes one of them on every cyclic path (no no-progress path: the handshake cannot repeat the same probe forever); (R11.5) every codec assigned to the upstream direction without having passed the probe (case-swap and error fall-backs) has an alphabet that stays injective under ASCII case folding. (R11.7) on every successful path of Handshake the last step that can change the upstream codec is followed by a store of the freshly computed upstream fragment size (the size is a function of the codec's ratio: a stale one overruns the 253-octet name with the sparser fall-back codec). Not decided: 'probe passed => data transfer works on that path', lost replies to a commit."
	r.NotDecided = []string{"probe passed => arbitrary data carried correctly over the same path", "behaviour under 8-bit mangling / size limits", "lost replies to a commit (client falls back while the server switched)"}
	r.Trusted = []string{"DNS paths may fold ASCII case only"}
	r.Rule("R11.1", "probe before commit; success only after the mandatory steps succeeded", 5)
	r.Rule("R11.2", "every candidate codec is selectable and testable", 2)
	r.Rule("R11.3", "probe patterns agree on both ends", 2)
	r.Rule("R11.4", "handshake loops make progress", 8)
	r.Rule("R11.5", "fall-back codecs survive case folding", 3)
	r.Rule("R11.8", "the downstream fragment size recorded as working is the very value that was probed", 1)
	r.Rule("R11.7", "the upstream fragment size is recomputed after the last change of the upstream codec", 1)
	r.Rule("R11.6", "the committed query type passed its probe", 1)
	r.Rule("R11.14", "the fragment-size probe answer has a header at least as long as the data answer's: a payload size that passed the probe fits a data answer", 1)
	c11ProbeHeaderCoversDataHeader(w, r)
	r.Rule("R11.13", "a codec detection step never stores a codec whose probe failed on that path, and never returns (connection open) without having stored one", 2)
	c11CodecCommitFollowsItsProbe(w, r)
	r.Rule("R11.12", "a fragment of every size below the negotiated one makes a valid name: the dot inserter never leaves an empty label", 1)
	if dot := w.SSAFunc(w.Func("internal/streams/dns/util", "Dotify")); dot == nil {
		r.Undecided("R11.12", "func:util.Dotify", "-", "anchor unresolved")
	} else {
		ruleDotify(w, r, "R11.12", dot)
	}
	r.Rule("R11.11", "the server decodes what the probed codec sent: the regular expressions of the name unescaper are anchored (an unanchored one corrupts only names the probe pattern does not contain)", 1)
	ruleUnescaperRegexpsAnchored(w, r, "R11.11")
	r.Rule("R11.10", "the step that commits a probed value (the fragment-size switch) reports a failed exchange with the server as a failure", 1)
	c11MandatoryStepsReportCommunicationErrors(w, r)
	r.Rule("R11.9", "no step of the handshake can end the process instead of reporting: every Unlock in the DNS client releases a mutex held on every path reaching it", 10)
	ruleUnlockHeld(w, r, "R11.9", func(p string) bool { return strings.HasPrefix(p, modPath+"/internal/streams/dns") })

	cdc := w.Named("internal/streams/dns", "ClientDnsConnection")
	hsM := methodOf(cdc, "Handshake")
	hs := w.SSAFunc(hsM)
	if cdc == nil || hs == nil {
		r.Undecided("R11.1", "method:(*streams/dns.ClientDnsConnection).Handshake", "-", "anchor unresolved")
		return
	}
	callOf := func(name string) *ssa.Call {
		m := methodOf(cdc, name)
		for _, c := range callsIn(hs) {
			if call, ok := c.(*ssa.Call); ok && sCallee(c) == m && m != nil {
				return call
			}
		}
		return nil
	}
	// ---------------------------------------------------------------- R11.1
	for _, pair := range [][2]string{{"AutodetectEncodingUpstream", "SetEncodingUpstream"}, {"AutodetectEncodingDowntream", "SetEncodingDownstream"}, {"AutodetectFragmentSize", "SwitchFragmentSize"}} {
		probe, commit := callOf(pair[0]), callOf(pair[1])
		key := "order:" + pair[0] + "->" + pair[1]
		if probe == nil || commit == nil {
			r.Violate("R11.1", key, w.Pos(hsM.Pos()), "Handshake no longer calls both the probe and the commit step")
			continue
		}
		okd := instrDominates(probe, commit)
		msg := "commit is dominated by its probe"
		if okd && pair[1] == "SwitchFragmentSize" {
			// receives the probe's result, on its err == nil edge
			fromProbe := false
			for _, root := range provenance(commit.Call.Args[1], provOpts{}) {
				if ex, ok := root.(*ssa.Extract); ok && ex.Tuple == ssa.Value(probe) && ex.Index == 0 {
					fromProbe = true
				}
			}
			var errv ssa.Value
			for _, ref := range *probe.Referrers() {
				if ex, ok := ref.(*ssa.Extract); ok && ex.Index == 1 {
					errv = ex
				}
			}
			if !fromProbe || errv == nil || !dominatedByCondNil(hs, commit, func(v ssa.Value) bool { x, _, ok := nilTest(v); return ok && x == errv }) {
				okd = false
			}
			msg = "commit receives the probed size on the probe's err == nil edge"
		}
		r.Check(okd, "R11.1", key, w.Pos(commit.Pos()), msg, "the commit step "+pair[1]+" is not dominated by (the successful result of) its probe "+pair[0]+": parameters are committed that were never tested on this path")
	}
	// version handshake after query type detection (when not preset)
	{
		key := "order:AutoDetectQueryType->VersionHandshake"
		probe, vh := callOf("AutoDetectQueryType"), callOf("VersionHandshake")
		if probe == nil || vh == nil {
			r.Violate("R11.1", key, w.Pos(hsM.Pos()), "Handshake no longer performs query-type detection and the version handshake")
		} else {
			// every path to VersionHandshake either has QueryType != nil (preset) or passed AutoDetectQueryType with err == nil
			bad := ""
			enumPaths(hs, nil, func(in ssa.Instruction) bool { return in == ssa.Instruction(probe) }, func(in ssa.Instruction) bool { return in == ssa.Instruction(vh) }, func(e pathExit) {
				if e.Stop == nil {
					return
				}
				if len(e.State.Events) > 0 {
					if isNil, known := e.State.NilKnown(probe); !(known && isNil) {
						bad = "the version handshake is reached after a failed query-type detection"
					}
					return
				}
				preset := false
				for v, t := range e.State.Facts {
					if x, eq, ok := nilTest(v); ok && t != eq {
						if fa := asFieldAddr(x); fa != nil && fieldVarOf(fa) != nil && fieldVarOf(fa).Name() == "QueryType" {
							preset = true
						}
					}
				}
				if !preset {
					bad = "the version handshake is reached without a query type (neither preset nor detected)"
				}
			})
			r.Check(bad == "", "R11.1", key, w.Pos(vh.Pos()), "the version handshake runs with a preset or successfully detected query type", bad)
		}
	}
	// success only after mandatory steps succeeded
	{
		key := "method:(*streams/dns.ClientDnsConnection).Handshake|success"
		must := []*ssa.Call{callOf("VersionHandshake"), callOf("AutodetectFragmentSize"), callOf("SwitchFragmentSize")}
		bad := ""
		succ := 0
		okp := enumPaths(hs, nil, nil, nil, func(e pathExit) {
			ret, ok := e.Last.(*ssa.Return)
			if !ok || !isConstNil(e.State.Resolve(ret.Results[0])) {
				return
			}
			succ++
			for _, c := range must {
				if c == nil {
					bad = "a mandatory handshake step is missing"
					continue
				}
				var errv ssa.Value = c
				if tup, isTup := c.Type().(*types.Tuple); isTup && tup.Len() == 2 {
					for _, ref := range *c.Referrers() {
						if ex, ok := ref.(*ssa.Extract); ok && ex.Index == 1 {
							errv = ex
						}
					}
				}
				if isNil, known := e.State.NilKnown(errv); !(known && isNil) {
					bad = fmt.Sprintf("Handshake reports success on a path where %s did not return nil", sCallee(c).Name())
				}
			}
		})
		if !okp {
			r.Undecided("R11.1", key, w.Pos(hsM.Pos()), "path budget exceeded")
		} else {
			r.Check(bad == "" && succ > 0, "R11.1", key, w.Pos(hsM.Pos()), fmt.Sprintf("%d success path(s), each after VersionHandshake, AutodetectFragmentSize and SwitchFragmentSize returned nil", succ), bad, "success_paths", succ)
		}
	}

	// ---------------------------------------------------------------- R11.2 / R11.5
	codecs := findCodecs(w)
	byGlobal := map[types.Object]codecInfo{}
	for _, ci := range codecs {
		if ci.Global != nil {
			byGlobal[ci.Global] = ci
		}
	}
	registry := codecRegistry(w)
	for _, name := range []string{"AutodetectEncodingUpstream", "AutodetectEncodingDowntream"} {
		fd := w.Decl(methodOf(cdc, name))
		key := "candidates:" + name
		if fd == nil {
			r.Undecided("R11.2", key, "-", "anchor unresolved")
			continue
		}
		var cands []types.Object
		scanLit := func(fd2 *ast.FuncDecl) {
			info := w.InfoOf(fd2)
			ast.Inspect(fd2.Body, func(x ast.Node) bool {
				cl, ok := x.(*ast.CompositeLit)
				if !ok {
					return true
				}
				var elem types.Type
				switch lt := info.TypeOf(cl).(type) {
				case *types.Slice:
					elem = lt.Elem()
				case *types.Array:
					elem = lt.Elem()
				}
				if elem == nil || elem.String() != modPath+"/internal/util/enc.Encoder" {
					return true
				}
				for _, el := range cl.Elts {
					if obj := usedObj(info, el); obj != nil {
						cands = append(cands, obj)
					}
				}
				return true
			})
		}
		scanLit(fd)
		if len(cands) == 0 {
			// the list may live in a helper of the detection function
			if sfn := w.SSAFunc(methodOf(cdc, name)); sfn != nil {
				for _, g := range staticCone(sfn, 2) {
					if o := fnObj(g); o != nil && g != sfn {
						if fd2 := w.Decl(o); fd2 != nil && len(cands) == 0 {
							scanLit(fd2)
						}
					}
				}
			}
		}
		var problems []string
		for _, c := range cands {
			if !registry[c] {
				problems = append(problems, c.Name()+" is probed but is not in FromCode's registry: the server cannot apply it when the client commits it")
			}
			if name == "AutodetectEncodingUpstream" {
				ci, ok := byGlobal[c]
				if !ok {
					problems = append(problems, c.Name()+": implementation not found")
					continue
				}
				npat := testPatternCount(w, ci.Type)
				if npat < 1 {
					problems = append(problems, fmt.Sprintf("%s has no test pattern: the upstream probe passes vacuously and the codec is selected untested", c.Name()))
				}
			}
		}
		if len(cands) == 0 {
			problems = append(problems, "no candidate list found")
		}
		sort.Strings(problems)
		r.Check(len(problems) == 0, "R11.2", key, w.Pos(fd.Pos()), fmt.Sprintf("%d candidate(s), all registered%s", len(cands), mapStr(name == "AutodetectEncodingUpstream", " and with at least one test pattern")), fmt.Sprint(problems))
	}

	// R11.5: stores of a package-level codec into Upstream.Encoder
	upCfg := w.Named("internal/streams/dns/util", "UpstreamConfig")
	encF := fieldOf(upCfg, "Encoder")
	nfb := 0
	ords := map[*ssa.Function]*int{}
	var handle func(fn *ssa.Function, in ssa.Instruction, val ssa.Value, pos token.Pos, depth int)
	handle = func(fn *ssa.Function, in ssa.Instruction, val ssa.Value, pos token.Pos, depth int) {
		if ords[fn] == nil {
			ords[fn] = new(int)
		}
		ordp := ords[fn]
		ord := *ordp
		defer func() { *ordp = ord }()
		// a setter (`func (dc *C) setUpstreamEncoder(e enc.Encoder) { dc.Serializer.Upstream.Encoder = e }`): the
		// codec is whatever each caller passes — classify at the call sites
		if p, isParam := val.(*ssa.Parameter); isParam && p.Parent() == fn && depth < 2 {
			idx := paramIndex(fn, p)
			ncalls := 0
			for _, g := range dnsPkgFuncs(w) {
				for _, c := range callsIn(g) {
					if c.Common().StaticCallee() == fn && idx >= 0 && idx < len(c.Common().Args) {
						ncalls++
						handle(g, c.(ssa.Instruction), c.Common().Args[idx], c.Pos(), depth+1)
					}
				}
			}
			if ncalls > 0 {
				return
			}
		}
		// only the client's own serializer (fields of ClientDnsConnection); the server applies what the client asked for
		var g *ssa.Global
		for _, root := range provenance(val, provOpts{}) {
			if u, ok := root.(*ssa.UnOp); ok {
				if gg, ok := u.X.(*ssa.Global); ok {
					g = gg
				}
			}
		}
		if recvNamed(fnObj(fn)) != cdc {
			return
		}
		if g == nil {
			// the probed candidate: it may be committed only where its probe did not report an error
			probeM := methodOf(cdc, "EncodingTestUpstream")
			key := fmt.Sprintf("candidate:%s#%d", ssaFuncKey(fn), ord)
			ord++
			bad := ""
			npaths := 0
			// the choice may be delegated: Encoder = chooser(); the chooser returns a fall-back codec or a
			// candidate on a path where its own trial (all patterns probed clean) returned nil
			if hc, isCall := val.(*ssa.Call); isCall {
				if h := hc.Call.StaticCallee(); h != nil && inModule(h) && len(h.Blocks) > 0 {
					why, nfall := c11ChooserOK(w, h, probeM, byGlobal)
					nfb++
					r.Check(why == "", "R11.5", key, w.Pos(pos), fmt.Sprintf("%s returns a probed candidate only where its trial returned nil (%d fall-back return(s) are case-fold safe)", ssaFuncKey(h), nfall), why)
					return
				}
			}
			enumPaths(fn, nil, nil, func(x ssa.Instruction) bool { return x == in }, func(e pathExit) {
				if e.Stop == nil {
					return
				}
				npaths++
				// only facts established after the candidate was (last) picked count: earlier ones belong to a previous candidate
				since := 0
				for _, root := range provenance(val, provOpts{}) {
					if ri, ok := root.(ssa.Instruction); ok {
						for i, bb := range e.State.Blocks {
							if bb == ri.Block() && i > since {
								since = i
							}
						}
					}
				}
				inCurrent := func(bb *ssa.BasicBlock) bool {
					for i := since; i < len(e.State.Blocks); i++ {
						if e.State.Blocks[i] == bb {
							return true
						}
					}
					return false
				}
				for v, t := range e.State.Facts {
					b, ok := v.(*ssa.BinOp)
					if !ok || (b.Op != token.EQL && b.Op != token.NEQ) {
						continue
					}
					if !inCurrent(b.Block()) {
						continue
					}
					for _, side := range []ssa.Value{b.X, b.Y} {
						c, ok := side.(*ssa.Call)
						if !ok || sCallee(c) != probeM {
							continue
						}
						other := b.X
						if other == side {
							other = b.Y
						}
						// err == <sentinel> true, or err != nil true: the probe failed on this path
						if (b.Op == token.EQL && t && !isConstNil(other)) || (b.Op == token.NEQ && t && isConstNil(other)) {
							bad = "the codec under test is committed on a path where its own probe reported an error (e.g. the case-swap edge): the handshake then reports success with a codec that the path mangles"
							if os.Getenv("SACHECK_DEBUG") != "" {
								var bl []int
								for _, bb := range e.State.Blocks {
									bl = append(bl, bb.Index)
								}
								fmt.Fprintf(os.Stderr, "DEBUG R11.5 fact %s = %v (block %d) path %v\n", v.String(), t, v.(*ssa.BinOp).Block().Index, bl)
							}
						}
					}
				}
			})
			// positive form: from every execution of the probe, the candidate is kept (next pattern probed, or
			// committed) only through the probe's err == nil edge; leaving through a re-pick of the
			// candidate or a return is free
			repick := map[ssa.Instruction]bool{}
			for _, root := range provenance(val, provOpts{}) {
				if ri, ok := root.(ssa.Instruction); ok && ri.Block() != nil && ri.Parent() == fn {
					repick[ri] = true
				}
			}
			nprobe := 0
			for _, pc := range callsIn(fn) {
				if sCallee(pc) != probeM {
					continue
				}
				pcall, ok := pc.(*ssa.Call)
				if !ok {
					continue
				}
				nprobe++
				okp := enumPaths(fn, pcall, nil, func(x ssa.Instruction) bool { return x == in || x == ssa.Instruction(pcall) || repick[x] }, func(e pathExit) {
					if e.Stop == nil || repick[e.Stop] {
						return
					}
					clean := false
					for v, t := range e.State.Facts {
						x, eqNil, ok := nilTest(v)
						if ok && x == ssa.Value(pcall) && t == eqNil {
							clean = true
						}
					}
					if !clean && bad == "" {
						what := "committed"
						if e.Stop != in {
							what = "probed with its next pattern"
						}
						bad = fmt.Sprintf("%s: after this probe the codec under test can be %s on a path that never established err == nil for it (an unanswered or otherwise failed pattern is skipped instead of disqualifying the codec): the handshake then reports success with a codec the path does not carry", w.Pos(pcall.Pos()), what)
					}
				})
				if !okp {
					bad = "path budget exceeded"
				}
			}
			if npaths > 0 {
				nfb++
				r.Check(bad == "" && nprobe > 0, "R11.5", key, w.Pos(pos), "the probed candidate is committed only where every pattern's probe reported no error", bad+mapStr(nprobe == 0, "no probe call found beside the commit of a candidate"))
			}
			return
		}
		nfb++
		key := fmt.Sprintf("fallback:%s#%d", ssaFuncKey(fn), ord)
		ord++
		ci, ok := byGlobal[g.Object()]
		if !ok || ci.Alphabet == "" {
			r.Violate("R11.5", key, w.Pos(pos), g.Name()+" is assigned to the upstream direction without a probe, and it is not a table-driven codec with a known alphabet: on a path that folds letter case it cannot be relied on")
			return
		}
		r.Check(caseFoldInjective(ci.Alphabet), "R11.5", key, w.Pos(pos), g.Name()+" (assigned without a probe) keeps distinct symbols distinct under ASCII case folding",
			g.Name()+" is assigned to the upstream direction without a probe (fall-back), but its alphabet contains letters that differ only in case: a DNS path that rewrites case corrupts every query")
	}
	for _, fn := range dnsPkgFuncs(w) {
		allInstrs(fn, func(in ssa.Instruction) {
			st, ok := in.(*ssa.Store)
			if !ok {
				return
			}
			fa, ok := st.Addr.(*ssa.FieldAddr)
			if !ok || fieldVarOf(fa) != encF || encF == nil {
				return
			}
			handle(fn, in, st.Val, st.Pos(), 0)
		})
	}
	if nfb == 0 {
		r.Undecided("R11.5", "fallbacks", "-", "no unprobed codec assignment found")
	}

	// ---------------------------------------------------------------- R11.6: the query type committed is one whose probe succeeded
	if fn := w.SSAFunc(methodOf(cdc, "AutoDetectQueryType")); fn != nil {
		probe := methodOf(cdc, "SendQueryTypeTest")
		qtF := fieldOf(w.Named("internal/streams/dns/util", "UpstreamConfig"), "QueryType")
		key := "method:(*streams/dns.ClientDnsConnection).AutoDetectQueryType|commit-probed-type"
		bad := ""
		ncommit := 0
		allInstrs(fn, func(in ssa.Instruction) {
			st, ok := in.(*ssa.Store)
			if !ok {
				return
			}
			fa, ok := st.Addr.(*ssa.FieldAddr)
			if !ok || fieldVarOf(fa) != qtF || qtF == nil {
				return
			}
			ncommit++
			// the pointer stored is the address of a local; every non-zero store into that local must be a probed type
			al, ok := st.Val.(*ssa.Alloc)
			if !ok {
				bad = fmt.Sprintf("%s: the committed query type is not the detection's own result variable", w.Pos(st.Pos()))
				return
			}
			for _, s2 := range storesTo(al) {
				if z, isC := constIntVal(s2.Val); isC && z == 0 {
					continue
				}
				// s2.Val = q; must be dominated by SendQueryTypeTest(q, ...) == nil
				okq := false
				// ... or the round of probes lives in a helper: everything it returns is a type whose probe
				// succeeded in that helper, or the best-so-far value handed in (which is this same variable)
				if hc, isCall := s2.Val.(*ssa.Call); isCall {
					if h := hc.Call.StaticCallee(); h != nil && inModule(h) && len(h.Blocks) > 0 {
						okAll, nret := true, 0
						enumPaths(h, nil, nil, nil, func(e pathExit) {
							ret, isRet := e.Last.(*ssa.Return)
							if !isRet || len(ret.Results) != 1 {
								return
							}
							nret++
							rv := e.State.Resolve(ret.Results[0])
							if prm, isP := rv.(*ssa.Parameter); isP {
								// passthrough of the caller's current value
								for i, q := range h.Params {
									if q == prm && i < len(hc.Call.Args) {
										if u, ok := hc.Call.Args[i].(*ssa.UnOp); ok && u.X == ssa.Value(al) {
											return
										}
									}
								}
								okAll = false
								return
							}
							if z, isC := constIntVal(rv); isC && z == 0 {
								return
							}
							for v, t := range e.State.Facts {
								x, eqNil, ok := nilTest(v)
								if !ok || t != eqNil {
									continue
								}
								pc, ok := x.(*ssa.Call)
								if !ok || sCallee(pc) != probe || len(pc.Call.Args) < 2 {
									continue
								}
								for _, r1 := range provenance(pc.Call.Args[1], provOpts{}) {
									for _, r2 := range provenance(rv, provOpts{}) {
										if r1 == r2 {
											return
										}
									}
								}
							}
							okAll = false
						})
						if okAll && nret > 0 {
							okq = true
						}
					}
				}
				for _, c := range callsIn(fn) {
					call, isCall := c.(*ssa.Call)
					if !isCall || sCallee(c) != probe || len(call.Call.Args) < 2 {
						continue
					}
					sameQ := false
					for _, r1 := range provenance(call.Call.Args[1], provOpts{}) {
						for _, r2 := range provenance(s2.Val, provOpts{}) {
							if r1 == r2 {
								sameQ = true
							}
						}
					}
					if sameQ && dominatedByCondNil(fn, s2, func(v ssa.Value) bool { x, _, ok := nilTest(v); return ok && x == ssa.Value(call) }) {
						okq = true
					}
				}
				if !okq {
					bad = fmt.Sprintf("%s: a query type is recorded as working without its own probe having succeeded", w.Pos(s2.Pos()))
				}
			}
		})
		r.Check(bad == "" && ncommit > 0, "R11.6", key, w.Pos(fn.Pos()), "the committed query type was recorded only on the err == nil edge of its own probe", bad+mapStr(ncommit == 0, "the detected query type is never committed"))
	}

	// ---------------------------------------------------------------- R11.3
	c11Patterns(w, r)
	c11DerivedMtu(w, r)
	c11ProbedIsCommitted(w, r)

	// ---------------------------------------------------------------- R11.4
	seen := map[*ssa.Function]bool{}
	var cone []*ssa.Function
	var walk func(f *ssa.Function, d int)
	walk = func(f *ssa.Function, d int) {
		if f == nil || seen[f] || d > 8 || !inModule(f) || len(f.Blocks) == 0 {
			return
		}
		seen[f] = true
		cone = append(cone, f)
		for _, c := range callsIn(f) {
			if _, isGo := c.(*ssa.Go); isGo {
				continue
			}
			if sc := c.Common().StaticCallee(); sc != nil && recvNamed(fnObj(sc)) == cdc {
				walk(sc, d+1)
			}
		}
	}
	walk(hs, 0)
	sort.Slice(cone, func(i, j int) bool { return cone[i].Pos() < cone[j].Pos() })
	nloops := 0
	for _, fn := range cone {
		for i, lf := range checkLoopProgress(w, fn) {
			key := fmt.Sprintf("loop:%s#%d", ssaFuncKey(fn), i)
			if lf.NoVars {
				r.Violate("R11.4", key, lf.Pos, "a loop in the handshake's synchronous cone has no loop-carried variable in its exit condition: it ends only when the peer's answers change")
				nloops++
				continue
			}
			nloops++
			if lf.Exceeded {
				r.Undecided("R11.4", key, lf.Pos, "path budget exceeded")
				continue
			}
			r.Check(lf.Msg == "", "R11.4", key, lf.Pos, fmt.Sprintf("%d cyclic path(s), each changes a variable the exit depends on %v", lf.Paths, lf.Vars),
				lf.Msg+": when the path keeps answering the same way (time-outs, server errors, size mismatch) the handshake repeats the same probe forever and never reports success or failure", "paths", lf.Paths)
		}
	}
	r.Extra["handshake_cone_functions"] = len(cone)
	if nloops == 0 {
		r.Undecided("R11.4", "loops", "-", "no loop found in the handshake cone")
	}
}

func fnObj(fn *ssa.Function) *types.Func {
	if fn == nil {
		return nil
	}
	o, _ := fn.Object().(*types.Func)
	return o
}

// testPatternCount: number of elements of the slice literal returned by
// TestPatterns() (-1 if not a literal).
func testPatternCount(w *World, n *types.Named) int {
	fd := w.Decl(methodOf(n, "TestPatterns"))
	if fd == nil {
		return -1
	}
	cnt := -1
	ast.Inspect(fd.Body, func(x ast.Node) bool {
		if rs, ok := x.(*ast.ReturnStmt); ok && len(rs.Results) == 1 {
			if cl, ok := unparen(rs.Results[0]).(*ast.CompositeLit); ok {
				cnt = len(cl.Elts)
			}
		}
		return true
	})
	return cnt
}

// byteRecurrence: finds `v := C0; loop { ...; v = (v + C1) & C2 }` over a
// byte-typed variable and returns (C0, C1, C2).
func byteRecurrence(entry *ssa.Function) (c0, c1, c2 int64, ok bool) {
	if entry == nil {
		return
	}
	// (x + C1) & C2 over the loop variable x; the expression may live in a one-block step helper applied to x
	var stepOf func(upd ssa.Value, x ssa.Value, depth int) (inc, mask int64, ok bool)
	stepOf = func(upd ssa.Value, x ssa.Value, depth int) (inc, mask int64, ok bool) {
		mask = 255
		if call, isCall := upd.(*ssa.Call); isCall && depth < 2 {
			h := call.Call.StaticCallee()
			if h == nil || !inModule(h) || len(h.Blocks) != 1 || len(call.Call.Args) != 1 || call.Call.Args[0] != x || len(h.Params) != 1 {
				return 0, 0, false
			}
			ret, isRet := h.Blocks[0].Instrs[len(h.Blocks[0].Instrs)-1].(*ssa.Return)
			if !isRet || len(ret.Results) != 1 {
				return 0, 0, false
			}
			return stepOf(ret.Results[0], h.Params[0], depth+1)
		}
		if b, isBo := upd.(*ssa.BinOp); isBo && b.Op == token.AND {
			if m, isC := constIntVal(b.Y); isC {
				mask = m
				upd = b.X
			}
		}
		if b, isBo := upd.(*ssa.BinOp); isBo && b.Op == token.ADD && b.X == x {
			if c, isC := constIntVal(b.Y); isC {
				return c, mask, true
			}
		}
		return 0, 0, false
	}
	for _, fn := range staticCone(entry, 2) {
		allInstrs(fn, func(in ssa.Instruction) {
			ph, isPhi := in.(*ssa.Phi)
			if !isPhi || ok {
				return
			}
			bt, isB := ph.Type().Underlying().(*types.Basic)
			if !isB || bt.Kind() != types.Uint8 || len(ph.Edges) != 2 {
				return
			}
			var init int64
			haveInit := false
			var upd ssa.Value
			for _, e := range ph.Edges {
				if c, isC := constIntVal(e); isC {
					init, haveInit = c, true
				} else {
					upd = e
				}
			}
			if !haveInit || upd == nil {
				return
			}
			if inc, mask, isStep := stepOf(upd, ph, 0); isStep {
				c0, c1, c2, ok = init, inc, mask, true
			}
		})
		if ok {
			return
		}
	}
	return
}

func c11Patterns(w *World, r *Report) {
	gen := w.SSAFunc(w.Method("internal/streams/dns", "ServerDnsListener", "testDownstreamFragmentSize"))
	chk := w.SSAFunc(w.Method("internal/streams/dns", "ClientDnsConnection", "CheckFragmentSizeResponse"))
	key := "pair:testDownstreamFragmentSize~CheckFragmentSizeResponse"
	g0, g1, g2, gok := byteRecurrence(gen)
	c0, c1, c2, cok := byteRecurrence(chk)
	if !gok || !cok {
		r.Undecided("R11.3", key, "-", fmt.Sprintf("byte recurrence not recognised (server %v, client %v)", gok, cok))
	} else {
		r.Check(g0 == c0 && g1 == c1 && g2 == c2, "R11.3", key, w.Pos(gen.Pos())+" ~ "+w.Pos(chk.Pos()),
			fmt.Sprintf("both ends: seed %d, increment %d, mask %d", g0, g1, g2),
			fmt.Sprintf("the fragment-probe pattern differs: server seed/increment/mask %d/%d/%d, client %d/%d/%d — every probe looks corrupted and no fragment size is ever accepted", g0, g1, g2, c0, c1, c2))
	}
	// single DownloadCodecCheck pattern on both ends
	dcc := w.Pkg("internal/streams/dns/util").Types.Scope().Lookup("DownloadCodecCheck")
	uses := map[string]bool{}
	for _, fn := range dnsPkgFuncs(w) {
		allInstrs(fn, func(in ssa.Instruction) {
			for _, op := range in.Operands(nil) {
				if g, ok := (*op).(*ssa.Global); ok && g.Object() == dcc {
					uses[ssaFuncKey(fn)] = true
				}
			}
		})
	}
	server := uses["(*streams/dns.ServerDnsListener).testDownstreamEncoder"]
	client := false
	for k := range uses {
		if k != "(*streams/dns.ServerDnsListener).testDownstreamEncoder" {
			client = true
		}
	}
	var list []string
	for k := range uses {
		list = append(list, k)
	}
	sort.Strings(list)
	r.Check(server && client, "R11.3", "pattern:util.DownloadCodecCheck", w.Pos(dcc.Pos()), fmt.Sprintf("the one pattern object is what the server sends and what the client compares with (%d user(s))", len(list)),
		"server and client no longer share the single DownloadCodecCheck pattern", "users", list)
}

// c11DerivedMtu: R11.7 — Upstream.FragmentSize is derived from the upstream codec (its ratio). Any step of
// Handshake that may store Upstream.Encoder (detection, the switch with its silent fall-back) must be
// followed, on every path to a successful return, by a store of a freshly computed size.
func c11DerivedMtu(w *World, r *Report) {
	cdc := w.Named("internal/streams/dns", "ClientDnsConnection")
	key := "method:(*streams/dns.ClientDnsConnection).Handshake|upstream-mtu-after-codec"
	hs := w.SSAFunc(methodOf(cdc, "Handshake"))
	upCfg := w.Named("internal/streams/dns/util", "UpstreamConfig")
	encF, fragF := fieldOf(upCfg, "Encoder"), fieldOf(upCfg, "FragmentSize")
	if hs == nil || encF == nil || fragF == nil {
		r.Undecided("R11.7", key, "-", "anchor unresolved: Handshake / UpstreamConfig.Encoder / FragmentSize")
		return
	}
	// functions whose synchronous cone stores Upstream.Encoder
	storesEnc := map[*ssa.Function]bool{}
	var writes func(f *ssa.Function, seen map[*ssa.Function]bool, d int) bool
	writes = func(f *ssa.Function, seen map[*ssa.Function]bool, d int) bool {
		if f == nil || seen[f] || d > 5 || !inModule(f) {
			return false
		}
		seen[f] = true
		found := false
		allInstrs(f, func(in ssa.Instruction) {
			if st, ok := in.(*ssa.Store); ok {
				if fa := asFieldAddr(st.Addr); fa != nil && fieldVarOf(fa) == encF {
					found = true
				}
			}
		})
		if found {
			return true
		}
		for _, c := range callsIn(f) {
			if _, isGo := c.(*ssa.Go); isGo {
				continue
			}
			if sc := c.Common().StaticCallee(); sc != nil && writes(sc, seen, d+1) {
				return true
			}
		}
		return false
	}
	isEncStep := func(in ssa.Instruction) bool {
		if st, ok := in.(*ssa.Store); ok {
			if fa := asFieldAddr(st.Addr); fa != nil && fieldVarOf(fa) == encF {
				return true
			}
		}
		c, ok := in.(*ssa.Call)
		if !ok {
			return false
		}
		sc := c.Call.StaticCallee()
		if sc == nil {
			return false
		}
		if v, ok := storesEnc[sc]; ok {
			return v
		}
		v := writes(sc, map[*ssa.Function]bool{}, 0)
		storesEnc[sc] = v
		return v
	}
	isMtuStore := func(in ssa.Instruction) bool {
		st, ok := in.(*ssa.Store)
		if !ok {
			return false
		}
		fa := asFieldAddr(st.Addr)
		if fa == nil || fieldVarOf(fa) != fragF {
			return false
		}
		// fed by a call (the size computation), not a constant or a stale copy
		for _, root := range provenance(st.Val, provOpts{}) {
			if c, ok := root.(*ssa.Call); ok && c.Call.StaticCallee() != nil && inModule(c.Call.StaticCallee()) {
				return true
			}
		}
		return false
	}
	bad := ""
	nsucc := 0
	okp := enumPaths(hs, nil, func(in ssa.Instruction) bool { return isEncStep(in) || isMtuStore(in) }, nil, func(e pathExit) {
		ret, isRet := e.Last.(*ssa.Return)
		if !isRet || len(ret.Results) == 0 || !isConstNil(e.State.Resolve(ret.Results[len(ret.Results)-1])) {
			return
		}
		nsucc++
		lastEnc, lastMtu := -1, -1
		var encAt ssa.Instruction
		for i, ev := range e.State.Events {
			if isMtuStore(ev) {
				lastMtu = i
			} else {
				lastEnc = i
				encAt = ev
			}
		}
		if lastEnc >= 0 && lastMtu < lastEnc && bad == "" {
			bad = fmt.Sprintf("%s: this step can change the upstream codec and no freshly computed upstream fragment size is stored afterwards on a successful path: after a fall-back to a sparser codec the stale (larger) size makes full fragments exceed the DNS name limit although the handshake reported success", w.Pos(encAt.Pos()))
		}
	})
	if !okp {
		r.Undecided("R11.7", key, w.Pos(hs.Pos()), "path budget exceeded")
		return
	}
	r.Check(bad == "" && nsucc > 0, "R11.7", key, w.Pos(hs.Pos()), fmt.Sprintf("%d successful path(s): the upstream fragment size is recomputed after the last codec-changing step", nsucc), bad)
}

// c11TrialClean: t probes patterns of one codec; it returns nil only if every probe execution reported no
// error (from each probe call, the next probe or a nil return is reached only through err == nil).
func c11TrialClean(t *ssa.Function, probeM *types.Func) bool {
	nprobe := 0
	ok := true
	for _, pc := range callsIn(t) {
		pcall, isCall := pc.(*ssa.Call)
		if !isCall || sCallee(pc) != probeM {
			continue
		}
		nprobe++
		done := enumPaths(t, pcall, nil, func(x ssa.Instruction) bool { return x == ssa.Instruction(pcall) }, func(e pathExit) {
			clean := false
			for v, tv := range e.State.Facts {
				x, eqNil, isNil := nilTest(v)
				if isNil && x == ssa.Value(pcall) && tv == eqNil {
					clean = true
				}
			}
			if e.Stop != nil {
				if !clean {
					ok = false
				}
				return
			}
			ret, isRet := e.Last.(*ssa.Return)
			if !isRet || len(ret.Results) == 0 {
				return
			}
			rv := e.State.Resolve(ret.Results[len(ret.Results)-1])
			if isConstNil(rv) && !clean {
				ok = false
			}
		})
		if !done {
			ok = false
		}
	}
	return ok && nprobe > 0
}

// c11ChooserOK: every return of the chooser is a package-level fall-back codec that survives case folding, or
// a value c returned on a path where trial(c) == nil (trial clean, see above) or probe facts hold directly.
func c11ChooserOK(w *World, h *ssa.Function, probeM *types.Func, byGlobal map[types.Object]codecInfo) (string, int) {
	why := ""
	nfall := 0
	nret := 0
	done := enumPaths(h, nil, nil, nil, func(e pathExit) {
		ret, isRet := e.Last.(*ssa.Return)
		if !isRet || len(ret.Results) != 1 || why != "" {
			return
		}
		nret++
		rv := e.State.Resolve(ret.Results[0])
		// fall-back: a package-level codec
		var g *ssa.Global
		for _, root := range provenance(rv, provOpts{}) {
			if u, ok := root.(*ssa.UnOp); ok {
				if gg, ok := u.X.(*ssa.Global); ok {
					g = gg
				}
			}
		}
		if g != nil {
			ci, ok := byGlobal[g.Object()]
			if !ok || ci.Alphabet == "" || !caseFoldInjective(ci.Alphabet) {
				why = fmt.Sprintf("%s: %s is returned without a trial and is not known to survive case folding", w.Pos(ret.Pos()), g.Name())
			}
			nfall++
			return
		}
		// a candidate: needs trial(rv) == nil on this path
		for v, tv := range e.State.Facts {
			x, eqNil, isNil := nilTest(v)
			if !isNil || tv != eqNil {
				continue
			}
			tc, ok := x.(*ssa.Call)
			if !ok {
				continue
			}
			t := tc.Call.StaticCallee()
			if t == nil || !inModule(t) {
				continue
			}
			passes := false
			for _, a := range tc.Call.Args {
				if a == rv {
					passes = true
				}
				for _, r1 := range provenance(a, provOpts{}) {
					for _, r2 := range provenance(rv, provOpts{}) {
						if r1 == r2 {
							passes = true
						}
					}
				}
			}
			if passes && c11TrialClean(t, probeM) {
				return
			}
		}
		why = fmt.Sprintf("%s: a candidate codec is returned on a path where its trial was not found to have returned nil (or the trial does not require every pattern's probe to succeed): the handshake then reports success with a codec the path does not carry", w.Pos(ret.Pos()))
	})
	if !done {
		return "path budget exceeded in " + ssaFuncKey(h), nfall
	}
	if nret == 0 {
		return ssaFuncKey(h) + " has no return", nfall
	}
	return why, nfall
}

// c11ProbedIsCommitted: R11.8 — AutodetectFragmentSize returns (a constant offset of) the largest size whose
// probe succeeded. Every non-constant value that flows into the returned variable must be the same SSA value
// the probe was given: a conversion in between (wire bytes vs payload bytes, a codec ratio) makes the client
// commit a size that was never verified against the path.
func c11ProbedIsCommitted(w *World, r *Report) {
	cdc := w.Named("internal/streams/dns", "ClientDnsConnection")
	fn := w.SSAFunc(methodOf(cdc, "AutodetectFragmentSize"))
	probe := methodOf(cdc, "SendFragmentSizeTest")
	key := "method:(*streams/dns.ClientDnsConnection).AutodetectFragmentSize|probed=committed"
	if fn == nil || probe == nil {
		r.Undecided("R11.8", key, "-", "anchor unresolved: AutodetectFragmentSize / SendFragmentSizeTest")
		return
	}
	// probed values (size argument of every probe call in the function or its helpers that return the verdict)
	probed := map[ssa.Value]bool{}
	var probePos []string
	for _, g := range staticCone(fn, 1) {
		for _, c := range callsIn(g) {
			if sCallee(c) == probe && len(c.Common().Args) >= 2 {
				v := c.Common().Args[1]
				probed[v] = true
				probePos = append(probePos, w.Pos(c.Pos()))
				// a helper that probes its parameter: the caller's argument counts as probed
				if prm, ok := v.(*ssa.Parameter); ok && g != fn {
					for i, q := range g.Params {
						if q == prm {
							for _, c2 := range callsIn(fn) {
								if c2.Common().StaticCallee() == g && i < len(c2.Common().Args) {
									probed[c2.Common().Args[i]] = true
								}
							}
						}
					}
				}
			}
		}
	}
	if len(probed) == 0 {
		r.Undecided("R11.8", key, w.Pos(fn.Pos()), "no fragment-size probe found in the detection function")
		return
	}
	// values flowing into what is returned on success
	bad := ""
	nflow := 0
	seen := map[ssa.Value]bool{}
	var flow func(v ssa.Value, d int)
	flow = func(v ssa.Value, d int) {
		if v == nil || seen[v] || d > 12 {
			return
		}
		seen[v] = true
		if probed[v] {
			nflow++
			return // the probed value itself (possibly loop-carried): what it is made of does not matter
		}
		switch x := v.(type) {
		case *ssa.Const:
			return
		case *ssa.Phi:
			for _, e := range x.Edges {
				flow(e, d+1)
			}
			return
		case *ssa.Parameter:
			// a parameter of a verdict helper: what the detection function passes for it
			if h := x.Parent(); h != fn {
				if i := paramIndex(h, x); i >= 0 {
					mapped := false
					for _, g := range staticCone(fn, 2) {
						for _, c := range callsIn(g) {
							if c.Common().StaticCallee() == h && i < len(c.Common().Args) {
								mapped = true
								flow(c.Common().Args[i], d+1)
							}
						}
					}
					if mapped {
						return
					}
				}
			}
		case *ssa.Extract:
			// the size comes out of a helper (`return dc.usableFragmentSize(max)`): follow what the helper returns on success
			if call, ok := x.Tuple.(*ssa.Call); ok {
				if h := call.Call.StaticCallee(); h != nil && inModule(h) && len(h.Blocks) > 0 {
					for _, b := range h.Blocks {
						ret, ok := b.Instrs[len(b.Instrs)-1].(*ssa.Return)
						if !ok || x.Index >= len(ret.Results) {
							continue
						}
						if n := len(ret.Results); n >= 2 && isErrorType(ret.Results[n-1].Type()) && !isConstNil(ret.Results[n-1]) {
							if _, isEx := ret.Results[n-1].(*ssa.Extract); !isEx {
								continue // a failure return of the helper
							}
						}
						flow(ret.Results[x.Index], d+1)
					}
					return
				}
			}
		case *ssa.BinOp:
			// max - 2 and the like: follow the non-constant operand
			if _, isC := x.Y.(*ssa.Const); isC {
				flow(x.X, d+1)
				return
			}
			if _, isC := x.X.(*ssa.Const); isC {
				flow(x.Y, d+1)
				return
			}
		}
		nflow++
		ok := probed[v]
		if !ok {
			// the probed value may itself be a phi of the value that is committed (proposed): accept identity through phis
			if ph, isPhi := v.(*ssa.Phi); isPhi {
				_ = ph
			}
		}
		if !ok && bad == "" {
			bad = fmt.Sprintf("the size recorded as working (%s) is not the value handed to the probe at %v: what the client commits (and the server then uses for every fragment) was never verified against the path — with a codec ratio or a unit conversion in between, full-size fragments exceed what the path carries", v.Name(), probePos)
		}
	}
	for _, b := range fn.Blocks {
		ret, ok := b.Instrs[len(b.Instrs)-1].(*ssa.Return)
		if !ok || len(ret.Results) != 2 {
			continue
		}
		if !isConstNil(ret.Results[1]) {
			// a tail call `return helper(...)`: the helper's successful returns decide
			e0, ok0 := ret.Results[0].(*ssa.Extract)
			e1, ok1 := ret.Results[1].(*ssa.Extract)
			if !ok0 || !ok1 || e0.Tuple != e1.Tuple {
				continue
			}
		}
		flow(ret.Results[0], 0)
	}
	r.Check(bad == "" && nflow > 0, "R11.8", key, w.Pos(fn.Pos()), fmt.Sprintf("%d non-constant value(s) flow into the returned size, each is the value that was probed", nflow), bad+mapStr(nflow == 0, "the returned size does not derive from any probed value"))
}
