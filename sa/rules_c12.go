package main

// C12 — DNS endpoints withstand arbitrary messages with bounded work.

import (
	"fmt"
	"go/ast"
	"go/token"
	"go/types"
	"sort"
	"strings"

	"golang.org/x/tools/go/ssa"
)

func init() { register("C12", checkC12) }

// hasRecoverDefer: fn defers (before instruction `before`, or anywhere at
// function start when before == nil) a closure that calls recover().
func deferredRecover(fn *ssa.Function) *ssa.Defer {
	var out *ssa.Defer
	allInstrs(fn, func(in ssa.Instruction) {
		d, ok := in.(*ssa.Defer)
		if !ok || out != nil {
			return
		}
		var target *ssa.Function
		if mc, ok := d.Call.Value.(*ssa.MakeClosure); ok {
			target = mc.Fn.(*ssa.Function)
		} else if sc := d.Call.StaticCallee(); sc != nil {
			target = sc
		}
		if target == nil {
			return
		}
		found := false
		allInstrs(target, func(x ssa.Instruction) {
			if c, ok := x.(*ssa.Call); ok {
				if b, ok := c.Call.Value.(*ssa.Builtin); ok && b.Name() == "recover" {
					found = true
				}
			}
		})
		if found {
			out = d
		}
	})
	return out
}

// untrustedCone: module functions reachable from the entry through static
// calls, interface invokes resolved inside the module, and func-valued struct
// fields of the command table.
func untrustedCone(w *World, entries []*ssa.Function) []*ssa.Function {
	seen := map[*ssa.Function]bool{}
	var out []*ssa.Function
	var walk func(f *ssa.Function, d int)
	walk = func(f *ssa.Function, d int) {
		if f == nil || seen[f] || d > 10 || !inModule(f) || len(f.Blocks) == 0 {
			return
		}
		seen[f] = true
		out = append(out, f)
		for _, c := range callsIn(f) {
			if _, isGo := c.(*ssa.Go); isGo {
				continue
			}
			cc := c.Common()
			if sc := cc.StaticCallee(); sc != nil {
				walk(sc, d+1)
			} else if cc.IsInvoke() {
				switch cc.Method.Name() {
				case "Decode", "Encode", "Command":
					for _, t := range w.calleesOf(c) {
						walk(t, d+1)
					}
				}
			}
			if mc, ok := cc.Value.(*ssa.MakeClosure); ok {
				walk(mc.Fn.(*ssa.Function), d+1)
			}
		}
		for _, a := range f.AnonFuncs {
			walk(a, d+1)
		}
	}
	for _, e := range entries {
		walk(e, 0)
	}
	sort.Slice(out, func(i, j int) bool { return out[i].Pos() < out[j].Pos() })
	return out
}

func checkC12(w *World, r *Report) {
	r.Explanation = "Decides the containment and guard structure that stands between an arbitrary DNS message and a crash or unbounded work: (R12.1) both entry points for untrusted messages — the function registered with miekg/dns for every query, and the client's answer decoder — run under a deferred function that calls recover(), installed before any message-derived data is touched (miekg does not recover, so an uncontained index panic kills the server process); (R12.7) the answer decoder turns a recovered panic into a non-nil error result (named result stored by the deferred closure and returned by the recover path); (R12.2) every func-typed field of the command table that is invoked is either non-nil in every table entry or every invocation is dominated by a nil test; (R12.3) sizes requested by the client (fragment-size probe, set-options fragment size) reach allocation/stride uses only behind comparisons against constant lower and upper bounds with an error on the failing edge; (R12.5) every loop in the untrusted cone whose exit depends on loop-carried variables changes one of them on every cyclic path. Not decided: numeric time/allocation bounds, miekg's own parsing, fatal runtime errors."
	r.NotDecided = []string{"time / allocation bounds as numbers", "miekg/dns message parsing", "unrecoverable runtime errors (stack overflow, out of memory)"}
	r.Trusted = []string{"miekg/dns v1.1.34 does not recover panics in handlers and accepts only messages with exactly one question (DefaultMsgAcceptFunc)", "recover() in a deferred closure stops a panic raised later in the same goroutine"}
	r.Rule("R12.1", "panic containment at both untrusted entry points", 2)
	r.Rule("R12.9", "an error answer always decodes to an error (the client's callers type-assert the answer when Query reports none)", 1)
	r.Rule("R12.13", "a session holds no pointer into the listener object: per-session options are copies (one peer's set-options query cannot disturb another session)", 1)
	c12SessionsShareNoListenerState(w, r, "R12.13")
	r.Rule("R12.12", "the client indexes the data of a decoded answer only within its length (the handshake probes run outside the decoder's recover)", 3)
	c12ClientIndexesAnswerDataInBounds(w, r)
	r.Rule("R12.11", "whatever the answers of the DNS path, a codec detection step of the client leaves a codec stored (the next step dereferences it outside any recover)", 2)
	ruleCodecCommitFollowsItsProbe(w, r, "R12.11")
	r.Rule("R12.10", "no query can leave a lock of the DNS endpoint held: every Lock is released on every path out of the function", 10)
	ruleLockPairing(w, r, "R12.10", dnsPkgFuncs(w))
	r.Rule("R12.8", "a query cannot disturb an established session unless it passed the owner check (handlers touch session state only on the err == nil edge of validateAndGetUser)", 4)
	r.Rule("R12.7", "a recovered panic is reported as an error by the entry point that returns one", 1)
	r.Rule("R12.2", "command table has no callable nil", 2)
	r.Rule("R12.3", "client-requested sizes are bounded before use", 2)
	r.Rule("R12.5", "loops in the untrusted cone make progress", 3)
	r.Rule("R12.6", "state kept per received message is bounded (parked packets)", 1)

	// ---------------------------------------------------------------- R12.1
	var serverEntry *ssa.Function
	for _, fn := range sortedModuleFuncs(w, w.SSA()) {
		for _, c := range callsIn(fn) {
			f := sCallee(c)
			if f == nil || f.Pkg() == nil || f.Pkg().Path() != "github.com/miekg/dns" || (f.Name() != "HandleFunc" && f.Name() != "Handle") {
				continue
			}
			args := c.Common().Args
			for _, root := range provenance(args[len(args)-1], provOpts{}) {
				if mc, ok := root.(*ssa.MakeClosure); ok {
					// bound method value: the closure's body calls the method
					bf := mc.Fn.(*ssa.Function)
					serverEntry = bf
					for _, c2 := range callsIn(bf) {
						if sc := c2.Common().StaticCallee(); sc != nil && inModule(sc) {
							serverEntry = sc
						}
					}
				}
				if f2, ok := root.(*ssa.Function); ok {
					serverEntry = f2
				}
			}
		}
	}
	clientEntry := w.SSAFunc(w.Method("internal/streams/dns/commands", "Serializer", "DecodeDnsResponseWithParams"))
	for _, e := range []struct {
		name string
		fn   *ssa.Function
		what string
	}{{"server", serverEntry, "the handler registered with dns.HandleFunc"}, {"client", clientEntry, "the answer decoder Serializer.DecodeDnsResponseWithParams"}} {
		key := "entry:" + e.name
		if e.fn == nil {
			r.Undecided("R12.1", key, "-", "anchor unresolved: "+e.what)
			continue
		}
		key += "|" + ssaFuncKey(e.fn)
		pos := w.Pos(e.fn.Pos())
		d := deferredRecover(e.fn)
		if d == nil {
			// one level up for the client: its single caller
			if e.name == "client" {
				if obj, ok := e.fn.Object().(*types.Func); ok {
					var callers []*ssa.Function
					for _, fn := range sortedModuleFuncs(w, w.SSA()) {
						for _, c := range callsIn(fn) {
							if sCallee(c) == obj {
								callers = append(callers, fn)
							}
						}
					}
					all := len(callers) > 0
					for _, cf := range callers {
						if deferredRecover(cf) == nil {
							all = false
						}
					}
					if all {
						r.Hold("R12.1", key, pos, "every caller of the decoder runs it under a deferred recover()")
						continue
					}
				}
			}
			r.Violate("R12.1", key, pos, e.what+" runs without a deferred recover(): any index/slice/nil panic raised while decoding an arbitrary message terminates the process (miekg/dns does not recover)")
			continue
		}
		// installed before message-derived work: the defer dominates every call/index in the function
		bad := ""
		allInstrs(e.fn, func(in ssa.Instruction) {
			switch in.(type) {
			case *ssa.Call, *ssa.Index, *ssa.IndexAddr, *ssa.Slice:
				if in != ssa.Instruction(d) && !instrDominates(d, in) {
					if c, ok := in.(*ssa.Call); ok {
						if f := sCallee(c); f != nil && f.Pkg() != nil && strings.Contains(f.Pkg().Path(), "logrus") {
							return
						}
						if _, isB := c.Call.Value.(*ssa.Builtin); isB {
							return
						}
					}
					if bad == "" {
						bad = fmt.Sprintf("%s: work is done before the recover() is installed", w.Pos(in.Pos()))
					}
				}
			}
		})
		r.Check(bad == "", "R12.1", key, pos, "runs under a deferred recover() installed before any message-derived work", bad)
		// R12.7: where the entry point reports through an error result, a recovered panic must come out as
		// a non-nil error — a function without named results returns zero values after recover(), i.e.
		// (nil, nil): "success" with a nil answer, which the caller dereferences
		res := e.fn.Signature.Results()
		if res.Len() > 0 && types.Identical(res.At(res.Len()-1).Type(), types.Universe.Lookup("error").Type()) {
			k7 := "entry:" + e.name + "|recovered-panic-is-an-error"
			why := ""
			if e.fn.Recover == nil {
				why = "the function has no named results: after the deferred recover() it returns zero values (nil response, nil error), whatever the closure assigned to its locals; the caller takes that for success and uses the nil response"
			} else {
				// the closure must store into a variable that the recover block returns as the error result
				returned := map[ssa.Value]bool{}
				for _, in := range e.fn.Recover.Instrs {
					if ret, ok := in.(*ssa.Return); ok && len(ret.Results) > 0 {
						if u, ok := ret.Results[len(ret.Results)-1].(*ssa.UnOp); ok {
							returned[u.X] = true
						}
					}
				}
				stored := false
				if mc, ok := d.Call.Value.(*ssa.MakeClosure); ok {
					cf := mc.Fn.(*ssa.Function)
					allInstrs(cf, func(x ssa.Instruction) {
						st, ok := x.(*ssa.Store)
						if !ok {
							return
						}
						fv, ok := st.Addr.(*ssa.FreeVar)
						if !ok {
							return
						}
						for i, f := range cf.FreeVars {
							if f == fv && i < len(mc.Bindings) && returned[mc.Bindings[i]] && !isConstNil(st.Val) {
								stored = true
							}
						}
					})
				}
				// ... or a named function that is handed the address of the error result
				if sc := d.Call.StaticCallee(); sc != nil && !stored {
					if _, isClosure := d.Call.Value.(*ssa.MakeClosure); !isClosure {
						for ai, a := range d.Call.Args {
							if !returned[a] || ai >= len(sc.Params) {
								continue
							}
							prm := sc.Params[ai]
							allInstrs(sc, func(x ssa.Instruction) {
								if st, ok := x.(*ssa.Store); ok && st.Addr == ssa.Value(prm) && !isConstNil(st.Val) {
									stored = true
								}
							})
						}
					}
				}
				if !stored {
					why = "the deferred recover() does not store a non-nil error into the function's error result: the panic is swallowed and the caller sees success"
				}
			}
			r.Check(why == "", "R12.7", k7, pos, "the deferred recover() stores a non-nil error into the named error result, which the recover path returns", why)
		}
	}

	// ---------------------------------------------------------------- R12.2
	c12CommandTable(w, r)
	ruleHandlersGuarded(w, r, "R12.8")
	c12ErrorAnswerIsAnError(w, r)

	// ---------------------------------------------------------------- R12.3
	c12Sizes(w, r)

	// ---------------------------------------------------------------- R12.5
	var entries []*ssa.Function
	if serverEntry != nil {
		entries = append(entries, serverEntry)
	}
	if om := w.SSAFunc(w.Method("internal/streams/dns", "ServerDnsListener", "onMessage")); om != nil {
		entries = append(entries, om)
	}
	if clientEntry != nil {
		entries = append(entries, clientEntry)
	}
	cone := untrustedCone(w, entries)
	nloops := 0
	for _, fn := range cone {
		for i, lf := range checkLoopProgress(w, fn) {
			if lf.NoVars {
				continue // exit depends on external state only (e.g. a closed flag): not a data-driven loop
			}
			nloops++
			key := fmt.Sprintf("loop:%s#%d", ssaFuncKey(fn), i)
			if lf.Exceeded {
				r.Undecided("R12.5", key, lf.Pos, "path budget exceeded")
				continue
			}
			r.Check(lf.Msg == "", "R12.5", key, lf.Pos, fmt.Sprintf("%d cyclic path(s), each changes a variable the exit depends on %v", lf.Paths, lf.Vars),
				lf.Msg+": crafted input that keeps the loop on that path makes it spin forever", "paths", lf.Paths)
		}
	}
	// R12.6: per-message state is bounded (shares the analysis of C07 R07.11)
	if inQ := w.Named("internal/streams/dns/util", "InQueue"); inQ != nil {
		if fn := w.SSAFunc(methodOf(inQ, "Append")); fn != nil {
			c07Parked(w, r, "R12.6", fn, inQ)
		}
	}
	r.Extra["untrusted_cone_functions"] = len(cone)
	if nloops == 0 {
		r.Undecided("R12.5", "loops", "-", "no data-driven loop found in the untrusted cone")
	}
}

func c12CommandTable(w *World, r *Report) {
	p := w.Pkg("internal/streams/dns/commands")
	cmdT := w.Named("internal/streams/dns/commands", "Command")
	if p == nil || cmdT == nil {
		r.Undecided("R12.2", "anchor", "-", "anchor unresolved: commands.Command")
		return
	}
	st := cmdT.Underlying().(*types.Struct)
	var funcFields []*types.Var
	for i := 0; i < st.NumFields(); i++ {
		if _, ok := st.Field(i).Type().Underlying().(*types.Signature); ok {
			funcFields = append(funcFields, st.Field(i))
		}
	}
	// which fields are nil in some literal of the table? (every package-level Command literal)
	nilIn := map[*types.Var][]string{}
	nlits := 0
	for _, f := range p.Syntax {
		ast.Inspect(f, func(x ast.Node) bool {
			cl, ok := x.(*ast.CompositeLit)
			if !ok {
				return true
			}
			if t := p.TypesInfo.TypeOf(cl); t == nil || !types.Identical(t, cmdT) {
				return true
			}
			nlits++
			set := map[*types.Var]bool{}
			name := "?"
			for _, el := range cl.Elts {
				if kv, ok := el.(*ast.KeyValueExpr); ok {
					if id, ok := kv.Key.(*ast.Ident); ok {
						if fv, ok := p.TypesInfo.Uses[id].(*types.Var); ok {
							if !isNilIdent(p.TypesInfo, kv.Value) {
								set[fv] = true
							}
							if fv.Name() == "Code" {
								if v := constVal(p.TypesInfo, kv.Value); v != nil {
									name = v.ExactString()
								}
							}
						}
					}
				}
			}
			for _, ff := range funcFields {
				if !set[ff] {
					nilIn[ff] = append(nilIn[ff], "command "+name+" at "+w.Pos(cl.Pos()))
				}
			}
			return true
		})
	}
	if nlits == 0 {
		r.Undecided("R12.2", "table:commands.Commands", "-", "no Command literal found")
		return
	}
	// invocations of each func field
	for _, ff := range funcFields {
		key := "field:commands.Command." + ff.Name()
		ninv := 0
		bad := ""
		for _, fn := range sortedModuleFuncs(w, w.SSA()) {
			for _, c := range callsIn(fn) {
				cc := c.Common()
				if cc.IsInvoke() || cc.StaticCallee() != nil {
					continue
				}
				var fld *ssa.Value
				_ = fld
				isField := false
				var loadV ssa.Value
				for _, root := range provenance(cc.Value, provOpts{}) {
					switch x := root.(type) {
					case *ssa.UnOp:
						if fa, ok := x.X.(*ssa.FieldAddr); ok && fieldVarOf(fa) == ff {
							isField, loadV = true, root
						}
					case *ssa.Field:
						if fieldVarOfField(x) == ff {
							isField, loadV = true, root
						}
					}
				}
				if !isField {
					continue
				}
				ninv++
				if len(nilIn[ff]) == 0 {
					continue
				}
				// must be dominated by a nil test of the same field value
				guarded := false
				for _, b := range fn.Blocks {
					if len(b.Instrs) == 0 {
						continue
					}
					ifi, ok := b.Instrs[len(b.Instrs)-1].(*ssa.If)
					if !ok {
						continue
					}
					x, eqNil, ok := nilTest(ifi.Cond)
					if !ok {
						continue
					}
					same := x == loadV
					if !same {
						// another load of the same field of the same struct value
						switch y := x.(type) {
						case *ssa.Field:
							if f2, ok := loadV.(*ssa.Field); ok && fieldVarOfField(y) == ff && y.X == f2.X {
								same = true
							}
						case *ssa.UnOp:
							if fa, ok := y.X.(*ssa.FieldAddr); ok && fieldVarOf(fa) == ff {
								if u2, ok := loadV.(*ssa.UnOp); ok {
									if fa2, ok := u2.X.(*ssa.FieldAddr); ok && fa2.X == fa.X {
										same = true
									}
								}
							}
						}
					}
					if !same {
						continue
					}
					succ := 0
					if eqNil {
						succ = 1
					}
					if edgeDominates(b, succ, c.Block()) {
						guarded = true
					}
				}
				if !guarded {
					bad = fmt.Sprintf("%s: %s is called without a nil test although it is nil for %v: a query/answer starting with that command letter crashes the process", w.Pos(c.Pos()), ff.Name(), nilIn[ff])
				}
			}
		}
		if ninv == 0 {
			r.Hold("R12.2", key, w.Pos(ff.Pos()), "field is never invoked")
			continue
		}
		r.Check(bad == "", "R12.2", key, w.Pos(ff.Pos()), fmt.Sprintf("%d invocation(s); nil in %d table entr(ies), every invocation guarded by a nil test", ninv, len(nilIn[ff])), bad, "invocations", ninv, "nil_entries", nilIn[ff])
	}
}

// c12Sizes: values loaded from the client-controlled size fields reach
// make() / the stored fragment size only behind constant lower and upper bounds.
func c12Sizes(w *World, r *Report) {
	type src struct {
		typ, field string
	}
	for _, s := range []src{{"TestDownstreamFragmentSizeRequest", "FragmentSize"}, {"SetOptionsRequest", "DownstreamFragmentSize"}} {
		n := w.Named("internal/streams/dns/commands", s.typ)
		fld := fieldOf(n, s.field)
		key := "source:commands." + s.typ + "." + s.field
		if fld == nil {
			r.Undecided("R12.3", key, "-", "anchor unresolved")
			continue
		}
		nuse := 0
		bad := ""
		// parameters of helpers that receive the client-supplied size (filled below, to a fixpoint)
		derivedParams := map[*ssa.Parameter]bool{}
		derivedIn := func(fn *ssa.Function) map[ssa.Value]bool {
			derived := map[ssa.Value]bool{}
			for _, p := range fn.Params {
				if derivedParams[p] {
					derived[p] = true
				}
			}
			changed := true
			for changed {
				changed = false
				allInstrs(fn, func(in ssa.Instruction) {
					v, ok := in.(ssa.Value)
					if !ok || derived[v] {
						return
					}
					switch x := in.(type) {
					case *ssa.UnOp:
						if x.Op == token.MUL {
							if fa, ok := x.X.(*ssa.FieldAddr); ok && fieldVarOf(fa) == fld {
								derived[v] = true
								changed = true
							} else if derived[x.X] {
								derived[v] = true
								changed = true
							}
						}
					case *ssa.Convert:
						if derived[x.X] {
							derived[v] = true
							changed = true
						}
					case *ssa.Phi:
						for _, e := range x.Edges {
							if derived[e] {
								derived[v] = true
								changed = true
							}
						}
					}
				})
			}
			return derived
		}
		// boundsTo: are constant lower/upper bounds on the client-supplied size established on every path of fn that reaches `at`?
		isFieldPtrLoad := func(v ssa.Value) bool {
			u, ok := v.(*ssa.UnOp)
			if !ok || u.Op != token.MUL {
				return false
			}
			fa, ok := u.X.(*ssa.FieldAddr)
			return ok && fieldVarOf(fa) == fld
		}
		var boundsTo func(fn *ssa.Function, at ssa.Instruction, depth int, skipNilField bool) (lower, upper bool)
		boundsTo = func(fn *ssa.Function, at ssa.Instruction, depth int, skipNilField bool) (lower, upper bool) {
			derived := derivedIn(fn)
			lower, upper = true, true
			npaths := 0
			okp := enumPathsX(fn, nil, nil, func(x ssa.Instruction) bool { return x == at }, sameFieldLoadCond, func(e pathExit) {
				if e.Stop == nil {
					return
				}
				if skipNilField {
					// the callee uses the size only where the optional field is present: caller paths on which it is absent do not matter
					for v, truth := range e.State.Facts {
						if x, eqNil, ok := nilTest(v); ok && truth == eqNil && isFieldPtrLoad(x) {
							npaths++
							return
						}
					}
				}
				npaths++
				lo, up := boundsFromFacts(e.State.Facts, derived)
				// a predicate helper applied to the size (or to the optional field holding it)
				for v, truth := range e.State.Facts {
					call, ok := v.(*ssa.Call)
					if !ok {
						continue
					}
					h := call.Call.StaticCallee()
					if h == nil || !inModule(h) || len(h.Blocks) == 0 {
						continue
					}
					for i, a := range call.Call.Args {
						if derived[a] || isFieldPtrLoad(a) {
							l2, u2 := predicateBounds(h, i, truth)
							lo, up = lo || l2, up || u2
						}
					}
				}
				if !lo {
					lower = false
				}
				if !up {
					upper = false
				}
			})
			if !okp || npaths == 0 {
				lower, upper = false, false
			}
			if (lower && upper) || depth >= 2 {
				return
			}
			// the bounds may have been established by the callers before they handed the request over
			obj := fnObj(fn)
			if obj == nil {
				return
			}
			ncall := 0
			clo, cup := true, true
			for _, caller := range dnsPkgFuncs(w) {
				for _, c := range callsIn(caller) {
					if sCallee(c) != obj || c.Common().IsInvoke() {
						continue
					}
					ci, ok := c.(ssa.Instruction)
					if !ok {
						continue
					}
					ncall++
					// does the callee reach `at` only where the optional field is non-nil?
					needsNonNil := dominatedByCond(fn, at, func(v ssa.Value) bool {
						x, eqNil, ok := nilTest(v)
						return ok && !eqNil && isFieldPtrLoad(x)
					}, true) || dominatedByCond(fn, at, func(v ssa.Value) bool {
						x, eqNil, ok := nilTest(v)
						return ok && eqNil && isFieldPtrLoad(x)
					}, false)
					l2, u2 := boundsTo(caller, ci, depth+1, needsNonNil)
					if !l2 {
						clo = false
					}
					if !u2 {
						cup = false
					}
				}
			}
			if ncall > 0 {
				lower = lower || clo
				upper = upper || cup
			}
			return
		}
		for round := 0; round < 3; round++ {
			for _, fn := range dnsPkgFuncs(w) {
				if fn.Pkg != nil && strings.HasSuffix(fn.Pkg.Pkg.Path(), "/commands") {
					continue
				}
				derived := derivedIn(fn)
				if len(derived) == 0 {
					continue
				}
				for _, c := range callsIn(fn) {
					h := c.Common().StaticCallee()
					if h == nil || !inModule(h) || len(h.Blocks) == 0 {
						continue
					}
					for i, a := range c.Common().Args {
						if derived[a] && i < len(h.Params) && isIntType(h.Params[i].Type()) {
							derivedParams[h.Params[i]] = true
						}
					}
				}
			}
		}
		for _, fn := range dnsPkgFuncs(w) {
			if fn.Pkg != nil && strings.HasSuffix(fn.Pkg.Pkg.Path(), "/commands") {
				continue // encode/decode of the field itself
			}
			derived := derivedIn(fn)
			if len(derived) == 0 {
				continue
			}
			// sinks: make([]T, v) and stores of v into a FragmentSize field
			allInstrs(fn, func(in ssa.Instruction) {
				var sink ssa.Value
				what := ""
				switch x := in.(type) {
				case *ssa.MakeSlice:
					if derived[x.Len] || derived[x.Cap] {
						sink, what = x.Len, "allocation size"
					}
				case *ssa.Store:
					if derived[x.Val] {
						if fa, ok := x.Addr.(*ssa.FieldAddr); ok && fieldVarOf(fa) != nil && fieldVarOf(fa).Name() == "FragmentSize" {
							sink, what = x.Val, "session fragment size (later the chunking stride of OutQueue.Write)"
						}
					}
				}
				if sink == nil {
					return
				}
				nuse++
				lower, upper := boundsTo(fn, in, 0, false)
				if !upper {
					bad = fmt.Sprintf("%s: a client-supplied size reaches an %s without a constant upper bound (2^32-1 requests a 4 GiB allocation per query)", w.Pos(in.Pos()), what)
				} else if !lower && what != "allocation size" {
					bad = fmt.Sprintf("%s: a client-supplied size reaches the %s without a positive lower bound", w.Pos(in.Pos()), what)
				}
			})
		}
		if nuse == 0 {
			r.Undecided("R12.3", key, w.Pos(fld.Pos()), "no use of the client-supplied size found (allocation / fragment-size store)")
			continue
		}
		r.Check(bad == "", "R12.3", key, w.Pos(fld.Pos()), fmt.Sprintf("%d use(s), each behind constant bounds", nuse), bad, "uses", nuse)
	}
}

// c12ErrorAnswerIsAnError: R12.9 — QueryWithData turns an ErrorResponse into (resp, resp.Err). Its callers
// type-assert the answer to the type they asked for whenever the error is nil, outside any recover. So
// ErrorResponse.Decode must never succeed with Err == nil: on every path on which it can return a nil error
// a non-nil value has been stored into Err. pkg/errors.WithStack/Wrap(f) return nil for a nil argument, so
// `return errors.WithStack(err)` is a possible success return unless err is known non-nil on the path.
func c12ErrorAnswerIsAnError(w *World, r *Report) {
	et := w.Named("internal/streams/dns/commands", "ErrorResponse")
	key := "method:(*commands.ErrorResponse).Decode|err-set"
	fn := w.SSAFunc(methodOf(et, "Decode"))
	errF := fieldOf(et, "Err")
	if fn == nil || errF == nil {
		r.Undecided("R12.9", key, "-", "anchor unresolved: commands.ErrorResponse.Decode / Err")
		return
	}
	isErrStore := func(in ssa.Instruction) bool {
		st, ok := in.(*ssa.Store)
		if !ok {
			return false
		}
		fa := asFieldAddr(st.Addr)
		return fa != nil && fieldVarOf(fa) == errF
	}
	var maybeNil func(st *pathState, v ssa.Value, d int) bool
	maybeNil = func(st *pathState, v ssa.Value, d int) bool {
		v = st.Resolve(v)
		if isConstNil(v) {
			return true
		}
		if isNil, known := st.NilKnown(v); known {
			return isNil
		}
		if c, ok := v.(*ssa.Call); ok && d < 4 {
			f := sCallee(c)
			if f != nil && f.Pkg() != nil && f.Pkg().Path() == "github.com/pkg/errors" {
				switch f.Name() {
				case "WithStack", "Wrap", "Wrapf", "WithMessage", "WithMessagef":
					return maybeNil(st, c.Call.Args[0], d+1)
				case "New", "Errorf":
					return false
				}
			}
			if f != nil && f.Pkg() != nil && (f.Pkg().Path() == "errors" || f.Pkg().Path() == "fmt") {
				return false
			}
		}
		if _, isMk := v.(*ssa.MakeInterface); isMk {
			return false
		}
		// an error value nothing is known about (the result of a call that was only compared with a sentinel)
		return true
	}
	bad := ""
	nsucc := 0
	okp := enumPaths(fn, nil, isErrStore, nil, func(e pathExit) {
		ret, isRet := e.Last.(*ssa.Return)
		if !isRet || len(ret.Results) == 0 || bad != "" {
			return
		}
		if !maybeNil(e.State, ret.Results[len(ret.Results)-1], 0) {
			return // a definite failure
		}
		nsucc++
		if k := len(e.State.Events); k > 0 {
			if last := e.State.Events[k-1].(*ssa.Store); errMaybeNil(e.State, last.Val, 0) {
				bad = fmt.Sprintf("%s: the value stored into Err can be nil on a path on which Decode reports success (%s): the answer reaches the client's callers as 'no error', they type-assert it to the answer type they asked for and the client panics outside any recover — one crafted error answer (an empty text) kills the client", w.Pos(last.Pos()), describeValue(w, last.Val))
			}
			return
		}
		if len(e.State.Events) == 0 {
			bad = fmt.Sprintf("%s: Decode can return a nil error here without having stored an error into Err (errors.WithStack(nil) is nil): the answer then reaches the client's callers as 'no error', they type-assert it to the answer type they asked for and the client panics outside any recover — one crafted error answer (a NUL byte in its text) kills the client", w.Pos(ret.Pos()))
		}
	})
	if !okp {
		r.Undecided("R12.9", key, w.Pos(fn.Pos()), "path budget exceeded")
		return
	}
	r.Check(bad == "" && nsucc > 0, "R12.9", key, w.Pos(fn.Pos()), fmt.Sprintf("%d possibly-successful return path(s), each after a non-nil store into Err", nsucc), bad)
}

// boundsFromFacts: do the branch facts of a path establish a constant positive lower bound / a constant upper
// bound on one of the `derived` values?
func boundsFromFacts(facts map[ssa.Value]bool, derived map[ssa.Value]bool) (lo, up bool) {
	for v, truth := range facts {
		bo, ok := v.(*ssa.BinOp)
		if !ok {
			continue
		}
		var c int64
		var op token.Token
		if derived[bo.X] {
			cv, isC := constIntVal(bo.Y)
			if !isC {
				continue
			}
			c, op = cv, bo.Op
		} else if derived[bo.Y] {
			cv, isC := constIntVal(bo.X)
			if !isC {
				continue
			}
			c = cv
			switch bo.Op {
			case token.LSS:
				op = token.GTR
			case token.GTR:
				op = token.LSS
			case token.LEQ:
				op = token.GEQ
			case token.GEQ:
				op = token.LEQ
			default:
				op = bo.Op
			}
		} else {
			continue
		}
		switch {
		case (op == token.GTR || op == token.GEQ) && !truth:
			up = true
		case (op == token.LSS || op == token.LEQ) && truth:
			up = true
		case (op == token.GTR && truth && c >= 0) || (op == token.GEQ && truth && c >= 1):
			lo = true
		case (op == token.LSS && !truth && c >= 1) || (op == token.LEQ && !truth && c >= 0):
			lo = true
		case op == token.EQL && !truth && c == 0, op == token.NEQ && truth && c == 0:
			lo = true
		}
	}
	return
}

// predicateBounds: summary of a boolean helper h applied to a size (parameter pidx: the integer itself or a
// pointer to it). On every path of h that can return `truth` — except those on which the pointer is nil, i.e.
// no size was supplied — which constant bounds on the size do the branch facts establish?
func predicateBounds(h *ssa.Function, pidx int, truth bool) (lower, upper bool) {
	if pidx >= len(h.Params) || h.Signature.Results().Len() != 1 {
		return false, false
	}
	prm := h.Params[pidx]
	derived := map[ssa.Value]bool{}
	if isIntType(prm.Type()) {
		derived[prm] = true
	}
	changed := true
	for changed {
		changed = false
		allInstrs(h, func(in ssa.Instruction) {
			v, ok := in.(ssa.Value)
			if !ok || derived[v] {
				return
			}
			switch x := in.(type) {
			case *ssa.UnOp:
				if x.Op == token.MUL && (x.X == ssa.Value(prm) || derived[x.X]) {
					derived[v], changed = true, true
				}
			case *ssa.Convert:
				if derived[x.X] {
					derived[v], changed = true, true
				}
			case *ssa.Phi:
				for _, e := range x.Edges {
					if derived[e] {
						derived[v], changed = true, true
					}
				}
			}
		})
	}
	lower, upper = true, true
	n := 0
	okp := enumPaths(h, nil, nil, nil, func(e pathExit) {
		ret, isRet := e.Last.(*ssa.Return)
		if !isRet {
			return
		}
		rv := e.State.Resolve(ret.Results[0])
		facts := e.State.Facts
		if b, isC := constBool(rv); isC {
			if b != truth {
				return
			}
		} else if tv, known := e.State.Truth(rv); known {
			if tv != truth {
				return
			}
		} else {
			facts = map[ssa.Value]bool{rv: truth}
			for k, x := range e.State.Facts {
				facts[k] = x
			}
		}
		for v, t := range facts {
			if x, eqNil, ok := nilTest(v); ok && t == eqNil && x == ssa.Value(prm) {
				return // no size supplied
			}
		}
		n++
		lo, up := boundsFromFacts(facts, derived)
		if !lo {
			lower = false
		}
		if !up {
			upper = false
		}
	})
	if !okp || n == 0 {
		return false, false
	}
	return
}
