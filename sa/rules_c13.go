package main

// C13 — DNS tunnel sessions are isolated from each other and from spoofers.

import (
	"strings"
	"fmt"
	"go/token"
	"go/types"

	"golang.org/x/tools/go/ssa"
)

func init() { register("C13", checkC13) }

func checkC13(w *World, r *Report) {
	r.Explanation = "Decides the lock, guard and table-identity structure of DNS session isolation: (R13.1) every store into the live or retired session table happens while usersLock is held, and newUser scans, assigns the identifier and fills the slot in one critical section; (R13.2) in every request handler that looks a session up, each store to the session object, each call on its in/out queues and each closeConnection lies on the err == nil edge of validateAndGetUser called with the request's user id and the datagram's source address; inside validateAndGetUser the last-contact update comes after the address comparison and a retired session yields BADCONN; (R13.3) a slot of a table is cleared only on behalf of a session read from that same table (or validated in the same function); (R13.4) closeConnection clears the live slot only after a pointer-identity test between the slot's occupant and the session being closed. Not decided: interleavings beyond the lock discipline (the message path reads the tables without the lock), expiry timing."
	r.NotDecided = []string{"interleavings of unlocked table reads on the message path", "expiry timing", "identifier uniqueness beyond 'lowest free slot under the lock'"}
	r.Trusted = []string{"sync.Mutex semantics", "net.Addr.String() identifies the datagram source"}
	r.Rule("R13.1", "session tables written only under usersLock", 5)
	r.Rule("R13.2", "address check dominates every session-state mutation", 4)
	r.Rule("R13.3", "a slot is cleared only from its own table", 3)
	r.Rule("R13.4", "close is identity-checked", 1)
	r.Rule("R13.5", "session tables cover every identifier the wire format can carry", 2)
	r.Rule("R13.6", "the client adopts a session identifier only from an error-free version answer", 1)
	r.Rule("R13.12", "a session holds no pointer into the listener object: per-session codec options are copies", 1)
	c12SessionsShareNoListenerState(w, r, "R13.12")
	r.Rule("R13.11", "a new session is stored into the live table only at an index whose live entry was just found empty", 1)
	c13NewSessionTakesEmptySlotOnly(w, r)
	r.Rule("R13.10", "the session identifier is decoded in arithmetic wide enough for every identifier the server hands out (no 8-bit arithmetic widened afterwards)", 1)
	ruleNoNarrowArithmeticBeforeWidening(w, r, "R13.10", []*ssa.Function{w.SSAFunc(w.Func("internal/streams/dns/commands", "DecodeRequestHeader"))}, ": identifiers above 255 come back as their residue — the peer of session 256+k is validated against, writes into, reads from and can close session k")
	r.Rule("R13.9", "a retired session's record decides an answer only where the live slot is empty (identifiers are reused)", 1)
	c13LiveSlotBeforeRetiredRecord(w, r)
	r.Rule("R13.8", "a version answer names a session created for that very request (never an existing one looked up by address)", 1)
	c13VersionAnswersNameFreshSessions(w, r)
	r.Rule("R13.7", "no memory is recycled between requests of different sessions: what is taken from a sync.Pool never ends up in a decoded request, a parked packet or a stream", 1)
	rulePoolMemoryStaysLocal(w, r, "R13.7", func(p string) bool { return strings.HasPrefix(p, modPath+"/internal/streams/dns") || strings.HasPrefix(p, modPath+"/internal/util/enc") })
	errGuardedFieldReads(w, r, "R13.6", "session-id", "a refused version request (BADVERSION, no free slot) carries identifier 0: the client then acts under the identifier of another live session, and from behind the same source address (one NAT / resolver) its packets are accepted into that session")

	lst := w.Named("internal/streams/dns", "ServerDnsListener")
	uc := w.Named("internal/streams/dns", "userConnection")
	if lst == nil || uc == nil {
		r.Undecided("R13.1", "anchor", "-", "anchor unresolved: ServerDnsListener / userConnection")
		return
	}
	// the two tables: fields of type []*userConnection; the lock: field of type *sync.Mutex
	var tables []*types.Var
	var lockF *types.Var
	st := lst.Underlying().(*types.Struct)
	for i := 0; i < st.NumFields(); i++ {
		f := st.Field(i)
		if sl, ok := f.Type().(*types.Slice); ok {
			if p, ok := sl.Elem().(*types.Pointer); ok && types.Identical(p.Elem(), uc) {
				tables = append(tables, f)
			}
		}
		if p, ok := f.Type().(*types.Pointer); ok {
			if n, ok := p.Elem().(*types.Named); ok && n.Obj().Pkg() != nil && n.Obj().Pkg().Path() == "sync" && n.Obj().Name() == "Mutex" {
				lockF = f
			}
		}
	}
	if len(tables) != 2 || lockF == nil {
		r.Undecided("R13.1", "type:streams/dns.ServerDnsListener", w.Pos(lst.Obj().Pos()), fmt.Sprintf("expected 2 session tables and a mutex, found %d / %v", len(tables), lockF != nil))
		return
	}
	live := tables[0] // by declaration order: connections, oldConnections
	isTable := func(v ssa.Value) *types.Var {
		for _, root := range provenance(v, provOpts{}) {
			if fa := asFieldAddr(root); fa != nil {
				for _, t := range tables {
					if fieldVarOf(fa) == t {
						return t
					}
				}
			}
		}
		return nil
	}
	isLock := func(v ssa.Value) bool {
		for _, root := range provenance(v, provOpts{}) {
			if fa := asFieldAddr(root); fa != nil && fieldVarOf(fa) == lockF {
				return true
			}
			if u, ok := root.(*ssa.UnOp); ok {
				if fv, ok := u.X.(*ssa.FreeVar); ok {
					_ = fv
				}
			}
		}
		return false
	}
	// R13.5: the tables have a slot for every identifier the wire format can carry (2 base-36 characters)
	if ctor := w.SSAFunc(w.Func("internal/streams/dns", "NewServerDnsListener")); ctor != nil {
		allInstrs(ctor, func(in ssa.Instruction) {
			st, ok := in.(*ssa.Store)
			if !ok {
				return
			}
			fa, ok := st.Addr.(*ssa.FieldAddr)
			if !ok {
				return
			}
			for _, t := range tables {
				if fieldVarOf(fa) != t {
					continue
				}
				size := int64(-1)
				for _, root := range provenance(st.Val, provOpts{}) {
					switch x := root.(type) {
					case *ssa.MakeSlice:
						size, _ = constIntVal(x.Len)
					case *ssa.Slice:
						if al, ok := x.X.(*ssa.Alloc); ok {
							if arr, ok := al.Type().(*types.Pointer).Elem().(*types.Array); ok {
								size = arr.Len()
							}
						}
					}
				}
				r.Check(size >= 36*36, "R13.5", "table:"+t.Name()+"|size", w.Pos(st.Pos()), fmt.Sprintf("%d slots >= 1296 decodable identifiers", size),
					fmt.Sprintf("the table has %d slots but a request can carry any identifier below 1296: indexing it is out of range", size))
			}
		})
	}

	fns := dnsPkgFuncs(w)
	validate := w.Method("internal/streams/dns", "ServerDnsListener", "validateAndGetUser")

	// ---------------------------------------------------------------- R13.1 + R13.3
	for _, fn := range fns {
		region, _ := lockRegion(fn, isLock)
		ord := 0
		allInstrs(fn, func(in ssa.Instruction) {
			stt, ok := in.(*ssa.Store)
			if !ok {
				return
			}
			ia, ok := stt.Addr.(*ssa.IndexAddr)
			if !ok {
				return
			}
			tbl := isTable(ia.X)
			if tbl == nil {
				return
			}
			key := fmt.Sprintf("store:%s[...]@%s#%d", tbl.Name(), ssaFuncKey(fn), ord)
			ord++
			r.Check(region[stt] || heldWithCallers(w, stt, isLock, 0), "R13.1", key, w.Pos(stt.Pos()), "slot written while usersLock is held (here or in every caller)",
				"a session table slot is written without usersLock: two handshakes can be given the same identifier or a slot can be half-updated")
			// R13.3: clearing stores
			if !isConstNil(stt.Val) {
				return
			}
			// index = X.UserId ; where does X come from?
			var x ssa.Value
			for _, root := range provenance(ia.Index, provOpts{}) {
				if fa := asFieldAddr(root); fa != nil && fieldVarOf(fa) != nil && fieldVarOf(fa).Name() == "UserId" {
					x = fa.X
				}
				if cv, ok := root.(*ssa.Convert); ok {
					for _, r2 := range provenance(cv.X, provOpts{}) {
						if fa := asFieldAddr(r2); fa != nil && fieldVarOf(fa) != nil && fieldVarOf(fa).Name() == "UserId" {
							x = fa.X
						}
					}
				}
			}
			k3 := fmt.Sprintf("clear:%s[...]@%s#%d", tbl.Name(), ssaFuncKey(fn), ord-1)
			if x == nil {
				// indexed by the slot number itself (`for id := range s.connections`): the clearing must hang on a
				// condition about the occupant of THIS table at THIS index (its time-out, its identity), not only on the
				// other table's entry
				var own, other *types.Var
				var sliceOf func(v ssa.Value, depth int, seen map[ssa.Value]bool, visit func(ssa.Value))
				sliceOf = func(v ssa.Value, depth int, seen map[ssa.Value]bool, visit func(ssa.Value)) {
					if v == nil || depth > 10 || seen[v] {
						return
					}
					seen[v] = true
					visit(v)
					if in2, ok := v.(ssa.Instruction); ok {
						for _, op := range in2.Operands(nil) {
							if *op != nil {
								sliceOf(*op, depth+1, seen, visit)
							}
						}
					}
				}
				for _, b := range fn.Blocks {
					ifi, ok := b.Instrs[len(b.Instrs)-1].(*ssa.If)
					if !ok {
						continue
					}
					// only the TRUE edge counts: "cleared because its occupant satisfies the predicate"; the false edge of
					// `live != nil && stale(live)` says nothing in favour of clearing the live slot
					for si := 0; si < 1; si++ {
						if !edgeDominates(b, si, stt.Block()) {
							continue
						}
						if _, _, isNilTest := nilTest(ifi.Cond); isNilTest {
							continue // `entry != nil` says nothing about why the slot may be cleared
						}
						sliceOf(ifi.Cond, 0, map[ssa.Value]bool{}, func(v ssa.Value) {
							u, ok := v.(*ssa.UnOp)
							if !ok {
								return
							}
							ia2, ok := u.X.(*ssa.IndexAddr)
							if !ok {
								return
							}
							if t := isTable(ia2.X); t != nil && ia2.Index == ia.Index {
								if t == tbl {
									own = t
								} else {
									other = t
								}
							}
						})
					}
				}
				switch {
				case own != nil:
					r.Hold("R13.3", k3, w.Pos(stt.Pos()), "the slot is cleared under a condition on its own occupant (same table, same index)")
				case other != nil:
					r.Violate("R13.3", k3, w.Pos(stt.Pos()), fmt.Sprintf("a slot of %s is cleared under a condition on the entry of %s at the same index only: when a retired session's retention expires, the LIVE session that re-used its identifier is deleted", tbl.Name(), other.Name()))
				default:
					r.Undecided("R13.3", k3, w.Pos(stt.Pos()), "cleared slot is not indexed by a session's identifier, and no condition on its occupant governs the clearing")
				}
				return
			}
			// X loaded from a table element?
			var src *types.Var
			fromParam := false
			for _, root := range provenance(x, provOpts{}) {
				if u, ok := root.(*ssa.UnOp); ok {
					if ia2, ok := u.X.(*ssa.IndexAddr); ok {
						if t := isTable(ia2.X); t != nil {
							src = t
						}
					}
				}
				if _, ok := root.(*ssa.Parameter); ok {
					fromParam = true
				}
			}
			switch {
			case src != nil && src == tbl:
				r.Hold("R13.3", k3, w.Pos(stt.Pos()), "the slot cleared belongs to the table the session was read from")
			case src != nil && src != tbl:
				r.Violate("R13.3", k3, w.Pos(stt.Pos()), fmt.Sprintf("a slot of %s is cleared on behalf of a session read from %s: when a retired session's retention expires, the LIVE session that re-used its identifier is deleted", tbl.Name(), src.Name()))
			case fromParam:
				// a session handed in by the caller: needs the identity check of R13.4
				idOK := c13IdentityGuard(w, fn, stt, x, live, isTable)
				r.Check(idOK, "R13.4", "clear:"+tbl.Name()+"[...]@"+ssaFuncKey(fn)+"|identity", w.Pos(stt.Pos()),
					"the slot is cleared only after its occupant was compared (pointer identity) with the session being closed",
					"the live slot is cleared without checking that its occupant IS the session being closed: a late Close() of an earlier session from the same resolver address retires the new session that re-used the identifier")
				r.Hold("R13.3", k3, w.Pos(stt.Pos()), "the session is supplied by the caller; identity with the slot's occupant is decided by R13.4")
			default:
				r.Undecided("R13.3", k3, w.Pos(stt.Pos()), "origin of the session whose slot is cleared not recognised")
			}
		})
	}
	// newUser: scan+assign+store in one critical section = all table accesses in region (covered) and the Lock dominates the scan
	if fn := w.SSAFunc(w.Method("internal/streams/dns", "ServerDnsListener", "newUser")); fn != nil {
		region, locks := lockRegion(fn, isLock)
		bad := ""
		allInstrs(fn, func(in ssa.Instruction) {
			if ia, ok := in.(*ssa.IndexAddr); ok && isTable(ia.X) != nil && !region[in] {
				bad = fmt.Sprintf("%s: newUser touches the session table outside its critical section", w.Pos(in.Pos()))
			}
		})
		r.Check(bad == "" && locks == 1, "R13.1", "method:(*streams/dns.ServerDnsListener).newUser|one-section", w.Pos(fn.Pos()), "free-slot scan, identifier assignment and slot store share one critical section", bad+mapStr(locks != 1, fmt.Sprintf(" (%d critical sections)", locks)))
	} else {
		r.Undecided("R13.1", "method:(*streams/dns.ServerDnsListener).newUser|one-section", "-", "anchor unresolved")
	}

	// ---------------------------------------------------------------- R13.2
	ruleHandlersGuarded(w, r, "R13.2")
	// inside validateAndGetUser
	if fn := w.SSAFunc(validate); fn != nil {
		key := "method:(*streams/dns.ServerDnsListener).validateAndGetUser|address-first"
		bad := ""
		// addrEq: v is a boolean that is true only if the two network addresses are equal as full strings
		// (String() == String(), which includes port and IPv6 zone). pos reports the polarity: the value
		// being `want` means "equal".
		strCmp := func(v ssa.Value) (eqWhen bool, ok bool) {
			b, isB := v.(*ssa.BinOp)
			if !isB || (b.Op != token.EQL && b.Op != token.NEQ) {
				return false, false
			}
			isStr := func(x ssa.Value) bool {
				c, ok := x.(*ssa.Call)
				return ok && c.Call.IsInvoke() && c.Call.Method.Name() == "String"
			}
			if isStr(b.X) && isStr(b.Y) {
				return b.Op == token.EQL, true
			}
			return false, false
		}
		helperOK := map[*ssa.Function]int{} // 1 = true only under string equality, 2 = no
		var helperReason string
		addrEq := func(v ssa.Value) (eqWhen bool, ok bool) {
			if w, ok := strCmp(v); ok {
				return w, true
			}
			c, isC := v.(*ssa.Call)
			if !isC {
				return false, false
			}
			callee := c.Call.StaticCallee()
			if callee == nil || !inModule(callee) || len(callee.Blocks) == 0 || callee.Signature.Results().Len() != 1 {
				return false, false
			}
			if bt, ok := callee.Signature.Results().At(0).Type().Underlying().(*types.Basic); !ok || bt.Kind() != types.Bool {
				return false, false
			}
			// only helpers comparing two addresses are candidates
			naddr := 0
			for _, p := range callee.Params {
				if types.IsInterface(p.Type()) && strings.HasSuffix(p.Type().String(), "net.Addr") {
					naddr++
				}
			}
			if naddr < 1 {
				return false, false
			}
			if helperOK[callee] == 0 {
				helperOK[callee] = 1
				enumPaths(callee, nil, nil, nil, func(e pathExit) {
					ret, isRet := e.Last.(*ssa.Return)
					if !isRet {
						return
					}
					rv := e.State.Resolve(ret.Results[0])
					if b, isConst := constBool(rv); isConst && !b {
						return
					}
					if t, known := e.State.Truth(rv); known && !t {
						return
					}
					if w, ok := strCmp(rv); ok && w {
						return
					}
					eq := false
					for fv, t := range e.State.Facts {
						if w, ok := strCmp(fv); ok && w == t {
							eq = true
						}
					}
					if !eq {
						helperOK[callee] = 2
						helperReason = fmt.Sprintf("%s can report two addresses as equal on a path that never compared them as full strings (String() includes port and IPv6 zone; IP/port field comparisons drop the zone)", ssaFuncKey(callee))
					}
				})
			}
			// a candidate helper is an address comparison either way; whether it is exact is reported below
			return true, true
		}
		nst := 0
		allInstrs(fn, func(in ssa.Instruction) {
			stt, ok := in.(*ssa.Store)
			if !ok {
				return
			}
			if _, isFA := stt.Addr.(*ssa.FieldAddr); !isFA {
				return
			}
			nst++
			// must be on the "addresses equal" side of an address comparison
			okd := false
			for _, b := range fn.Blocks {
				if len(b.Instrs) == 0 {
					continue
				}
				ifi, ok := b.Instrs[len(b.Instrs)-1].(*ssa.If)
				if !ok {
					continue
				}
				cond, neg := stripNot(ifi.Cond)
				eqWhen, isCmp := addrEq(cond)
				if !isCmp {
					continue
				}
				if neg {
					eqWhen = !eqWhen
				}
				eqEdge := 1
				if eqWhen {
					eqEdge = 0
				}
				if edgeDominates(b, eqEdge, stt.Block()) {
					okd = true
				}
			}
			if !okd {
				bad = fmt.Sprintf("%s: the session is modified before its owner address was compared with the message's source", w.Pos(stt.Pos()))
			}
		})
		// success returns only on the equal-address edge
		enumPaths(fn, nil, nil, nil, func(e pathExit) {
			ret, ok := e.Last.(*ssa.Return)
			if !ok || len(ret.Results) != 2 || !isConstNil(e.State.Resolve(ret.Results[1])) {
				return
			}
			eq := false
			for v, t := range e.State.Facts {
				cond, neg := stripNot(v)
				if eqWhen, isCmp := addrEq(cond); isCmp {
					if neg {
						eqWhen = !eqWhen
					}
					if eqWhen == t {
						eq = true
					}
				}
			}
			if !eq {
				bad = "validateAndGetUser returns success on a path where the owner address was not found equal to the message's source"
			}
		})
		for _, st := range helperOK {
			if st == 2 {
				bad = helperReason
			}
		}
		r.Check(bad == "", "R13.2", key, w.Pos(fn.Pos()), fmt.Sprintf("%d state update(s) after the address comparison; success only for the owner's address", nst), bad)
	} else {
		r.Undecided("R13.2", "method:(*streams/dns.ServerDnsListener).validateAndGetUser|address-first", "-", "anchor unresolved")
	}
}

// c13IdentityGuard: the clearing store is dominated by a pointer (in)equality
// test between the session x and the live table's current occupant.
func c13IdentityGuard(w *World, fn *ssa.Function, st *ssa.Store, x ssa.Value, live *types.Var, isTable func(ssa.Value) *types.Var) bool {
	validate := w.Method("internal/streams/dns", "ServerDnsListener", "validateAndGetUser")
	isOccupant := func(v ssa.Value) bool {
		for _, root := range provenance(v, provOpts{}) {
			if u, ok := root.(*ssa.UnOp); ok {
				if ia, ok := u.X.(*ssa.IndexAddr); ok && isTable(ia.X) == live {
					return true
				}
			}
			if ex, ok := root.(*ssa.Extract); ok && ex.Index == 0 {
				if c, ok := ex.Tuple.(*ssa.Call); ok && sCallee(c) == validate {
					return true
				}
			}
		}
		return false
	}
	sameX := func(v ssa.Value) bool {
		if v == x {
			return true
		}
		for _, root := range provenance(v, provOpts{}) {
			for _, r2 := range provenance(x, provOpts{}) {
				if root == r2 {
					return true
				}
			}
		}
		return false
	}
	for _, b := range fn.Blocks {
		if len(b.Instrs) == 0 {
			continue
		}
		ifi, ok := b.Instrs[len(b.Instrs)-1].(*ssa.If)
		if !ok {
			continue
		}
		bo, ok := ifi.Cond.(*ssa.BinOp)
		if !ok || (bo.Op != token.EQL && bo.Op != token.NEQ) {
			continue
		}
		if _, isPtr := bo.X.Type().Underlying().(*types.Pointer); !isPtr {
			continue
		}
		if !((isOccupant(bo.X) && sameX(bo.Y)) || (isOccupant(bo.Y) && sameX(bo.X))) {
			continue
		}
		eqEdge := 0
		if bo.Op == token.NEQ {
			eqEdge = 1
		}
		if edgeDominates(b, eqEdge, st.Block()) {
			return true
		}
	}
	// the test may be made by the caller: fn clears the slot of its parameter, and every call of fn is on the
	// true edge of a pointer-identity test (direct, or a bool helper that answers true only under it)
	prm, isParam := x.(*ssa.Parameter)
	if !isParam {
		for _, root := range provenance(x, provOpts{}) {
			if p2, ok := root.(*ssa.Parameter); ok {
				prm, isParam = p2, true
			}
		}
	}
	if !isParam || prm.Parent() != fn {
		return false
	}
	pidx := -1
	for i, q := range fn.Params {
		if q == prm {
			pidx = i
		}
	}
	identityHelper := func(h *ssa.Function, argIdx int) bool {
		if h == nil || len(h.Blocks) == 0 || argIdx >= len(h.Params) || h.Signature.Results().Len() != 1 {
			return false
		}
		hp := h.Params[argIdx]
		isIdent := func(v ssa.Value) bool {
			bo, ok := v.(*ssa.BinOp)
			if !ok || bo.Op != token.EQL {
				return false
			}
			same := func(y ssa.Value) bool { return y == ssa.Value(hp) }
			return (isOccupant(bo.X) && same(bo.Y)) || (isOccupant(bo.Y) && same(bo.X))
		}
		okAll, n := true, 0
		enumPaths(h, nil, nil, nil, func(e pathExit) {
			ret, isRet := e.Last.(*ssa.Return)
			if !isRet {
				return
			}
			n++
			rv := e.State.Resolve(ret.Results[0])
			if b, isC := constBool(rv); isC && !b {
				return
			}
			if t, known := e.State.Truth(rv); known && !t {
				return
			}
			if isIdent(rv) {
				return
			}
			for fv, t := range e.State.Facts {
				if isIdent(fv) && t {
					return
				}
			}
			okAll = false
		})
		return okAll && n > 0
	}
	ncall, all := 0, true
	for _, caller := range sortedModuleFuncs(w, w.SSA()) {
		for _, c := range callsIn(caller) {
			if c.Common().StaticCallee() != fn || pidx < 0 || pidx >= len(c.Common().Args) {
				continue
			}
			ncall++
			arg := c.Common().Args[pidx]
			guarded := false
			for _, b := range caller.Blocks {
				if len(b.Instrs) == 0 {
					continue
				}
				ifi, ok := b.Instrs[len(b.Instrs)-1].(*ssa.If)
				if !ok {
					continue
				}
				ci, _ := c.(ssa.Instruction)
				if hc, ok := ifi.Cond.(*ssa.Call); ok && edgeDominates(b, 0, ci.Block()) {
					if h := hc.Call.StaticCallee(); h != nil && inModule(h) {
						for ai, a := range hc.Call.Args {
							if a == arg && identityHelper(h, ai) {
								guarded = true
							}
						}
					}
				}
			}
			if !guarded {
				all = false
			}
		}
	}
	return ncall > 0 && all
}

// ruleHandlersGuarded: in every request handler that looks a session up, each store to the session object,
// each call on its in/out queues and each closeConnection lies on the err == nil edge of
// validateAndGetUser(request id, source address). Registered as C13 R13.2 and C12 R12.8.
func ruleHandlersGuarded(w *World, r *Report, rule string) {
	fns := dnsPkgFuncs(w)
	validate := w.Method("internal/streams/dns", "ServerDnsListener", "validateAndGetUser")
	closeConn := w.Method("internal/streams/dns", "ServerDnsListener", "closeConnection")
	if validate == nil || closeConn == nil {
		r.Undecided(rule, "handlers", "-", "anchor unresolved: validateAndGetUser / closeConnection")
		return
	}
	nh := 0
	for _, fn := range fns {
		obj, _ := fn.Object().(*types.Func)
		if obj == nil || obj == validate || obj == closeConn {
			continue
		}
		var vcall *ssa.Call
		for _, c := range callsIn(fn) {
			if sCallee(c) == validate {
				vcall, _ = c.(*ssa.Call)
			}
		}
		if vcall == nil {
			continue
		}
		// re-validation of a session the caller already holds (validateAndGetUser(x.UserId, x.remoteAddress) of
		// one and the same object) is not a request handler: nothing in it comes from a message
		if len(vcall.Call.Args) == 3 {
			a1, a2 := asFieldAddr(vcall.Call.Args[1]), asFieldAddr(vcall.Call.Args[2])
			if a1 != nil && a2 != nil && a1.X == a2.X && fieldVarOf(a1) != nil && fieldVarOf(a1).Name() == "UserId" {
				continue
			}
		}
		key := "handler:" + ssaFuncKey(fn)
		var user, errv ssa.Value
		for _, ref := range *vcall.Referrers() {
			if ex, ok := ref.(*ssa.Extract); ok {
				if ex.Index == 0 {
					user = ex
				} else {
					errv = ex
				}
			}
		}
		// session-state touches
		rooted := func(v ssa.Value) bool {
			for d := 0; d < 6; d++ {
				switch x := v.(type) {
				case *ssa.FieldAddr:
					v = x.X
					continue
				case *ssa.UnOp:
					if x.Op == token.MUL {
						v = x.X
						continue
					}
				}
				break
			}
			if user == nil {
				return false
			}
			for _, root := range provenance(v, provOpts{}) {
				if root == user {
					return true
				}
			}
			return v == user
		}
		var touches []ssa.Instruction
		allInstrs(fn, func(in ssa.Instruction) {
			switch x := in.(type) {
			case *ssa.Store:
				if _, isFA := x.Addr.(*ssa.FieldAddr); isFA && rooted(x.Addr) {
					touches = append(touches, in)
				}
			case ssa.CallInstruction:
				cc := x.Common()
				f := sCallee(x)
				if f == closeConn {
					touches = append(touches, in)
					return
				}
				if len(cc.Args) > 0 && !cc.IsInvoke() {
					if fa, ok := cc.Args[0].(*ssa.FieldAddr); ok && rooted(fa) {
						// method on a field of the session: queues (in/out) are state; the serializer (value receiver, read-only encode) is not
						if n := recvNamed(f); n != nil && (n.Obj().Name() == "InQueue" || n.Obj().Name() == "OutQueue") {
							touches = append(touches, in)
						}
					}
				}
			}
		})
		// the onMessage dispatcher only reads user.Serializer: no touches expected
		if len(touches) == 0 && errv == nil {
			continue
		}
		nh++
		bad := ""
		isErr := func(v ssa.Value) bool { x, _, ok := nilTest(v); return ok && errv != nil && x == errv }
		for _, t := range touches {
			if !dominatedByCondNil(fn, t, isErr) {
				bad = fmt.Sprintf("%s: session state is touched on a path where validateAndGetUser's error was not checked nil (a spoofed message with a live identifier from a foreign address reads, acknowledges or alters that session)", w.Pos(t.Pos()))
			}
		}
		// arguments: the request's UserId and the handler's remote address parameter
		okArgs := false
		if len(vcall.Call.Args) == 3 {
			a1 := asFieldAddr(vcall.Call.Args[1])
			_, isParam := vcall.Call.Args[2].(*ssa.Parameter)
			okArgs = a1 != nil && fieldVarOf(a1) != nil && fieldVarOf(a1).Name() == "UserId" && isParam
			if !okArgs {
				// dispatcher form: userId decoded from the header, remoteAddr parameter
				okArgs = isParam
			}
		}
		if !okArgs {
			bad = fmt.Sprintf("%s: validateAndGetUser is not called with the request's user id and the datagram's source address", w.Pos(vcall.Pos()))
		}
		r.Check(bad == "", rule, key, w.Pos(vcall.Pos()), fmt.Sprintf("%d session-state touch(es), all on the err == nil edge of validateAndGetUser(request id, source address)", len(touches)), bad, "touches", len(touches))
	}
	if nh == 0 {
		r.Undecided(rule, "handlers", "-", "no handler calling validateAndGetUser found")
	}
}
