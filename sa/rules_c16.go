package main

// C16 — Client connection policy: direct first, ordered failover, reuse, reconnect.

import (
	"fmt"
	"go/ast"
	"go/types"
	"sort"

	"golang.org/x/tools/go/ssa"
)

func init() { register("C16", checkC16) }

// lockRegions: instructions of fn executed while the given mutex field is
// held (reachable from a Lock() on it without passing an Unlock()).
func lockRegion(fn *ssa.Function, isMutex func(v ssa.Value) bool) (region map[ssa.Instruction]bool, locks int) {
	region = map[ssa.Instruction]bool{}
	isCall := func(in ssa.Instruction, name string) bool {
		c, ok := in.(*ssa.Call)
		if !ok {
			return false
		}
		f := sCallee(c)
		if !isMethod(f, "sync", "Mutex", name) && !isMethod(f, "sync", "RWMutex", name) {
			return false
		}
		return len(c.Call.Args) > 0 && isMutex(c.Call.Args[0])
	}
	deferredUnlock := false
	allInstrs(fn, func(in ssa.Instruction) {
		if d, ok := in.(*ssa.Defer); ok {
			if f := sCallee(d); (isMethod(f, "sync", "Mutex", "Unlock") || isMethod(f, "sync", "RWMutex", "Unlock")) && len(d.Call.Args) > 0 && isMutex(d.Call.Args[0]) {
				deferredUnlock = true
			}
		}
	})
	_ = deferredUnlock
	allInstrs(fn, func(in ssa.Instruction) {
		if !isCall(in, "Lock") {
			return
		}
		locks++
		seen := map[*ssa.BasicBlock]bool{}
		var walk func(b *ssa.BasicBlock, i int)
		walk = func(b *ssa.BasicBlock, i int) {
			for ; i < len(b.Instrs); i++ {
				if isCall(b.Instrs[i], "Unlock") {
					return
				}
				region[b.Instrs[i]] = true
			}
			for _, s := range b.Succs {
				if !seen[s] {
					seen[s] = true
					walk(s, 0)
				}
			}
		}
		walk(in.Block(), instrIndex(in)+1)
	})
	// a critical section written as a function literal and handed to a helper that runs it with the mutex held:
	// `q.locked(func() { ... })` with `func (q *T) locked(f func()) { q.mu.Lock(); defer q.mu.Unlock(); f() }`
	if fn.Parent() != nil && closureRunsUnderLock(fn) {
		allInstrs(fn, func(in ssa.Instruction) { region[in] = true })
		if locks == 0 {
			locks = 1
		}
	}
	return
}

var closureLockMemo = map[*ssa.Function]bool{}

// closureRunsUnderLock: every use of the function literal g in its parent hands it to a module function which calls
// that parameter only while it holds a mutex (and does nothing else with it).
func closureRunsUnderLock(g *ssa.Function) bool {
	if v, ok := closureLockMemo[g]; ok {
		return v
	}
	closureLockMemo[g] = false
	p := g.Parent()
	uses, ok := 0, true
	allInstrs(p, func(in ssa.Instruction) {
		mc, isMc := in.(*ssa.MakeClosure)
		if !isMc || mc.Fn != ssa.Value(g) || mc.Referrers() == nil {
			return
		}
		for _, ref := range *mc.Referrers() {
			if _, isDbg := ref.(*ssa.DebugRef); isDbg {
				continue
			}
			c, isCall := ref.(*ssa.Call)
			if !isCall {
				ok = false
				continue
			}
			h := c.Call.StaticCallee()
			if h == nil || !inModule(h) || len(h.Blocks) == 0 {
				ok = false
				continue
			}
			idx := -1
			for i, a := range c.Call.Args {
				if a == ssa.Value(mc) {
					idx = i
				}
			}
			if idx < 0 || idx >= len(h.Params) {
				ok = false
				continue
			}
			prm := h.Params[idx]
			hregion, _ := lockRegion(h, func(v ssa.Value) bool { _, isFa := v.(*ssa.FieldAddr); return isFa })
			ncalls := 0
			if prm.Referrers() != nil {
				for _, pr := range *prm.Referrers() {
					if _, isDbg := pr.(*ssa.DebugRef); isDbg {
						continue
					}
					pc, isCall := pr.(*ssa.Call)
					if !isCall || pc.Call.Value != ssa.Value(prm) || !hregion[pc] {
						ok = false
						continue
					}
					ncalls++
				}
			}
			if ncalls == 0 {
				ok = false
			}
			uses++
		}
	})
	res := ok && uses > 0
	closureLockMemo[g] = res
	return res
}

func checkC16(w *World, r *Report) {
	r.Explanation = "Decides the control structure of the client's connection policy: (R16.1) in HandleConnection the upstream connect is reachable only after ConnectDirectly returned false; (R16.2) the upstream trial loop ranges over the configured list in order, moves on when Connect fails, and returns on the first success; (R16.3) the shared physical connection and session are written only while the upstream mutex is held (in Connect's and Shutdown's critical sections or in helpers called only from there) and a new connection is opened only under connection == nil || connection.Closed(); (R16.4) a timeout mechanism (deadline or timer) is armed before the blocking client handshake in every Upstream.Connect. Not decided: numeric time bounds, OS connect time-outs, reconnect after loss (depends on smux keep-alive timing)."
	r.NotDecided = []string{"'bounded time' as a number", "OS-level connect time-outs", "detection of a lost session (smux keep-alive, <= 30 s): first connections after a loss fail until then"}
	r.Trusted = []string{"sync.Mutex semantics", "smux marks a session closed after keep-alive timeout"}
	r.Rule("R16.1", "direct forward first", 1)
	r.Rule("R16.2", "ordered failover: range in order, continue on error, return on first success", 1)
	r.Rule("R16.3", "shared connection/session written only under the mutex; reuse guard", 4)
	r.Rule("R16.4", "a timeout mechanism precedes the client handshake", 5)
	r.Rule("R16.5", "upstream attempts do not share mutable TLS configuration", 3)
	r.Rule("R16.6", "a closed carrier is seen as closed: the wrappers' Close sets the flag on every path (the reuse test consults Closed())", 2)
	ruleSafeCloseSetsFlag(w, r, "R16.6")
	r.Rule("R16.13", "a failed stream open reaches the listener as a nil interface, not as a nil pointer inside one (the listener's nil guards decide whether the client survives the failure)", 2)
	ruleNoTypedNilResult(w, r, "R16.13", pkgFuncs(w, "/internal/client/upstream", "/internal/client/listener"), ": HandleConnection's TryClose(up) then calls a method on the nil pointer — one failed stream open (a dead but unreaped session, a refused channel) crashes the client with every logical connection it carries, instead of the next connection re-establishing the session")
	r.Rule("R16.12", "every Lock of the upstream mutex is released on every path out of Connect and Shutdown (the next local connection must be able to re-establish the session)", 2)
	ruleLockPairing(w, r, "R16.12", pkgFuncs(w, "/internal/client/upstream"))
	r.Rule("R16.11", "Connect never rewrites the upstream's configured address: the next attempt on the same upstream (after a failure, after session loss) dials what was configured", 5)
	ruleSchemeImmutable(w, r, "R16.11")
	r.Rule("R16.10", "whenever no usable session exists, Connect runs the round over the upstreams (no hold-off turns a connection away)", 1)
	r.Rule("R16.9", "the direct forward address is dialled for every stream network it can name", 1)
	c16DirectDialCoversStreamNetworks(w, r)
	r.Rule("R16.8", "settling on an upstream after a failover is reported as success (no stale error of an earlier upstream)", 1)
	r.Rule("R16.7", "an upstream counts as meeting the security requirement only over a TLS-built carrier or a TLS scheme (else the first, clear-text upstream is settled on and no later one is tried)", 5)
	if sites7, _ := findConnectSites(w); len(sites7) > 0 {
		c04CorrelationClient(w, r, "R16.7", sites7)
	}

	// ---- R16.1
	hc := w.Method("internal/client/listener", "AbstractListener", "HandleConnection")
	cd := w.Method("internal/client/listener", "AbstractListener", "ConnectDirectly")
	uc := w.Method("internal/client/upstream", "Upstreams", "Connect")
	if fn := w.SSAFunc(hc); fn == nil || cd == nil || uc == nil {
		r.Undecided("R16.1", "method:(*client/listener.AbstractListener).HandleConnection", "-", "anchor unresolved")
	} else {
		var direct ssa.Instruction
		for _, c := range callsIn(fn) {
			if sCallee(c) == cd {
				direct = c
			}
		}
		// where the upstreams are connected: in HandleConnection itself, or in helpers that are only called from it
		var ups []ssa.Instruction // call sites inside HandleConnection that lead to Upstreams.Connect
		bad := ""
		var visit func(g *ssa.Function, depth int)
		seenG := map[*ssa.Function]bool{}
		visit = func(g *ssa.Function, depth int) {
			if seenG[g] || depth > 3 {
				return
			}
			seenG[g] = true
			if g == fn {
				return
			}
			// every static caller of the helper must itself be confined
			ncall := 0
			for _, caller := range sortedModuleFuncs(w, w.SSA()) {
				for _, c := range callsIn(caller) {
					if c.Common().StaticCallee() != g {
						continue
					}
					ncall++
					if caller == fn {
						ups = append(ups, c)
					} else {
						visit(caller, depth+1)
						if !seenG[caller] || caller.Pkg == nil || caller.Pkg.Pkg.Path() != modPath+"/internal/client/listener" {
							bad = fmt.Sprintf("%s: %s, which connects through the upstreams, is also called from %s", w.Pos(c.Pos()), ssaFuncKey(g), ssaFuncKey(caller))
						}
					}
				}
			}
			if ncall == 0 && bad == "" {
				bad = ssaFuncKey(g) + " connects through the upstreams but has no static caller (HandleConnection does not reach it)"
			}
		}
		for _, g := range sortedModuleFuncs(w, w.SSA()) {
			if g.Pkg == nil || g.Pkg.Pkg.Path() != modPath+"/internal/client/listener" {
				continue
			}
			for _, c := range callsIn(g) {
				if sCallee(c) == uc {
					if g == fn {
						ups = append(ups, c)
					} else {
						visit(g, 0)
					}
				}
			}
		}
		key := "method:(*client/listener.AbstractListener).HandleConnection|direct-first"
		switch {
		case len(ups) == 0:
			r.Violate("R16.1", key, w.Pos(hc.Pos()), "HandleConnection never connects through the upstreams"+mapStr(bad != "", " ("+bad+")"))
		case direct == nil:
			r.Violate("R16.1", key, w.Pos(hc.Pos()), "HandleConnection no longer tries the direct forward address")
		default:
			okd := bad == ""
			for _, up := range ups {
				if !dominatedByCond(fn, up, func(v ssa.Value) bool { return v == direct.(ssa.Value) }, false) {
					okd = false
				}
			}
			r.Check(okd, "R16.1", key, w.Pos(ups[0].Pos()), "Upstreams.Connect (directly or through helpers only HandleConnection calls) is reachable only on the false edge of ConnectDirectly", "the upstream connect is not confined to the path where the direct forward attempt returned false"+mapStr(bad != "", ": "+bad))
		}
	}

	// ---- R16.2
	openM := w.Method("internal/client/upstream", "Upstreams", "open")
	c16Failover(w, r, openM)

	// ---- R16.3
	c16Shared(w, r, uc, openM)
	c16NoRoundIsSkipped(w, r, uc, openM)

	// ---- R16.4
	c16Timeout(w, r)

	// ---- R16.5: one upstream attempt must not leave state behind that the next attempt reads: the TLS
	// configuration each attempt mutates (ServerName, InsecureSkipVerify) is a fresh object per call
	c05FreshConfig(w, r, "R16.5")
}

func c16Failover(w *World, r *Report, openM *types.Func) {
	key := "method:(*client/upstream.Upstreams).open|failover"
	fd := w.Decl(openM)
	fn := w.SSAFunc(openM)
	if fd == nil || fn == nil {
		r.Undecided("R16.2", key, "-", "anchor unresolved")
		return
	}
	info := w.InfoOf(fd)
	dataField := fieldOf(w.Named("internal/client/upstream", "Upstreams"), "Data")
	bad := ""
	// no reordering helpers
	inspectCalls(info, fd.Body, func(call *ast.CallExpr, callee *types.Func) {
		if callee != nil && callee.Pkg() != nil {
			switch callee.Pkg().Path() {
			case "sort", "math/rand", "slices":
				bad = fmt.Sprintf("%s: %s.%s reorders or randomises the upstream list", w.Pos(call.Pos()), callee.Pkg().Name(), callee.Name())
			}
		}
	})
	// SSA: behaviour after each Connect
	var connectCall *ssa.Call
	for _, c := range callsIn(fn) {
		if cc := c.Common(); cc.IsInvoke() && cc.Method.Name() == "Connect" {
			connectCall, _ = c.(*ssa.Call)
		}
	}
	// the trial loop may live in a helper of open (`a, found := ul.firstReachable(manager)`)
	openFn := fn
	if connectCall == nil {
		for _, c := range callsIn(openFn) {
			sc := c.Common().StaticCallee()
			if sc == nil || !inModule(sc) || sc.Pkg != openFn.Pkg || len(sc.Blocks) == 0 {
				continue
			}
			for _, c2 := range callsIn(sc) {
				if cc := c2.Common(); cc.IsInvoke() && cc.Method.Name() == "Connect" && connectCall == nil {
					connectCall, _ = c2.(*ssa.Call)
					fn = sc
				}
			}
		}
		if connectCall != nil {
			if fd2 := w.Decl(fnObj(fn)); fd2 != nil {
				inspectCalls(w.InfoOf(fd2), fd2.Body, func(call *ast.CallExpr, callee *types.Func) {
					if callee != nil && callee.Pkg() != nil {
						switch callee.Pkg().Path() {
						case "sort", "math/rand", "slices":
							bad = fmt.Sprintf("%s: %s.%s reorders or randomises the upstream list", w.Pos(call.Pos()), callee.Pkg().Name(), callee.Name())
						}
					}
				})
			}
		}
	}
	if connectCall == nil {
		bad = "open never calls Upstream.Connect"
	}
	if connectCall != nil && bad == "" {
		// the upstream tried is Data[i] with i ascending from 0 in steps of 1
		okOrder := false
		why := "the upstream handed to Connect is not an element of the configured list indexed by a loop counter"
		for _, root := range provenance(connectCall.Call.Value, provOpts{}) {
			u, ok := root.(*ssa.UnOp)
			if !ok {
				continue
			}
			ia, ok := u.X.(*ssa.IndexAddr)
			if !ok || !isLoadOfField(ia.X, dataField) {
				continue
			}
			first, step, okIdx := inductionOf(ia.Index)
			if !okIdx {
				why = "the index into the upstream list is not a simple loop counter"
				continue
			}
			if first == 0 && step == 1 {
				okOrder = true
			} else {
				why = fmt.Sprintf("upstreams are tried starting at index %d in steps of %d, not in the order listed", first, step)
			}
		}
		if !okOrder {
			bad = why
		}
	}
	if connectCall != nil && bad == "" {
		enumPaths(fn, connectCall, nil, func(in ssa.Instruction) bool { return in == ssa.Instruction(connectCall) }, func(e pathExit) {
			isNil, known := e.State.NilKnown(connectCall)
			if e.Stop != nil {
				// back at Connect: only allowed after a failure
				if known && isNil {
					bad = "after a successful Connect the loop tries further upstreams"
				}
				return
			}
			ret, isRet := e.Last.(*ssa.Return)
			if !isRet {
				return
			}
			if known && !isNil {
				// failed: may only return after the list is exhausted — i.e. not directly from inside the loop body.
				// In SSA the loop-exit return is reached through the range header; a return in the failure branch
				// of the body is reached without passing the header again.
				passedHeader := false
				for _, b := range e.State.Blocks[1:] {
					if b == connectCall.Block() || b.Dominates(connectCall.Block()) && b != e.State.Blocks[0] {
						passedHeader = true
					}
				}
				if !passedHeader {
					bad = fmt.Sprintf("%s: a failed Connect ends the trial instead of moving on to the next upstream", w.Pos(ret.Pos()))
				}
			}
		})
	}
	r.Check(bad == "", "R16.2", key, w.Pos(openM.Pos()), "Data[i] for i = 0,1,2,...; failure continues, success returns", bad)

	// R16.8: settling on an upstream is reported as success. On every path on which the last Connect returned nil,
	// the error open returns is nil, that Connect's own (nil) result, or something produced after that Connect
	// (the session set-up's error) — never a value left over from an earlier upstream's failure.
	if connectCall == nil {
		return
	}
	key8 := "method:(*client/upstream.Upstreams).open|success-is-reported"
	if fn != openFn {
		res := fn.Signature.Results()
		hasErr := false
		for i := 0; i < res.Len(); i++ {
			if isErrorType(res.At(i).Type()) {
				hasErr = true
			}
		}
		if !hasErr {
			r.Hold("R16.8", key8, w.Pos(openM.Pos()), "the trial loop lives in "+ssaFuncKey(fn)+", which returns no error: nothing of an earlier upstream's failure can reach open's result")
			return
		}
	}
	bad8 := ""
	nsucc := 0
	okp := enumPaths(fn, nil, func(in ssa.Instruction) bool { _, isCall := in.(*ssa.Call); return isCall }, nil, func(e pathExit) {
		ret, isRet := e.Last.(*ssa.Return)
		if !isRet || len(ret.Results) == 0 || bad8 != "" {
			return
		}
		last := -1
		for i, ev := range e.State.Events {
			if ev == ssa.Instruction(connectCall) {
				last = i
			}
		}
		if last < 0 {
			return
		}
		if isNil, known := e.State.NilKnown(connectCall); !known || !isNil {
			return
		}
		nsucc++
		rv := e.State.Resolve(ret.Results[len(ret.Results)-1])
		if isConstNil(rv) || rv == ssa.Value(connectCall) {
			return
		}
		var def ssa.Instruction
		switch x := rv.(type) {
		case *ssa.Call:
			def = x
		case *ssa.Extract:
			if c, ok := x.Tuple.(*ssa.Call); ok {
				def = c
			}
		}
		for _, ev := range e.State.Events[last+1:] {
			if def != nil && ev == def {
				return
			}
		}
		bad8 = fmt.Sprintf("%s: open can return an error that was produced before the Connect that succeeded (a failure of an earlier upstream kept in %s): the client settles on the upstream, keeps the session, and still fails the local connection that triggered the failover", w.Pos(ret.Pos()), rv.Name())
	})
	if !okp {
		r.Undecided("R16.8", key8, w.Pos(openM.Pos()), "path budget exceeded")
		return
	}
	r.Check(bad8 == "" && nsucc > 0, "R16.8", key8, w.Pos(openM.Pos()), fmt.Sprintf("%d path(s) end after a successful Connect; each returns nil or the error of a later step", nsucc), bad8+mapStr(nsucc == 0, "no path on which Connect succeeds"))
}

func c16Shared(w *World, r *Report, uc, openM *types.Func) {
	ruleSharedSession(w, r, "R16.3", uc, openM)
}

func ruleSharedSession(w *World, r *Report, rule string, uc, openM *types.Func) {
	ups := w.Named("internal/client/upstream", "Upstreams")
	if ups == nil {
		r.Undecided(rule, "type:client/upstream.Upstreams", "-", "anchor unresolved")
		return
	}
	var mutexF *types.Var
	st := ups.Underlying().(*types.Struct)
	for i := 0; i < st.NumFields(); i++ {
		if n, ok := st.Field(i).Type().(*types.Named); ok && n.Obj().Pkg() != nil && n.Obj().Pkg().Path() == "sync" && (n.Obj().Name() == "Mutex" || n.Obj().Name() == "RWMutex") {
			mutexF = st.Field(i)
		}
	}
	_, connF, sessF := upstreamsSharedFields(w)
	if mutexF == nil || connF == nil || sessF == nil {
		r.Undecided(rule, "type:client/upstream.Upstreams", w.Pos(ups.Obj().Pos()), "mutex / connection / session fields unresolved")
		return
	}
	isMutex := func(v ssa.Value) bool {
		fa, ok := v.(*ssa.FieldAddr)
		return ok && fieldVarOf(fa) == mutexF
	}
	prog := w.SSA()
	mods := allModuleFuncs(w, prog)
	regionOf := map[*ssa.Function]map[ssa.Instruction]bool{}
	getRegion := func(f *ssa.Function) map[ssa.Instruction]bool {
		if rg, ok := regionOf[f]; ok {
			return rg
		}
		rg, _ := lockRegion(f, isMutex)
		regionOf[f] = rg
		return rg
	}
	var heldAt func(in ssa.Instruction, depth int) bool
	heldAt = func(in ssa.Instruction, depth int) bool {
		f := in.Parent()
		if getRegion(f)[in] {
			return true
		}
		if depth > 3 {
			return false
		}
		obj, _ := f.Object().(*types.Func)
		if obj == nil {
			return false
		}
		n := 0
		for caller := range mods {
			for _, c := range callsIn(caller) {
				if sCallee(c) == obj && !c.Common().IsInvoke() {
					n++
					if _, isGo := c.(*ssa.Go); isGo {
						return false
					}
					if !heldAt(c, depth+1) {
						return false
					}
				}
			}
		}
		return n > 0
	}
	var fns []*ssa.Function
	for f := range mods {
		fns = append(fns, f)
	}
	sort.Slice(fns, func(i, j int) bool { return fns[i].Pos() < fns[j].Pos() })
	for _, f := range fns {
		allInstrs(f, func(in ssa.Instruction) {
			st, ok := in.(*ssa.Store)
			if !ok {
				return
			}
			fa, ok := st.Addr.(*ssa.FieldAddr)
			if !ok {
				return
			}
			fv := fieldVarOf(fa)
			if fv != connF && fv != sessF {
				return
			}
			key := fmt.Sprintf("field:client/upstream.Upstreams.%s|store@%s", fv.Name(), ssaFuncKey(f))
			r.Check(heldAt(st, 0), rule, key, w.Pos(st.Pos()), "written while the upstream mutex is held (directly or in a helper called only under it)",
				"the shared "+fv.Name()+" is written without the upstream mutex: two local connections can open two physical sessions or use a half-replaced one")
		})
	}
	// reuse guard (in Connect or in a helper it calls)
	connFn := w.SSAFunc(uc)
	key := "method:(*client/upstream.Upstreams).Connect|reuse-guard"
	if connFn == nil {
		r.Undecided(rule, key, "-", "anchor unresolved")
		return
	}
	fn := connFn
	var openCall ssa.Instruction
	for _, g := range staticCone(connFn, 2) {
		for _, c := range callsIn(g) {
			if sCallee(c) == openM && openCall == nil {
				openCall, fn = c, g
			}
		}
	}
	if openCall == nil {
		r.Violate(rule, key, w.Pos(uc.Pos()), "Connect never opens a physical connection")
		return
	}
	// open is reached only when connection == nil or connection.Closed(); where open is called from a helper that
	// does not make the test itself, every call of that helper must be guarded in its caller
	okGuard := true
	staleGuard := false
	nopen := 0
	var guardedAt func(fn *ssa.Function, stop ssa.Instruction, depth int)
	guardedAt = func(fn *ssa.Function, stop ssa.Instruction, depth int) {
		region := getRegion(fn)
		localOk := true
		enumPaths(fn, nil, nil, func(in ssa.Instruction) bool { return in == stop }, func(e pathExit) {
			if e.Stop == nil {
				return
			}
			nopen++
			just := false
			// a predicate helper called inside the critical section: `if ul.disconnected() { ... }`
			for v, t := range e.State.Facts {
				hc, ok := v.(*ssa.Call)
				if !ok || !region[hc] {
					continue
				}
				h := hc.Call.StaticCallee()
				if h == nil || !inModule(h) {
					continue
				}
				if predicateHelperImplies(h, t, func(facts map[ssa.Value]bool) bool {
					for v2, t2 := range facts {
						if x, eq, ok := nilTest(v2); ok && t2 == eq && isLoadOfField(x, connF) {
							return true
						}
						if c, ok := v2.(*ssa.Call); ok && t2 && c.Call.IsInvoke() && c.Call.Method.Name() == "Closed" {
							for _, root := range provenance(c.Call.Value, provOpts{}) {
								if isLoadOfField(root, connF) {
									return true
								}
							}
						}
					}
					return false
				}) {
					just = true
				}
			}
			for v, t := range e.State.Facts {
				// the test must look at the shared field while the mutex is held: a test made before Lock() is
				// stale by the time the lock is obtained (every waiting caller has already decided to dial)
				if x, eq, ok := nilTest(v); ok && t == eq && isLoadOfField(x, connF) {
					if xi, ok := x.(ssa.Instruction); ok && region[xi] {
						just = true
					} else {
						staleGuard = true
					}
				}
				if c, ok := v.(*ssa.Call); ok && t && c.Call.IsInvoke() && c.Call.Method.Name() == "Closed" {
					for _, root := range provenance(c.Call.Value, provOpts{}) {
						if isLoadOfField(root, connF) {
							if region[c] {
								just = true
							} else {
								staleGuard = true
							}
						}
					}
				}
			}
			if !just {
				localOk = false
			}
		})
		if localOk {
			return
		}
		obj, _ := fn.Object().(*types.Func)
		if fn == connFn || obj == nil || depth >= 2 {
			okGuard = false
			return
		}
		n := 0
		for caller := range mods {
			for _, c := range callsIn(caller) {
				if sCallee(c) == obj && !c.Common().IsInvoke() {
					n++
					guardedAt(caller, c, depth+1)
				}
			}
		}
		if n == 0 {
			okGuard = false
		}
	}
	guardedAt(fn, openCall, 0)
	inRegion := heldAt(openCall, 0)
	if !okGuard && staleGuard {
		r.Violate(rule, key, w.Pos(openCall.Pos()), "the reuse test (connection == nil || connection.Closed()) is evaluated before the mutex is taken and not repeated under it: callers that arrive while no session is up all decide to dial, each replaces the shared connection/session in turn — several physical sessions instead of one, and streams opened on a session that was just replaced")
		return
	}
	r.Check(okGuard && nopen > 0 && inRegion, rule, key, w.Pos(openCall.Pos()), "a physical connection is opened only under connection == nil || connection.Closed(), inside the critical section",
		"a new physical connection can be opened although a live one exists (or outside the mutex): logical connections no longer share one session")
}

func c16Timeout(w *World, r *Report) {
	sites, problems := findConnectSites(w)
	for _, p := range problems {
		r.Undecided("R16.4", "anchor|"+p, "-", p)
	}
	isTimeout := func(in ssa.Instruction) bool {
		c, ok := in.(ssa.CallInstruction)
		if !ok {
			return false
		}
		f := sCallee(c)
		if f == nil {
			return false
		}
		switch f.Name() {
		case "SetDeadline", "SetReadDeadline":
			return true
		}
		return isPkgFunc(f, "time", "AfterFunc") || isPkgFunc(f, "context", "WithTimeout") || isPkgFunc(f, "context", "WithDeadline") || isPkgFunc(f, "time", "NewTimer")
	}
	// inside NewClientConnection: is the handshake call dominated by a timeout mechanism?
	ncc := w.SSAFunc(w.Func("internal/socketace", "NewClientConnection"))
	inner := false
	if ncc != nil {
		hs := w.Method("internal/socketace", "ClientConnection", "handshake")
		var hsCall ssa.Instruction
		var tos []ssa.Instruction
		for _, c := range callsIn(ncc) {
			if sCallee(c) == hs {
				hsCall = c
			}
			if isTimeout(c) {
				tos = append(tos, c)
			}
		}
		for _, t := range tos {
			if hsCall != nil && instrDominates(t, hsCall) {
				inner = true
			}
		}
	}
	for _, cs := range sites {
		key := "type:" + qualName(cs.Type) + "|handshake-timeout"
		pos := w.Pos(cs.Call.Pos())
		if inner {
			r.Hold("R16.4", key, pos, "NewClientConnection arms a deadline/timer before its first blocking read")
			continue
		}
		covered := false
		n := 0
		for _, fr := range cs.Frames {
			stopAt, _ := fr.Call.(ssa.Instruction)
			cov, nf := true, 0
			enumPaths(fr.Fn, nil, isTimeout, func(in ssa.Instruction) bool { return in == stopAt }, func(e pathExit) {
				if e.Stop == nil {
					return
				}
				nf++
				if len(e.State.Events) == 0 {
					cov = false
				}
			})
			n += nf
			if cov && nf > 0 {
				covered = true // armed in this frame on every path before the handshake (helper) is entered
			}
		}
		r.Check(covered && n > 0, "R16.4", key, pos, "a deadline or timer is armed on every path before the handshake",
			"no deadline or timer precedes the blocking client handshake: a server that accepts and never answers blocks Connect forever while the upstream mutex is held, so no later upstream is tried and every later local connection blocks too")
	}
}

// inductionOf: v is a loop counter (phi of a constant and itself+step) or that
// counter plus a constant; returns the first value v takes and the step.
func inductionOf(v ssa.Value) (first, step int64, ok bool) {
	add := int64(0)
	if b, isB := v.(*ssa.BinOp); isB && b.Op.String() == "+" {
		if c, okc := constIntVal(b.Y); okc {
			add = c
			v = b.X
		}
	}
	ph, isPhi := v.(*ssa.Phi)
	if !isPhi || len(ph.Edges) != 2 {
		return 0, 0, false
	}
	var init int64
	haveInit, haveStep := false, false
	for _, e := range ph.Edges {
		if c, okc := constIntVal(e); okc {
			init, haveInit = c, true
			continue
		}
		if b, isB := e.(*ssa.BinOp); isB && b.X == ssa.Value(ph) {
			if c, okc := constIntVal(b.Y); okc {
				switch b.Op.String() {
				case "+":
					step, haveStep = c, true
				case "-":
					step, haveStep = -c, true
				}
			}
		}
	}
	if !haveInit || !haveStep {
		return 0, 0, false
	}
	return init + add, step, true
}
