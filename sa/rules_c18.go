package main

// C18 — Address schemes select the documented transport, or are rejected.

import (
	"go/constant"
	"fmt"
	"go/ast"
	"go/token"
	"go/types"
	"sort"
	"strings"

	"golang.org/x/tools/go/ssa"
)

func init() { register("C18", checkC18) }

type schemeSwitch struct {
	Fn      *types.Func
	Decl    *ast.FuncDecl
	Stmt    *ast.SwitchStmt
	Cases   map[string]string // scheme -> constructed type name
	Default *ast.CaseClause
	// table-driven dispatch (map[string]constructor indexed by the scheme): the statements executed when the
	// scheme is not in the table; NoDefault when the lookup has no miss branch at all
	Table       bool
	DefaultBody []ast.Stmt
	NoDefault   bool
	Pos         token.Pos
	Derived string // non-empty: the tag is not the scheme itself but an expression computed from it
}

// findSchemeSwitches: switch statements whose tag selects the Scheme field of
// a url.URL (through ProtoAddress).
func findSchemeSwitches(w *World) []schemeSwitch {
	var out []schemeSwitch
	w.AllFuncDecls(func(p *packagesPkg, fd *ast.FuncDecl) {
		info := p.TypesInfo
		obj, _ := info.Defs[fd.Name].(*types.Func)
		ast.Inspect(fd.Body, func(x ast.Node) bool {
			sw, ok := x.(*ast.SwitchStmt)
			if !ok || sw.Tag == nil {
				return true
			}
			fv := fieldOfSel(info, sw.Tag)
			isScheme := fv != nil && fv.Name() == "Scheme" && fv.Pkg() != nil && fv.Pkg().Path() == "net/url"
			if !isScheme {
				// local copied from a Scheme field: `scheme := u.Address.Scheme; switch scheme`
				if id, ok := unparen(sw.Tag).(*ast.Ident); ok {
					ast.Inspect(fd.Body, func(y ast.Node) bool {
						if as, ok := y.(*ast.AssignStmt); ok && len(as.Lhs) == 1 && len(as.Rhs) == 1 {
							if lid, ok := as.Lhs[0].(*ast.Ident); ok && (info.Defs[lid] == info.Uses[id] || info.Uses[lid] == info.Uses[id]) {
								if f2 := fieldOfSel(info, as.Rhs[0]); f2 != nil && f2.Name() == "Scheme" {
									isScheme = true
								}
							}
						}
						return true
					})
				}
			}
			if !isScheme {
				// a string parameter that every caller fills with a URL scheme
				if id, ok := unparen(sw.Tag).(*ast.Ident); ok && obj != nil {
					sig := obj.Type().(*types.Signature)
					pidx := -1
					for i := 0; i < sig.Params().Len(); i++ {
						if sig.Params().At(i) == info.Uses[id] {
							pidx = i
						}
					}
					if pidx >= 0 {
						ncall, allScheme := 0, true
						w.AllFuncDecls(func(p2 *packagesPkg, fd2 *ast.FuncDecl) {
							inspectCalls(p2.TypesInfo, fd2, func(call *ast.CallExpr, callee *types.Func) {
								if callee != obj || pidx >= len(call.Args) {
									return
								}
								ncall++
								f2 := fieldOfSel(p2.TypesInfo, call.Args[pidx])
								if f2 == nil || f2.Name() != "Scheme" {
									allScheme = false
								}
							})
						})
						if ncall > 0 && allScheme {
							isScheme = true
						}
					}
				}
			}
			derived := ""
			if !isScheme {
				// a rewritten scheme: switch f(x.Scheme, ...)
				if call, ok := unparen(sw.Tag).(*ast.CallExpr); ok {
					for _, a := range call.Args {
						if f2 := fieldOfSel(info, a); f2 != nil && f2.Name() == "Scheme" && f2.Pkg() != nil && f2.Pkg().Path() == "net/url" {
							isScheme = true
							derived = exprStr(sw.Tag)
						}
					}
				}
			}
			if !isScheme {
				return true
			}
			ss := schemeSwitch{Fn: obj, Decl: fd, Stmt: sw, Cases: map[string]string{}, Pos: sw.Pos(), Derived: derived}
			allReturn := true
			for _, st := range sw.Body.List {
				cc := st.(*ast.CaseClause)
				if cc.List == nil {
					ss.Default = cc
					continue
				}
				if n := len(cc.Body); n == 0 {
					allReturn = false
				} else if _, isRet := cc.Body[n-1].(*ast.ReturnStmt); !isRet {
					allReturn = false
				}
				typ := constructedType(info, cc)
				for _, e := range cc.List {
					if s, ok := constStr(info, e); ok {
						ss.Cases[s] = typ
					}
				}
			}
			if ss.Default == nil && allReturn {
				// every case returns: what follows the switch in its block is what an unknown scheme gets
				ast.Inspect(fd.Body, func(y ast.Node) bool {
					blk, ok := y.(*ast.BlockStmt)
					if !ok {
						return true
					}
					for i, bst := range blk.List {
						if bst == ast.Stmt(sw) && i+1 < len(blk.List) {
							ss.Default = &ast.CaseClause{Body: blk.List[i+1:]}
						}
					}
					return true
				})
			}
			out = append(out, ss)
			return true
		})
	})
	out = append(out, findSchemeTables(w)...)
	sort.Slice(out, func(i, j int) bool { return out[i].Pos < out[j].Pos })
	return out
}

// isSchemeExpr: e selects url.URL.Scheme, or is a local copied from such a selector in fd.
func isSchemeExpr(info *types.Info, fd *ast.FuncDecl, e ast.Expr) bool {
	if fv := fieldOfSel(info, e); fv != nil && fv.Name() == "Scheme" && fv.Pkg() != nil && fv.Pkg().Path() == "net/url" {
		return true
	}
	id, ok := unparen(e).(*ast.Ident)
	if !ok {
		return false
	}
	found := false
	ast.Inspect(fd.Body, func(y ast.Node) bool {
		if as, ok := y.(*ast.AssignStmt); ok && len(as.Lhs) == 1 && len(as.Rhs) == 1 {
			if lid, ok := as.Lhs[0].(*ast.Ident); ok && (info.Defs[lid] == info.Uses[id] || info.Uses[lid] == info.Uses[id]) {
				if f2 := fieldOfSel(info, as.Rhs[0]); f2 != nil && f2.Name() == "Scheme" {
					found = true
				}
			}
		}
		return true
	})
	return found
}

// findSchemeTables: the table-driven form of a dispatcher — a package-level map[string]constructor literal
// indexed by a URL scheme. The map's keys are the cases; the branch taken when the comma-ok lookup misses is
// the default.
func findSchemeTables(w *World) []schemeSwitch {
	// package-level map literals with constant string keys
	type tbl struct {
		info *types.Info
		lit  *ast.CompositeLit
	}
	tables := map[types.Object]tbl{}
	for _, p := range w.Pkgs {
		for _, f := range p.Syntax {
			for _, d := range f.Decls {
				gd, ok := d.(*ast.GenDecl)
				if !ok || gd.Tok != token.VAR {
					continue
				}
				for _, sp := range gd.Specs {
					vs := sp.(*ast.ValueSpec)
					for i, name := range vs.Names {
						if i >= len(vs.Values) {
							continue
						}
						lit, ok := unparen(vs.Values[i]).(*ast.CompositeLit)
						if !ok {
							continue
						}
						if mt, ok := p.TypesInfo.TypeOf(lit).Underlying().(*types.Map); !ok || !types.Identical(mt.Key().Underlying(), types.Typ[types.String]) {
							continue
						}
						tables[p.TypesInfo.Defs[name]] = tbl{p.TypesInfo, lit}
					}
				}
			}
		}
	}
	if len(tables) == 0 {
		return nil
	}
	// the type a constructor value builds
	ctorType := func(info *types.Info, e ast.Expr) string {
		switch x := unparen(e).(type) {
		case *ast.FuncLit:
			return constructedType(info, &ast.CaseClause{Body: x.Body.List})
		case *ast.Ident, *ast.SelectorExpr:
			var obj types.Object
			if id, ok := x.(*ast.Ident); ok {
				obj = info.Uses[id]
			} else {
				obj = info.Uses[x.(*ast.SelectorExpr).Sel]
			}
			if fobj, ok := obj.(*types.Func); ok {
				if fd := w.Decl(fobj); fd != nil && fd.Body != nil {
					return constructedType(w.InfoOf(fd), &ast.CaseClause{Body: fd.Body.List})
				}
			}
		case *ast.CompositeLit, *ast.UnaryExpr:
			return constructedType(info, &ast.CaseClause{Body: []ast.Stmt{&ast.ExprStmt{X: x}}})
		}
		return ""
	}
	var out []schemeSwitch
	w.AllFuncDecls(func(p *packagesPkg, fd *ast.FuncDecl) {
		info := p.TypesInfo
		obj, _ := info.Defs[fd.Name].(*types.Func)
		var visitBlock func(list []ast.Stmt)
		lookup := func(e ast.Expr) (tbl, *ast.IndexExpr, bool) {
			ix, ok := unparen(e).(*ast.IndexExpr)
			if !ok {
				return tbl{}, nil, false
			}
			id, ok := unparen(ix.X).(*ast.Ident)
			if !ok {
				return tbl{}, nil, false
			}
			t, ok := tables[info.Uses[id]]
			if !ok || !isSchemeExpr(info, fd, ix.Index) {
				return tbl{}, nil, false
			}
			return t, ix, true
		}
		mk := func(t tbl, ix *ast.IndexExpr) schemeSwitch {
			ss := schemeSwitch{Fn: obj, Decl: fd, Cases: map[string]string{}, Pos: ix.Pos(), Table: true}
			for _, el := range t.lit.Elts {
				kv, ok := el.(*ast.KeyValueExpr)
				if !ok {
					continue
				}
				if k, ok := constStr(t.info, kv.Key); ok {
					ss.Cases[k] = ctorType(t.info, kv.Value)
				}
			}
			return ss
		}
		seen := map[*ast.IndexExpr]bool{}
		visitBlock = func(list []ast.Stmt) {
			for i, st := range list {
				var okIdent *ast.Ident
				var t tbl
				var ix *ast.IndexExpr
				var init ast.Stmt
				follow := list[i+1:]
				switch x := st.(type) {
				case *ast.AssignStmt:
					init = x
				case *ast.IfStmt:
					init = x.Init
					follow = append([]ast.Stmt{&ast.IfStmt{If: x.If, Cond: x.Cond, Body: x.Body, Else: x.Else}}, follow...)
				}
				if as, ok := init.(*ast.AssignStmt); ok && len(as.Rhs) == 1 && len(as.Lhs) == 2 {
					if tt, ixx, ok := lookup(as.Rhs[0]); ok {
						t, ix = tt, ixx
						okIdent, _ = as.Lhs[1].(*ast.Ident)
					}
				}
				if ix == nil || okIdent == nil || okIdent.Name == "_" {
					continue
				}
				seen[ix] = true
				ss := mk(t, ix)
				ss.NoDefault = true
				okObj := info.Defs[okIdent]
				if okObj == nil {
					okObj = info.Uses[okIdent]
				}
				isOk := func(e ast.Expr) bool {
					id, ok := unparen(e).(*ast.Ident)
					return ok && info.Uses[id] == okObj
				}
				for j, f := range follow {
					is, ok := f.(*ast.IfStmt)
					if !ok {
						continue
					}
					if u, ok := unparen(is.Cond).(*ast.UnaryExpr); ok && u.Op == token.NOT && isOk(u.X) {
						ss.DefaultBody, ss.NoDefault = is.Body.List, false
						break
					}
					if isOk(is.Cond) {
						if eb, ok := is.Else.(*ast.BlockStmt); ok {
							ss.DefaultBody, ss.NoDefault = eb.List, false
						} else if n := len(is.Body.List); n > 0 && is.Else == nil {
							if _, ret := is.Body.List[n-1].(*ast.ReturnStmt); ret {
								ss.DefaultBody, ss.NoDefault = follow[j+1:], false
							}
						}
						break
					}
				}
				out = append(out, ss)
			}
		}
		ast.Inspect(fd.Body, func(x ast.Node) bool {
			switch b := x.(type) {
			case *ast.BlockStmt:
				visitBlock(b.List)
			case *ast.CaseClause:
				visitBlock(b.Body)
			}
			return true
		})
		// lookups without the comma-ok form: a miss yields the zero constructor
		ast.Inspect(fd.Body, func(x ast.Node) bool {
			if ix, ok := x.(*ast.IndexExpr); ok && !seen[ix] {
				if t, ixx, ok := lookup(ix); ok {
					ss := mk(t, ixx)
					ss.NoDefault = true
					out = append(out, ss)
				}
			}
			return true
		})
	})
	return out
}

// constructedType: the named struct type a case clause instantiates
// (composite literal or constructor call), "" if none.
func constructedType(info *types.Info, cc *ast.CaseClause) string {
	found := ""
	for _, st := range cc.Body {
		ast.Inspect(st, func(x ast.Node) bool {
			if found != "" {
				return false
			}
			switch e := x.(type) {
			case *ast.CompositeLit:
				if n, ok := info.TypeOf(e).(*types.Named); ok {
					if _, isStruct := n.Underlying().(*types.Struct); isStruct && strings.HasPrefix(n.Obj().Pkg().Path(), modPath) {
						found = n.Obj().Name()
					}
				}
			case *ast.CallExpr:
				if f := calleeOf(info, e); f != nil && f.Pkg() != nil && strings.HasPrefix(f.Pkg().Path(), modPath) {
					res := f.Type().(*types.Signature).Results()
					if res.Len() == 1 {
						if pt, ok := res.At(0).Type().(*types.Pointer); ok {
							if n, ok := pt.Elem().(*types.Named); ok {
								found = n.Obj().Name()
							}
						}
					}
				}
			}
			return true
		})
	}
	return found
}

// documented scheme tables, transcribed from README.md (sections "Servers",
// "Channels", "Client").
var documentedSchemes = map[string]map[string]string{
	"role:Server": {
		"http": "HttpServer", "https": "HttpServer",
		"tcp": "SocketServer", "tcp+tls": "SocketServer", "unix": "SocketServer", "unix+tls": "SocketServer", "unixpacket": "SocketServer",
		"udp": "PacketServer", "unixgram": "PacketServer",
		"stdin": "IoServer", "stdin+tls": "IoServer",
		"dns+udp": "DnsServer", "dns+tcp": "DnsServer",
	},
	"role:Channel": {"tcp": "NetworkChannel", "unix": "NetworkChannel", "unixpacket": "NetworkChannel"},
	"role:Upstream": {
		"tcp": "Socket", "tcp+tls": "Socket", "unix": "Socket", "unix+tls": "Socket",
		"http": "Http", "https": "Http",
		"stdin": "InputOutput", "stdin+tls": "InputOutput",
		"udp": "Packet", "unixgram": "Packet",
		"dns": "Dns",
	},
	"role:Listener": {"tcp": "SocketListener", "unix": "SocketListener", "stdin": "InputOutputListener"},
}

func checkC18(w *World, r *Report) {
	buildFnCallers(w)
	r.Explanation = "Decides the table structure of address interpretation: (R18.1) the case sets of every switch over a URL scheme in the four dispatchers contain every documented scheme mapped to the documented implementation type (table transcribed from README.md) and each has a default whose every return carries a non-nil error; sibling switches of one dispatcher agree; (R18.2) every implementation selected for an x+tls scheme derives its secure flag from a +tls test of the scheme (and C04/R04.5 ties that flag to a TLS primitive), and ProtoAddress.Addr has a case for every socket-like scheme a dispatcher admits; (R18.3) all Unmarshal{YAML,JSON,Flag} entry points of one configuration type reach the same scheme dispatcher; (R18.4) in the parsing cone no pointer that is nil on some path is dereferenced without a dominating nil test; (R18.6) no interface{} value out of a decoder is type-asserted without the comma-ok form where valid input can reach it. Not decided: net/url parsing, the reflection/unsafe bridge in yamlparser.go, arbitrary malformed strings."
	r.NotDecided = []string{"net/url parsing of malformed strings", "goccy/go-yaml + reflection bridge (yamlparser.go)", "strings 'near' a scheme beyond the switch tables"}
	r.Trusted = []string{"README.md's scheme lists as transcribed in the checker's documentedSchemes table"}
	r.Rule("R18.1", "scheme tables contain the documented schemes with the documented types; error default", 4)
	r.Rule("R18.2", "+tls selects TLS in every implementation chosen for a +tls scheme; Addr() resolves admitted schemes", 6)
	r.Rule("R18.3", "one dispatcher per configuration type, whatever the input form", 4)
	r.Rule("R18.4", "no nil dereference in the parsing cone", 4)
	r.Rule("R18.6", "no unchecked type assertion on decoded configuration data", 1)
	r.Rule("R18.5", "Connect never rewrites the configured scheme (reconnects see the same address)", 5)

	sws := findSchemeSwitches(w)
	byFn := map[string][]schemeSwitch{}
	roleIfaces := map[string]*types.Interface{
		"role:Server":   w.Interface("internal/server", "Server"),
		"role:Channel":  w.Interface("internal/server", "Channel"),
		"role:Upstream": w.Interface("internal/client/upstream", "Upstream"),
		"role:Listener": w.Interface("internal/client/listener", "Listener"),
	}
	typeByName := func(name string) *types.Named {
		for _, rel := range []string{"internal/server", "internal/client/upstream", "internal/client/listener"} {
			if n := w.Named(rel, name); n != nil {
				return n
			}
		}
		return nil
	}
	roleOf := func(s schemeSwitch) string {
		for _, t := range s.Cases {
			n := typeByName(t)
			if n == nil {
				continue
			}
			for role, iface := range roleIfaces {
				if iface != nil && implementsIface(types.NewPointer(n), iface) {
					return role
				}
			}
		}
		return ""
	}
	for _, s := range sws {
		if s.Derived != "" && roleOf(s) != "" {
			r.Violate("R18.1", "dispatcher:"+roleOf(s)+"|exact-scheme", w.Pos(s.Pos), "the dispatcher switches on "+s.Derived+", not on the scheme itself: every '<carrier>+<anything>' (a typo of +tls, an undocumented modifier) is admitted and handed to the carrier's type, which only looks for '+tls' — an unknown address is no longer a configuration error and can silently select the unencrypted transport")
		}
		byFn[funcKey(s.Fn)] = append(byFn[funcKey(s.Fn)], s)
		if role := roleOf(s); role != "" {
			byFn[role] = append(byFn[role], s)
		}
	}
	tlsTypes := map[string]bool{}
	for fnKey, doc := range documentedSchemes {
		list := byFn[fnKey]
		if len(list) == 0 {
			r.Undecided("R18.1", "dispatcher:"+fnKey, "-", "anchor unresolved: no switch over a URL scheme found in "+fnKey)
			continue
		}
		for i, s := range list {
			key := fmt.Sprintf("dispatcher:%s|switch#%d", fnKey, i)
			pos := w.Pos(s.Pos)
			var problems []string
			var docKeys []string
			for k := range doc {
				docKeys = append(docKeys, k)
			}
			sort.Strings(docKeys)
			for _, sch := range docKeys {
				got, ok := s.Cases[sch]
				if !ok {
					problems = append(problems, fmt.Sprintf("documented scheme %q has no case (falls into the default)", sch))
				} else if got != doc[sch] {
					problems = append(problems, fmt.Sprintf("scheme %q constructs %s, documented: %s", sch, got, doc[sch]))
				}
			}
			var extra []string
			for sch, t := range s.Cases {
				if _, ok := doc[sch]; !ok {
					extra = append(extra, sch+"->"+t)
				}
				if strings.HasSuffix(sch, "+tls") {
					tlsTypes[t] = true
				}
			}
			sort.Strings(extra)
			// default
			info := w.InfoOf(s.Decl)
			var defBody []ast.Stmt
			hasDefault := false
			if s.Table {
				defBody, hasDefault = s.DefaultBody, !s.NoDefault
			} else if s.Default != nil {
				defBody, hasDefault = s.Default.Body, true
			}
			if !hasDefault {
				problems = append(problems, mapStr(s.Table, "the table lookup has no branch for a scheme that is not in the table (the zero constructor would be used)")+mapStr(!s.Table, "switch has no default: an unknown scheme is silently accepted"))
			} else {
				nret := 0
				okDefault := true
				for _, st := range defBody {
					ast.Inspect(st, func(x ast.Node) bool {
						if rs, ok := x.(*ast.ReturnStmt); ok {
							nret++
							if len(rs.Results) == 0 || isNilIdent(info, rs.Results[len(rs.Results)-1]) {
								okDefault = false
							}
						}
						return true
					})
				}
				endsWithReturn := false
				if n := len(defBody); n > 0 {
					_, endsWithReturn = defBody[n-1].(*ast.ReturnStmt)
				}
				if nret == 0 || !okDefault || !endsWithReturn {
					problems = append(problems, "the default branch does not return a non-nil error on every path: an unknown scheme yields no configuration error")
				}
			}
			r.Check(len(problems) == 0, "R18.1", key, pos,
				fmt.Sprintf("%d documented scheme(s) present with the documented type; default returns an error; undocumented extras: %v", len(doc), extra),
				strings.Join(problems, "; "), "cases", s.Cases, "extras", extra)
		}
		// sibling switches of one dispatcher agree
		if len(list) > 1 {
			key := "dispatcher:" + fnKey + "|siblings"
			agree := true
			for _, s := range list[1:] {
				if fmt.Sprint(s.Cases) != fmt.Sprint(list[0].Cases) {
					agree = false
				}
			}
			r.Check(agree, "R18.1", key, w.Pos(list[0].Pos), fmt.Sprintf("%d switches of the dispatcher have the same scheme table", len(list)), "the input forms of one dispatcher use different scheme tables")
		}
	}

	r.Rule("R18.12", "a failed Startup (malformed address) is never followed by a Shutdown that dereferences what Startup had not yet assigned: a configuration error, never a crash", 1)
	c18ShutdownAfterFailedStartupIsSafe(w, r)
	r.Rule("R18.11", "a listener's forward address is dialled with its scheme as the network: a +tls forward is refused by the dialler, never resolved to its plain network and dialled in clear", 1)
	ruleDirectDialUsesSchemeAsNetwork(w, r, "R18.11")
	r.Rule("R18.10", "a server's Startup, which consumes the +tls marker of its configured address in place, runs at most once per server object (no retry loop on the same object)", 1)
	c18StartupRunsOncePerServer(w, r)
	r.Rule("R18.9", "however the DNS server is started, a +tls endpoint gets a TLS listener (ListenAndServe builds it; ActivateAndServe needs one from crypto/tls)", 1)
	c18DnsServerStartKeepsTls(w, r)
	r.Rule("R18.8", "no parsing function returns a nil object together with a possibly-nil error (a malformed definition must be a configuration error, not a nil entry)", 3)
	r.Rule("R18.7", "an upstream address counts as an encrypted transport only over a TLS-built carrier or under a test for a TLS scheme (+tls, https, wss): never for a scheme that merely looks like one", 5)
	if sites, _ := findConnectSites(w); len(sites) > 0 {
		c04CorrelationClient(w, r, "R18.7", sites)
	} else {
		r.Undecided("R18.7", "sites", "-", "no upstream connect site found")
	}
	c18PlusTls(w, r, tlsTypes)
	c18Addr(w, r, byFn)
	c18OneDispatcher(w, r, sws)
	c18NilDeref(w, r)
	c18SchemeImmutable(w, r)
}

// c18SchemeImmutable: R18.5 — an upstream's Connect runs again on every
// reconnect, so it must not rewrite the configured scheme: stripping "+tls"
// in place turns the second attempt into a plaintext dial.
func c18SchemeImmutable(w *World, r *Report) { ruleSchemeImmutable(w, r, "R18.5") }

func ruleSchemeImmutable(w *World, r *Report, rule string) {
	ui := w.Interface("internal/client/upstream", "Upstream")
	if ui == nil {
		r.Undecided(rule, "anchor", "-", "anchor unresolved: upstream.Upstream")
		return
	}
	var urlNamed *types.Named
	if up := w.ByPath["net/url"]; up != nil {
		if tn, ok := up.Types.Scope().Lookup("URL").(*types.TypeName); ok {
			urlNamed, _ = tn.Type().(*types.Named)
		}
	}
	if urlNamed == nil {
		r.Undecided(rule, "anchor", "-", "anchor unresolved: net/url.URL")
		return
	}
	seenM := map[*types.Func]bool{}
	for _, n := range w.Implementers(ui) {
		m := methodOf(n, "Connect")
		if m == nil || seenM[m] {
			continue
		}
		seenM[m] = true
		key := "type:" + qualName(n) + "|scheme-immutable"
		bad := ""
		seen := map[*ssa.Function]bool{}
		var walk func(f *ssa.Function, recv ssa.Value, d int)
		walk = func(f *ssa.Function, recv ssa.Value, d int) {
			if f == nil || seen[f] || d > 2 || len(f.Blocks) == 0 {
				return
			}
			seen[f] = true
			allInstrs(f, func(in ssa.Instruction) {
				st, ok := in.(*ssa.Store)
				if !ok {
					return
				}
				fa, ok := st.Addr.(*ssa.FieldAddr)
				if !ok {
					return
				}
				fv := fieldVarOf(fa)
				if fv == nil || fv.Pkg() == nil || fv.Pkg().Path() != "net/url" || !fieldOwnerNamed(urlNamed, fv) {
					return
				}
				// base of the address chain
				base := ssa.Value(fa)
				for i := 0; i < 8; i++ {
					if f2, ok := base.(*ssa.FieldAddr); ok {
						base = f2.X
						continue
					}
					break
				}
				if base == recv {
					switch fv.Name() {
					case "Scheme":
						bad = fmt.Sprintf("%s: Connect rewrites the scheme of the upstream's configured address: the next (re)connect no longer sees the +tls suffix and dials in plaintext", w.Pos(st.Pos()))
					case "User":
						bad = fmt.Sprintf("%s: Connect overwrites the credentials of the upstream's configured address: the next (re)connect no longer sees the shared secret and silently runs the carrier without its cipher", w.Pos(st.Pos()))
					default:
						bad = fmt.Sprintf("%s: Connect rewrites %s of the upstream's configured address: the next (re)connect interprets a different address than the one configured", w.Pos(st.Pos()), fv.Name())
					}
				}
			})
			for _, c := range callsIn(f) {
				if sc := c.Common().StaticCallee(); sc != nil && inModule(sc) && len(c.Common().Args) > 0 && c.Common().Args[0] == recv && len(sc.Params) > 0 {
					walk(sc, sc.Params[0], d+1)
				}
			}
		}
		if fn := w.SSAFunc(m); fn != nil && len(fn.Params) > 0 {
			walk(fn, fn.Params[0], 0)
		}
		r.Check(bad == "", rule, key, w.Pos(m.Pos()), "Connect never writes the configured address (scheme, credentials, host): every reconnect interprets the same address", bad)
	}
}

// c18PlusTls: every type constructed for a "+tls" scheme tests the scheme for
// +tls and sets a boolean to true on exactly that branch.
func c18PlusTls(w *World, r *Report, tlsTypes map[string]bool) {
	hasTls := w.Pkg("internal/util/addr").Types.Scope().Lookup("HasTls")
	var names []string
	for t := range tlsTypes {
		names = append(names, t)
	}
	sort.Strings(names)
	for _, tname := range names {
		var n *types.Named
		for _, rel := range []string{"internal/server", "internal/client/upstream"} {
			if x := w.Named(rel, tname); x != nil {
				n = x
			}
		}
		key := "type:" + tname + "|+tls"
		if n == nil {
			r.Undecided("R18.2", key, "-", "type not found")
			continue
		}
		var m *types.Func
		for _, mn := range []string{"Startup", "Connect"} {
			if x := methodOf(n, mn); x != nil {
				m = x
			}
		}
		fn := w.SSAFunc(m)
		if fn == nil {
			r.Undecided("R18.2", key, "-", "no Startup/Connect")
			continue
		}
		isTlsTest := func(v ssa.Value) bool {
			c, ok := v.(*ssa.Call)
			if !ok {
				return false
			}
			f := sCallee(c)
			if isMethod(f, "regexp", "Regexp", "MatchString") && len(c.Call.Args) > 0 {
				if u, ok := c.Call.Args[0].(*ssa.UnOp); ok {
					if g, ok := u.X.(*ssa.Global); ok && g.Object() == hasTls {
						return true
					}
				}
			}
			if isPkgFunc(f, "strings", "HasSuffix") && len(c.Call.Args) == 2 {
				if s, ok := c.Call.Args[1].(*ssa.Const); ok && s.Value != nil && strings.Trim(s.Value.ExactString(), "\"") == "+tls" {
					return true
				}
			}
			return false
		}
		found := false
		misplaced := ""
		isBoolSet := func(in ssa.Instruction) bool {
			st, ok := in.(*ssa.Store)
			if !ok {
				return false
			}
			if _, isC := constBool(st.Val); isC {
				return true
			}
			return isTlsTest(st.Val) // flag := <the +tls test itself>
		}
		npaths := 0
		okp := true
		// the scheme handling may live in helpers of Startup/Connect (same static cone)
		for _, f := range staticCone(fn, 2) {
			// flag = <the +tls test>: the flag equals the test for every outcome, whatever is branched on later
			allInstrs(f, func(in ssa.Instruction) {
				if st, ok := in.(*ssa.Store); ok && isTlsTest(st.Val) {
					if bt, ok := st.Val.Type().Underlying().(*types.Basic); ok && bt.Kind() == types.Bool {
						found = true
					}
				}
			})
			hasErr := false
			if res := f.Signature.Results(); res.Len() > 0 {
				hasErr = types.Identical(res.At(res.Len()-1).Type(), types.Universe.Lookup("error").Type())
			}
			okf := enumPaths(f, nil, isBoolSet, nil, func(e pathExit) {
				ret, isRet := e.Last.(*ssa.Return)
				if !isRet {
					return
				}
				if hasErr && !isConstNil(e.State.Resolve(ret.Results[len(ret.Results)-1])) {
					return
				}
				tls, known := false, false
				var testVal ssa.Value
				for v, t := range e.State.Facts {
					if isTlsTest(v) {
						known = true
						if t {
							// any TLS-scheme test that holds makes this a TLS path (order of the facts must not matter)
							tls = true
							if testVal == nil || v.Pos() < testVal.Pos() {
								testVal = v
							}
						}
					}
				}
				if !known || !tls {
					return
				}
				npaths++
				set := false
				for _, ev := range e.State.Events {
					if b, isC := constBool(ev.(*ssa.Store).Val); isC {
						set = b
					} else if isTlsTest(ev.(*ssa.Store).Val) {
						set = true // on this path the test is true
					}
				}
				for ph, sel := range e.State.PhiSel {
					if bt, ok := ph.Type().Underlying().(*types.Basic); ok && bt.Kind() == types.Bool {
						if b, ok := constBool(e.State.Resolve(sel)); ok && b {
							set = true
						}
					}
				}
				// flag := <the test>, used as a value (argument, result) rather than only branched on
				if testVal != nil && testVal.Referrers() != nil {
					for _, ref := range *testVal.Referrers() {
						switch ref.(type) {
						case *ssa.If, *ssa.DebugRef:
						default:
							set = true
						}
					}
				}
				if set {
					found = true
				} else {
					misplaced = "a successful path with a +tls scheme leaves the secure flag false"
				}
			})
			if !okf {
				okp = false
			}
		}
		if !okp {
			r.Undecided("R18.2", key, w.Pos(m.Pos()), "path budget exceeded")
			continue
		}
		_ = npaths
		// DnsServer embeds SocketServer: Startup is its own
		r.Check(found && misplaced == "", "R18.2", key, w.Pos(m.Pos()), funcKey(m)+" sets its secure flag to true under a +tls test of the scheme (tied to a TLS primitive by C04 R04.5)",
			funcKey(m)+" is selected for a +tls scheme but does not derive a secure flag from a +tls test of the scheme: the suffix is ignored and the transport is silently unencrypted")
	}
}

// c18Addr: ProtoAddress.Addr has a case for every socket-like scheme admitted
// for Socket / Packet upstreams and Socket / Packet servers (after stripping +tls for servers).
func c18Addr(w *World, r *Report, byFn map[string][]schemeSwitch) {
	addrSw := byFn["(*util/addr.ProtoAddress).Addr"]
	key := "func:(*util/addr.ProtoAddress).Addr|covers"
	if len(addrSw) == 0 {
		r.Undecided("R18.2", key, "-", "anchor unresolved: switch in ProtoAddress.Addr")
		return
	}
	have := addrSw[0].Cases
	var missing []string
	need := func(fnKey string, types_ map[string]bool, strip bool) {
		for _, s := range byFn[fnKey] {
			for sch, t := range s.Cases {
				if !types_[t] {
					continue
				}
				x := sch
				if strip {
					x = strings.TrimSuffix(x, "+tls")
				}
				if _, ok := have[x]; !ok {
					missing = append(missing, fmt.Sprintf("%s (%s in %s)", x, t, fnKey))
				}
			}
		}
	}
	need("role:Upstream", map[string]bool{"Socket": true, "Packet": true}, false)
	need("role:Server", map[string]bool{"SocketServer": true, "PacketServer": true}, true)
	sort.Strings(missing)
	r.Check(len(missing) == 0, "R18.2", key, w.Pos(addrSw[0].Pos), fmt.Sprintf("Addr() has a case for each of the socket/packet schemes the dispatchers admit (%d cases)", len(have)),
		"admitted schemes without an address resolver case (they fall into the generic default and are dialled with the raw scheme): "+strings.Join(missing, ", "))
}

// c18OneDispatcher: R18.3.
func c18OneDispatcher(w *World, r *Report, sws []schemeSwitch) {
	dispatchers := map[*types.Func]bool{}
	for _, s := range sws {
		hasRole := false
		for _, t := range s.Cases {
			if t != "" {
				hasRole = true
			}
		}
		if hasRole && funcKey(s.Fn) != "(*util/addr.ProtoAddress).Addr" {
			dispatchers[s.Fn] = true
		}
	}
	for _, tt := range [][2]string{{"internal/server", "Servers"}, {"internal/server", "Channels"}, {"internal/client/upstream", "Upstreams"}, {"internal/client/listener", "Listeners"}} {
		n := w.Named(tt[0], tt[1])
		if n == nil {
			r.Undecided("R18.3", "type:"+tt[1], "-", "anchor unresolved")
			continue
		}
		reached := map[string][]string{}
		var entries []string
		for _, mn := range []string{"UnmarshalYAML", "UnmarshalJSON", "UnmarshalFlag"} {
			m := declaredMethod(n, mn)
			if m == nil {
				continue
			}
			entries = append(entries, mn)
			fn := w.SSAFunc(m)
			seen := map[*ssa.Function]bool{}
			var walk func(f *ssa.Function, d int)
			var hit []string
			walk = func(f *ssa.Function, d int) {
				if f == nil || seen[f] || d > 6 || !inModule(f) {
					return
				}
				seen[f] = true
				if o, ok := f.Object().(*types.Func); ok && dispatchers[o] {
					hit = append(hit, funcKey(o))
				}
				for _, c := range callsIn(f) {
					if sc := c.Common().StaticCallee(); sc != nil {
						walk(sc, d+1)
					}
				}
			}
			walk(fn, 0)
			sort.Strings(hit)
			reached[mn] = hit
		}
		for _, mn := range entries {
			key := fmt.Sprintf("method:(*%s.%s).%s|dispatcher", relPkg(n.Obj().Pkg()), tt[1], mn)
			pos := w.Pos(declaredMethod(n, mn).Pos())
			if len(reached[mn]) == 0 {
				r.Violate("R18.3", key, pos, "this input form does not go through the type's scheme dispatcher: the same address is interpreted differently (or not validated) depending on where it was written")
				continue
			}
			same := true
			for _, other := range entries {
				if len(reached[other]) > 0 && fmt.Sprint(reached[other]) != fmt.Sprint(reached[mn]) {
					same = false
				}
			}
			r.Check(same, "R18.3", key, pos, "reaches "+strings.Join(reached[mn], ","), "input forms of one configuration type reach different dispatchers")
		}
	}
}

// c18NilDeref: R18.4 — in functions reachable from the Unmarshal* entry points
// a pointer that is nil on some incoming path (phi with a nil edge) is not
// dereferenced without a dominating nil test.
func c18NilDeref(w *World, r *Report) {
	var roots []*ssa.Function
	for _, tt := range [][2]string{{"internal/server", "Servers"}, {"internal/server", "Channels"}, {"internal/client/upstream", "Upstreams"}, {"internal/client/listener", "Listeners"}, {"internal/util/addr", "ProtoAddress"}} {
		n := w.Named(tt[0], tt[1])
		if n == nil {
			continue
		}
		for _, mn := range []string{"UnmarshalYAML", "UnmarshalJSON", "UnmarshalFlag"} {
			if m := declaredMethod(n, mn); m != nil {
				if fn := w.SSAFunc(m); fn != nil {
					roots = append(roots, fn)
				}
			}
		}
	}
	ruleNoNilResultWithNilError(w, r, "R18.8", roots)
	seen := map[*ssa.Function]bool{}
	var cone []*ssa.Function
	var walk func(f *ssa.Function, d int)
	walk = func(f *ssa.Function, d int) {
		if f == nil || seen[f] || d > 6 || !inModule(f) {
			return
		}
		seen[f] = true
		cone = append(cone, f)
		for _, c := range callsIn(f) {
			if sc := c.Common().StaticCallee(); sc != nil {
				walk(sc, d+1)
			}
		}
	}
	for _, f := range roots {
		walk(f, 0)
	}
	sort.Slice(cone, func(i, j int) bool { return cone[i].Pos() < cone[j].Pos() })
	for _, fn := range cone {
		key := "func:" + ssaFuncKey(fn) + "|nil-deref"
		bad := ""
		nphi := 0
		allInstrs(fn, func(in ssa.Instruction) {
			var p ssa.Value
			switch x := in.(type) {
			case *ssa.FieldAddr:
				p = x.X
			case *ssa.UnOp:
				if x.Op == token.MUL {
					p = x.X
				}
			}
			if p == nil {
				return
			}
			ph, ok := p.(*ssa.Phi)
			if !ok {
				return
			}
			if _, isPtr := ph.Type().Underlying().(*types.Pointer); !isPtr {
				return
			}
			hasNil := false
			var visit func(v ssa.Value, d int)
			visit = func(v ssa.Value, d int) {
				if d > 4 {
					return
				}
				if isConstNil(v) {
					hasNil = true
				}
				if p2, ok := v.(*ssa.Phi); ok {
					for _, e := range p2.Edges {
						visit(e, d+1)
					}
				}
			}
			visit(ph, 0)
			if !hasNil {
				return
			}
			nphi++
			guarded := false
			for _, e := range edgesWhere(fn, func(v ssa.Value) bool { x, _, ok := nilTest(v); return ok && x == ssa.Value(ph) }, true) {
				// cond true; need to know polarity: handled below
				_ = e
			}
			for _, b := range fn.Blocks {
				if len(b.Instrs) == 0 {
					continue
				}
				ifi, ok := b.Instrs[len(b.Instrs)-1].(*ssa.If)
				if !ok {
					continue
				}
				x, eqNil, ok := nilTest(ifi.Cond)
				if !ok || x != ssa.Value(ph) {
					continue
				}
				succ := 0 // non-nil edge
				if eqNil {
					succ = 1
				}
				if edgeDominates(b, succ, in.Block()) {
					guarded = true
				}
			}
			if !guarded {
				bad = fmt.Sprintf("%s: pointer %s is nil on some path into this point and is dereferenced without a nil test (a missing or mistyped key crashes configuration parsing instead of yielding an error)", w.Pos(in.Pos()), ph.Comment)
			}
		})
		r.Check(bad == "", "R18.4", key, w.Pos(fn.Pos()), fmt.Sprintf("%d maybe-nil pointer dereference(s), all guarded", nphi), bad, "maybe_nil_derefs", nphi)

		// R18.6: decoded configuration data (interface{} values out of JSON/YAML) is never type-asserted without
		// the comma-ok form: a value of another JSON type panics instead of yielding a configuration error
		nta, bad6 := 0, ""
		allInstrs(fn, func(in ssa.Instruction) {
			ta, ok := in.(*ssa.TypeAssert)
			if !ok || ta.CommaOk {
				return
			}
			if it, ok := ta.X.Type().Underlying().(*types.Interface); !ok || it.NumMethods() != 0 {
				return // only interface{} values (decoded data); typed interfaces are the program's own values
			}
			nta++
			if c18JsonInfeasible(fn, ta) {
				return
			}
			bad6 = fmt.Sprintf("%s: a decoded value is asserted to %s without the comma-ok form: a number, null, list or object in its place panics (no recover in the configuration path) instead of being reported as a configuration error", w.Pos(ta.Pos()), ta.AssertedType)
		})
		if nta > 0 {
			r.Check(bad6 == "", "R18.6", "func:"+ssaFuncKey(fn)+"|unchecked-assert", w.Pos(fn.Pos()), fmt.Sprintf("%d single-value type assertion(s) on decoded data, none reachable with valid input (JSON cannot start with the required prefix)", nta), bad6)
		}
	}
}

// c18JsonInfeasible: the assertion can only run after json.Unmarshal([]byte(x), ...) succeeded AND
// strings.HasPrefix(x, c) held for a constant c whose first character cannot start a JSON document — an
// infeasible combination (encoding/json accepts only documents that start, after white space, with one of
// { [ " - digit t f n).
func c18JsonInfeasible(fn *ssa.Function, at ssa.Instruction) bool {
	jsonStart := func(b byte) bool {
		switch {
		case b == '{', b == '[', b == '"', b == '-', b == 't', b == 'f', b == 'n', b >= '0' && b <= '9', b == ' ', b == '\t', b == '\n', b == '\r':
			return true
		}
		return false
	}
	var prefixed []ssa.Value // strings known to start with a non-JSON character at `at`
	for _, b := range fn.Blocks {
		if len(b.Instrs) == 0 {
			continue
		}
		ifi, ok := b.Instrs[len(b.Instrs)-1].(*ssa.If)
		if !ok || !edgeDominates(b, 0, at.Block()) {
			continue
		}
		c, ok := ifi.Cond.(*ssa.Call)
		if !ok || !isPkgFunc(sCallee(c), "strings", "HasPrefix") || len(c.Call.Args) != 2 {
			continue
		}
		k, ok := c.Call.Args[1].(*ssa.Const)
		if !ok || k.Value == nil || k.Value.Kind() != constant.String {
			continue
		}
		sv := constant.StringVal(k.Value)
		if len(sv) > 0 && !jsonStart(sv[0]) {
			prefixed = append(prefixed, c.Call.Args[0])
		}
	}
	// a string parameter that every caller fills with such a string (the decoding moved into a helper which is only
	// called from the branch that tested the prefix)
	for i, prm := range fn.Params {
		if bt, ok := prm.Type().Underlying().(*types.Basic); !ok || bt.Kind() != types.String {
			continue
		}
		ncall, all := 0, true
		if fn.Object() != nil {
			for _, caller := range fnCallers[fn] {
				for _, c := range callsIn(caller) {
					if c.Common().StaticCallee() != fn || i >= len(c.Common().Args) {
						continue
					}
					ncall++
					ci, ok := c.(ssa.Instruction)
					okSite := false
					if ok {
						for _, b := range caller.Blocks {
							if len(b.Instrs) == 0 {
								continue
							}
							ifi, isIf := b.Instrs[len(b.Instrs)-1].(*ssa.If)
							if !isIf || !edgeDominates(b, 0, ci.Block()) {
								continue
							}
							hc, isCall := ifi.Cond.(*ssa.Call)
							if !isCall {
								// `HasPrefix(..) && HasSuffix(..)`: the condition is a phi of the second test, reached only when the first held
								continue
							}
							if !isPkgFunc(sCallee(hc), "strings", "HasPrefix") || len(hc.Call.Args) != 2 || hc.Call.Args[0] != c.Common().Args[i] {
								continue
							}
							if k, isK := hc.Call.Args[1].(*ssa.Const); isK && k.Value != nil && k.Value.Kind() == constant.String {
								if sv := constant.StringVal(k.Value); len(sv) > 0 && !jsonStart(sv[0]) {
									okSite = true
								}
							}
						}
					}
					if !okSite {
						all = false
					}
				}
			}
		}
		if ncall > 0 && all {
			prefixed = append(prefixed, prm)
		}
	}
	if len(prefixed) == 0 {
		return false
	}
	// json.Unmarshal([]byte(x), ...) == nil dominating `at` for one of those strings
	for _, c := range callsIn(fn) {
		call, ok := c.(*ssa.Call)
		if !ok || !isPkgFunc(sCallee(c), "encoding/json", "Unmarshal") || len(call.Call.Args) < 1 {
			continue
		}
		src := call.Call.Args[0]
		if cv, ok := src.(*ssa.Convert); ok {
			src = cv.X
		}
		same := false
		for _, p := range prefixed {
			if p == src {
				same = true
			}
		}
		if !same {
			continue
		}
		if dominatedByCondNil(fn, at, func(v ssa.Value) bool { x, _, ok := nilTest(v); return ok && x == ssa.Value(call) }) {
			return true
		}
	}
	return false
}

// fnCallers: static callers of module functions (built on first use by c18NilDeref's caller).
var fnCallers = map[*ssa.Function][]*ssa.Function{}

func buildFnCallers(w *World) {
	if len(fnCallers) > 0 {
		return
	}
	for _, g := range sortedModuleFuncs(w, w.SSA()) {
		seen := map[*ssa.Function]bool{}
		for _, c := range callsIn(g) {
			if sc := c.Common().StaticCallee(); sc != nil && !seen[sc] {
				seen[sc] = true
				fnCallers[sc] = append(fnCallers[sc], g)
			}
		}
	}
}
