package main

// C19 — Stream wrappers close their resource exactly once.
// Typestate argument over all sequential call histories (DESIGN.md §4 C19).

import (
	"strings"
	"fmt"
	"go/ast"
	"go/token"
	"go/types"
	"sort"

	"golang.org/x/tools/go/ssa"
)

func init() { register("C19", checkC19) }

type safeType struct {
	T      *types.Named
	Flag   *types.Var
	Close  *types.Func
	Closed *types.Func
}

// closerIfaces returns io.Closer and streams.Closed.
func (w *World) closerIface() *types.Interface {
	p := w.ByPath["io"]
	if p == nil {
		return nil
	}
	tn, _ := p.Types.Scope().Lookup("Closer").(*types.TypeName)
	if tn == nil {
		return nil
	}
	i, _ := tn.Type().Underlying().(*types.Interface)
	return i
}

// findSafeTypes: struct types of package streams with a bool field that is
// returned by their own Closed() or stored by their own Close() — by field
// identity, not by the name "closed".
func findSafeTypes(w *World) []safeType {
	var out []safeType
	p := w.Pkg("internal/streams")
	if p == nil {
		return nil
	}
	sc := p.Types.Scope()
	for _, nm := range sc.Names() {
		tn, ok := sc.Lookup(nm).(*types.TypeName)
		if !ok {
			continue
		}
		n, ok := tn.Type().(*types.Named)
		if !ok {
			continue
		}
		st, ok := n.Underlying().(*types.Struct)
		if !ok {
			continue
		}
		cl := declaredMethod(n, "Close")
		cd := declaredMethod(n, "Closed")
		if cl == nil && cd == nil {
			continue
		}
		if cl == nil && isFlagHolderOnly(p.Types, n) {
			continue // `type closeFlag struct{ closed bool }` with a Closed() of its own: judged in the wrappers that embed it
		}
		// the flag may live in a small struct embedded by value, which also brings the Closed() method along
		if cl != nil && cd == nil {
			done := false
			for i := 0; i < st.NumFields() && !done; i++ {
				ef := st.Field(i)
				en, ok := ef.Type().(*types.Named)
				if !ef.Embedded() || !ok || en.Obj().Pkg() != p.Types {
					continue
				}
				est, ok := en.Underlying().(*types.Struct)
				ecd := declaredMethod(en, "Closed")
				if !ok || ecd == nil || declaredMethod(en, "Close") != nil {
					continue
				}
				for j := 0; j < est.NumFields(); j++ {
					f := est.Field(j)
					if b, ok := f.Type().Underlying().(*types.Basic); !ok || b.Kind() != types.Bool {
						continue
					}
					if d := w.Decl(cl); d != nil && len(findFieldStores(w.InfoOf(d), d.Body, f)) > 0 {
						out = append(out, safeType{T: n, Flag: f, Close: cl, Closed: ecd})
						done = true
						break
					}
				}
			}
			if done {
				continue
			}
		}
		for i := 0; i < st.NumFields(); i++ {
			f := st.Field(i)
			if b, ok := f.Type().Underlying().(*types.Basic); !ok || b.Kind() != types.Bool {
				continue
			}
			used := false
			if d := w.Decl(cd); d != nil {
				info := w.InfoOf(d)
				ast.Inspect(d.Body, func(x ast.Node) bool {
					if e, ok := x.(ast.Expr); ok && fieldOfSel(info, e) == f {
						used = true
					}
					return true
				})
			}
			if d := w.Decl(cl); d != nil && !used {
				if len(findFieldStores(w.InfoOf(d), d.Body, f)) > 0 {
					used = true
				}
			}
			if used {
				out = append(out, safeType{T: n, Flag: f, Close: cl, Closed: cd})
				break
			}
		}
	}
	return out
}

func checkC19(w *World, r *Report) {
	r.Explanation = "Decides the typestate shape that makes close idempotent for every sequential history of Read/Write/Close/Closed/String calls: (R19.1) each flag-carrying wrapper's Close makes no inner close when the flag is set and returns nil, otherwise performs exactly one inner close, sets the flag on every path and returns that call's error, and Closed returns the flag; (R19.2) nothing but that Close stores the flag; (R19.3) every other closer type of package streams obtains Close/Closed by promotion from an embedded field that every literal of the type fills from a NewSafe* constructor; (R19.4) the reader+writer pair closes both halves on every path and reports the conjunction; (R19.5) TryClose/LogClose call Close only when Closed() is false. By induction on nesting depth the underlying Close runs exactly once. Not decided: concurrent Close calls (plain bool flag), String() on cyclic Unwrap chains, behaviour of the underlying resources."
	r.NotDecided = []string{"concurrent Close calls", "String() termination on cyclic Unwrap chains", "underlying resources' own Close behaviour"}
	r.Trusted = []string{"go/ssa lowering of the methods analysed"}
	r.Rule("R19.1", "idempotent-close shape of flag-carrying wrappers (Close and Closed)", 5)
	r.Rule("R19.2", "only the wrapper's own Close stores its flag", 5)
	r.Rule("R19.3", "every other closer type in package streams promotes Close/Closed from an embedded field filled by a NewSafe* constructor in every literal", 7)
	r.Rule("R19.4", "reader+writer pair closes both halves on all paths; Closed is the conjunction", 2)
	r.Rule("R19.7", "a NewSafe* constructor never wraps the raw resource of an existing close-once wrapper in a second one", 4)
	c19SafeCtorNeverRewrapsInner(w, r)
	r.Rule("R19.6", "the wrapped resource is closed by the wrapper's own Close and by no other method", 5)
	r.Rule("R19.5", "TryClose/LogClose consult Closed() before Close()", 2)

	safes := findSafeTypes(w)
	safeSet := map[*types.Named]bool{}
	for _, s := range safes {
		safeSet[s.T] = true
	}
	for _, s := range safes {
		c19Close(w, r, s)
		c19Closed(w, r, s)
		c19Writers(w, r, s)
		c19OnlyCloseClosesInner(w, r, s)
	}
	c19Wrappers(w, r, safeSet)
	c19Helpers(w, r)
}

// innerCloseCall: call that closes the wrapped resource: LogClose/TryClose(x)
// or x.Close() where x is loaded from a field of the receiver.
func isCloseOn(w *World, c ssa.CallInstruction, isInner func(v ssa.Value) bool) bool {
	cc := c.Common()
	cal := sCallee(c)
	if cal == nil {
		return false
	}
	if cal.Name() == "Close" && cal.Type().(*types.Signature).Recv() != nil {
		var recv ssa.Value
		if cc.IsInvoke() {
			recv = cc.Value
		} else if len(cc.Args) > 0 {
			recv = cc.Args[0]
		}
		return recv != nil && isInner(recv)
	}
	if cal == w.Func("internal/streams", "LogClose") || cal == w.Func("internal/streams", "TryClose") {
		return len(cc.Args) > 0 && isInner(cc.Args[0])
	}
	return false
}

// derivesFromRecvField: value derives (through interface conversions) from a
// load of some field of the receiver other than the flag.
func recvFieldLoad(fn *ssa.Function, v ssa.Value, flag *types.Var) bool {
	if len(fn.Params) == 0 {
		return false
	}
	for _, root := range provenance(v, provOpts{}) {
		fa := asFieldAddr(root)
		if fa == nil {
			continue
		}
		if fieldVarOf(fa) == flag {
			continue
		}
		// base must be the receiver
		base := fa.X
		if base == fn.Params[0] {
			return true
		}
	}
	return false
}

func c19Close(w *World, r *Report, s safeType) { c19CloseRule(w, r, "R19.1", s) }

func c19CloseRule(w *World, r *Report, rule string, s safeType) {
	key := "type:" + qualName(s.T) + "|Close"
	if s.Close == nil {
		r.Violate(rule, key, w.Pos(s.T.Obj().Pos()), "flag-carrying wrapper has no Close of its own")
		return
	}
	fn := w.SSAFunc(s.Close)
	pos := w.Pos(s.Close.Pos())
	if fn == nil || len(fn.Blocks) == 0 {
		r.Undecided(rule, key, pos, "no SSA body")
		return
	}
	isInner := func(v ssa.Value) bool { return recvFieldLoad(fn, v, s.Flag) }
	isFlagStore := func(in ssa.Instruction) bool {
		st, ok := in.(*ssa.Store)
		if !ok {
			return false
		}
		fa, ok := st.Addr.(*ssa.FieldAddr)
		return ok && fieldVarOf(fa) == s.Flag
	}
	isFlagLoad := func(v ssa.Value) bool { return isLoadOfField(v, s.Flag) }
	// the whole body may be delegated to a helper that is handed the address of the flag and the inner
	// resource: `return closeOnce(&x.closed, x.Conn)`. The helper is then analysed in place of the method,
	// with the flag seen through its pointer parameter.
	if len(fn.Blocks) == 1 {
		for _, c := range callsIn(fn) {
			call, ok := c.(*ssa.Call)
			if !ok {
				continue
			}
			h := call.Call.StaticCallee()
			if h == nil || !inModule(h) || len(h.Blocks) == 0 {
				continue
			}
			flagIdx, innerIdx := -1, -1
			for i, a := range call.Call.Args {
				if fa, ok := a.(*ssa.FieldAddr); ok && fieldVarOf(fa) == s.Flag {
					flagIdx = i
				} else if recvFieldLoad(fn, a, s.Flag) {
					innerIdx = i
				}
			}
			ret, isRet := fn.Blocks[0].Instrs[len(fn.Blocks[0].Instrs)-1].(*ssa.Return)
			if flagIdx < 0 || innerIdx < 0 || !isRet || len(ret.Results) != 1 || ret.Results[0] != ssa.Value(call) {
				continue
			}
			flagP, innerP := h.Params[flagIdx], h.Params[innerIdx]
			fn = h
			isInner = func(v ssa.Value) bool {
				for _, root := range provenance(v, provOpts{}) {
					if root == ssa.Value(innerP) {
						return true
					}
				}
				return v == ssa.Value(innerP)
			}
			isFlagStore = func(in ssa.Instruction) bool {
				st, ok := in.(*ssa.Store)
				return ok && st.Addr == ssa.Value(flagP)
			}
			isFlagLoad = func(v ssa.Value) bool {
				u, ok := v.(*ssa.UnOp)
				return ok && u.Op == token.MUL && u.X == ssa.Value(flagP)
			}
			break
		}
	}
	isEvent := func(in ssa.Instruction) bool {
		if isFlagStore(in) {
			return true
		}
		if c, ok := in.(ssa.CallInstruction); ok {
			if isCloseOn(w, c, isInner) {
				return true
			}
			// a helper method of the same object that closes the inner resource exactly once on each of its paths
			// and returns that close's error: `err := x.release()`
			if g := c.Common().StaticCallee(); g != nil && len(fn.Params) > 0 && len(c.Common().Args) > 0 && c.Common().Args[0] == ssa.Value(fn.Params[0]) {
				return closeHelperOnce(w, g, s)
			}
		}
		return false
	}
	// the flag value "at entry": loads of the flag not preceded by a store
	paths, bad := 0, 0
	var firstBad string
	fail := func(msg string) {
		bad++
		if firstBad == "" {
			firstBad = msg
		}
	}
	ok := enumPaths(fn, nil, isEvent, nil, func(e pathExit) {
		paths++
		ret, isRet := e.Last.(*ssa.Return)
		if !isRet {
			return // panic path: not a normal completion
		}
		// truth of the entry flag on this path
		var flagKnown, flagVal bool
		for v, t := range e.State.Facts {
			if isFlagLoad(v) {
				// the load must precede any flag store on the path: loads happen in source order; the
				// repo idiom tests the flag first. Accept only loads in the entry block.
				if in, ok := v.(ssa.Instruction); ok && in.Block() == fn.Blocks[0] {
					flagKnown, flagVal = true, t
				}
			}
		}
		var closes []ssa.CallInstruction
		stored := false
		storedTrue := false
		for _, ev := range e.State.Events {
			if c, ok := ev.(ssa.CallInstruction); ok {
				closes = append(closes, c)
			} else if st, ok := ev.(*ssa.Store); ok {
				stored = true
				if b, isB := constBool(st.Val); isB && b {
					storedTrue = true
				}
			}
		}
		retv := e.State.Resolve(ret.Results[0])
		switch {
		case flagKnown && flagVal:
			if len(closes) > 0 {
				fail("inner close is called although the flag was already set (double close)")
			}
			if !isConstNil(retv) {
				fail("repeat Close does not return nil")
			}
		case flagKnown && !flagVal:
			if len(closes) != 1 {
				fail(fmt.Sprintf("first Close performs %d inner close calls (want exactly 1)", len(closes)))
			}
			if !stored || !storedTrue {
				fail("flag is not set to true on a path through the first Close")
			}
			if len(closes) == 1 {
				// returned value must derive from the close call
				derives := false
				cv, _ := closes[0].(ssa.Value)
				for _, root := range provenance(retv, provOpts{Transparent: func(c *ssa.Call) []int {
					if c == cv {
						return nil
					}
					idx := []int{}
					for i := range c.Call.Args {
						idx = append(idx, i)
					}
					if len(idx) == 0 {
						return nil
					}
					return idx
				}}) {
					if root == cv {
						derives = true
					}
				}
				if !derives {
					fail("error of the inner close is not returned")
				}
			}
		default:
			if len(closes) > 0 {
				fail("inner close is not guarded by a test of the flag")
			}
			if len(closes) == 0 && !isConstNil(retv) {
				// nothing closed and no flag decision: tolerate
			}
		}
	})
	if !ok {
		r.Undecided(rule, key, pos, "path budget exceeded")
		return
	}
	if paths < 2 {
		r.Violate(rule, key, pos, "Close has no flag-dependent branching (a repeated Close closes the inner resource again or a first Close closes nothing)", "paths", paths)
		return
	}
	r.Check(bad == 0, rule, key, pos, fmt.Sprintf("all %d paths: flag set => no inner close, nil; flag clear => one inner close, flag:=true, its error returned", paths), firstBad, "paths", paths, "flag_field", s.Flag.Name())
}

func c19Closed(w *World, r *Report, s safeType) {
	key := "type:" + qualName(s.T) + "|Closed"
	if s.Closed == nil {
		r.Violate("R19.1", key, w.Pos(s.T.Obj().Pos()), "flag-carrying wrapper has no Closed of its own")
		return
	}
	fn := w.SSAFunc(s.Closed)
	pos := w.Pos(s.Closed.Pos())
	if fn == nil {
		r.Undecided("R19.1", key, pos, "no SSA body")
		return
	}
	good := true
	nret := 0
	allInstrs(fn, func(in ssa.Instruction) {
		switch x := in.(type) {
		case *ssa.Return:
			nret++
			if len(x.Results) != 1 || !isLoadOfField(x.Results[0], s.Flag) {
				good = false
			}
		case *ssa.Store:
			good = false
		case ssa.CallInstruction:
			good = false
		}
	})
	r.Check(good && nret > 0, "R19.1", key, pos, "Closed returns the flag and does nothing else", "Closed does not simply return the flag field")
}

func c19Writers(w *World, r *Report, s safeType) { c19WritersRule(w, r, "R19.2", s) }

func c19WritersRule(w *World, r *Report, rule string, s safeType) {
	key := "field:" + qualName(s.T) + "." + s.Flag.Name()
	var bad []string
	n := 0
	w.AllFuncDecls(func(p *packagesPkg, fd *ast.FuncDecl) {
		info := p.TypesInfo
		obj, _ := info.Defs[fd.Name].(*types.Func)
		for _, st := range findFieldStores(info, fd, s.Flag) {
			n++
			if st.InLit != nil {
				if b := constVal(info, st.RHS); b != nil && b.String() == "false" {
					continue
				}
				bad = append(bad, w.Pos(st.Pos)+" (composite literal in "+funcKey(obj)+")")
				continue
			}
			if obj != s.Close && !sharedFlagClose(w, obj, s.Flag) {
				bad = append(bad, w.Pos(st.Pos)+" (in "+funcKey(obj)+")")
			}
		}
	})
	sort.Strings(bad)
	r.Check(len(bad) == 0, rule, key, w.Pos(s.Flag.Pos()), fmt.Sprintf("%d store(s), all inside %s", n, funcKey(s.Close)),
		fmt.Sprintf("flag stored outside its Close: %v", bad), "stores", n)
}

// c19Wrappers classifies every closer struct type of package streams.
func c19Wrappers(w *World, r *Report, safe map[*types.Named]bool) {
	p := w.Pkg("internal/streams")
	closer := w.closerIface()
	closedI := w.Interface("internal/streams", "Closed")
	if p == nil || closer == nil || closedI == nil {
		r.Undecided("R19.3", "anchor", "-", "anchor unresolved: package streams / io.Closer / streams.Closed")
		return
	}
	isSafeCtor := func(f *types.Func) bool {
		if f == nil || f.Pkg() != p.Types {
			return false
		}
		res := f.Type().(*types.Signature).Results()
		if res.Len() != 1 {
			return false
		}
		pt, ok := res.At(0).Type().(*types.Pointer)
		if !ok {
			return false
		}
		n, ok := pt.Elem().(*types.Named)
		return ok && safe[n]
	}
	sc := p.Types.Scope()
	for _, nm := range sc.Names() {
		tn, ok := sc.Lookup(nm).(*types.TypeName)
		if !ok {
			continue
		}
		n, ok := tn.Type().(*types.Named)
		if !ok {
			continue
		}
		st, ok := n.Underlying().(*types.Struct)
		if !ok || safe[n] {
			continue
		}
		if !types.Implements(types.NewPointer(n), closer) {
			continue
		}
		key := "type:" + qualName(n)
		pos := w.Pos(tn.Pos())
		own := declaredMethod(n, "Close")
		// embedded fields that provide Close+Closed
		var emb []*types.Var
		for i := 0; i < st.NumFields(); i++ {
			f := st.Field(i)
			if f.Embedded() && implementsIface(f.Type(), closer) {
				emb = append(emb, f)
			}
		}
		if own != nil {
			// pair type: R19.4
			if len(emb) == 2 {
				c19Pair(w, r, "R19.4", false, n, emb)
				// its literals must fill both halves from safe constructors
				c19Literals(w, r, "R19.4", n, emb, isSafeCtor)
				continue
			}
			r.Violate("R19.3", key, pos, "closer type declares its own Close but is neither a flag-carrying safe wrapper nor a reader+writer pair: close-once cannot be established")
			continue
		}
		if len(emb) != 1 {
			r.Violate("R19.3", key, pos, fmt.Sprintf("Close is promoted ambiguously (%d embedded closers)", len(emb)))
			continue
		}
		if declaredMethod(n, "Closed") != nil {
			r.Violate("R19.3", key, pos, "wrapper overrides Closed instead of promoting it from its safe inner wrapper")
			continue
		}
		if !implementsIface(emb[0].Type(), closedI) {
			r.Violate("R19.3", key, pos, "embedded closer does not provide Closed()")
			continue
		}
		c19Literals(w, r, "R19.3", n, emb, isSafeCtor)
	}
}

type packagesPkg = pkgAlias

// c19Literals: every composite literal of type n in the module sets each
// embedded closer field from a NewSafe* constructor call (directly or via a
// local assigned once from such a call).
func c19Literals(w *World, r *Report, rule string, n *types.Named, emb []*types.Var, isSafeCtor func(*types.Func) bool) {
	key := "type:" + qualName(n) + "|literals"
	nlits := 0
	var bad []string
	w.AllFuncDecls(func(p *packagesPkg, fd *ast.FuncDecl) {
		info := p.TypesInfo
		ast.Inspect(fd, func(x ast.Node) bool {
			cl, ok := x.(*ast.CompositeLit)
			if !ok {
				return true
			}
			t := info.TypeOf(cl)
			if t == nil {
				return true
			}
			if pt, ok := t.(*types.Pointer); ok {
				t = pt.Elem()
			}
			if !types.Identical(t, n) {
				return true
			}
			nlits++
			for _, f := range emb {
				var val ast.Expr
				for _, el := range cl.Elts {
					if kv, ok := el.(*ast.KeyValueExpr); ok {
						if id, ok := kv.Key.(*ast.Ident); ok && info.Uses[id] == types.Object(f) {
							val = kv.Value
						}
					}
				}
				if val == nil {
					// positional literals: map by index
					if len(cl.Elts) > 0 {
						if _, isKV := cl.Elts[0].(*ast.KeyValueExpr); !isKV {
							st := n.Underlying().(*types.Struct)
							for i := 0; i < st.NumFields() && i < len(cl.Elts); i++ {
								if st.Field(i) == f {
									val = cl.Elts[i]
								}
							}
						}
					}
				}
				if val == nil {
					bad = append(bad, fmt.Sprintf("%s: literal leaves embedded %s unset", w.Pos(cl.Pos()), f.Name()))
					continue
				}
				if !exprFromSafeCtor(info, fd, val, isSafeCtor) {
					bad = append(bad, fmt.Sprintf("%s: embedded %s is not the result of a NewSafe* constructor (%s)", w.Pos(cl.Pos()), f.Name(), exprStr(val)))
				}
			}
			return true
		})
	})
	sort.Strings(bad)
	if nlits == 0 {
		r.Hold(rule, key, w.Pos(n.Obj().Pos()), "type has no composite literal in the module (cannot be constructed outside its package: fields unexported or unused)", "literals", 0)
		return
	}
	r.Check(len(bad) == 0, rule, key, w.Pos(n.Obj().Pos()), fmt.Sprintf("%d literal(s), each embedded closer comes from a NewSafe* constructor", nlits), fmt.Sprint(bad), "literals", nlits)
}

func exprFromSafeCtor(info *types.Info, fd *ast.FuncDecl, e ast.Expr, isSafeCtor func(*types.Func) bool) bool {
	e = unparen(e)
	if c, ok := e.(*ast.CallExpr); ok {
		return isSafeCtor(calleeOf(info, c))
	}
	if id, ok := e.(*ast.Ident); ok {
		obj := info.Uses[id]
		if obj == nil {
			return false
		}
		// all assignments to this local in the function must be safe-ctor calls
		n, good := 0, true
		ast.Inspect(fd, func(x ast.Node) bool {
			as, ok := x.(*ast.AssignStmt)
			if !ok {
				return true
			}
			for i, l := range as.Lhs {
				lid, ok := l.(*ast.Ident)
				if !ok {
					continue
				}
				if info.Defs[lid] != obj && info.Uses[lid] != obj {
					continue
				}
				n++
				if len(as.Rhs) != len(as.Lhs) {
					good = false
					continue
				}
				c, ok := unparen(as.Rhs[i]).(*ast.CallExpr)
				if !ok || !isSafeCtor(calleeOf(info, c)) {
					good = false
				}
			}
			return true
		})
		return n > 0 && good
	}
	return false
}

// c19Pair: R19.4 on the reader+writer pair type.
func c19Pair(w *World, r *Report, rule string, closeOnly bool, n *types.Named, emb []*types.Var) {
	closeM := declaredMethod(n, "Close")
	key := "type:" + qualName(n) + "|Close"
	fn := w.SSAFunc(closeM)
	if fn == nil {
		r.Undecided(rule, key, w.Pos(closeM.Pos()), "no SSA body")
		return
	}
	fieldOfVal := func(v ssa.Value) *types.Var {
		for _, root := range provenance(v, provOpts{}) {
			if fa := asFieldAddr(root); fa != nil && fa.X == fn.Params[0] {
				return fieldVarOf(fa)
			}
		}
		return nil
	}
	// `for i := range [...]io.Closer{sc.R, sc.W} { LogClose(halves[i]) }`: a loop over a fixed array of the halves
	// closes each of them exactly once (shape verified by fixedArrayCloseLoop); such a call is not a path event
	loopCloses := map[*types.Var]int{}
	loopCall := map[ssa.Instruction]bool{}
	allInstrs(fn, func(in ssa.Instruction) {
		c, ok := in.(ssa.CallInstruction)
		if !ok {
			return
		}
		var elems []ssa.Value
		if isCloseOn(w, c, func(v ssa.Value) bool {
			el, ok := fixedArrayCloseLoop(fn, c, v)
			if ok {
				elems = el
			}
			return ok
		}) {
			all := true
			for _, el := range elems {
				if fieldOfVal(el) == nil {
					all = false
				}
			}
			if all {
				loopCall[in] = true
				for _, el := range elems {
					loopCloses[fieldOfVal(el)]++
				}
			}
		}
	})
	// a helper that closes the half it is handed exactly once on every path (`errs = closeAndCollect(errs, sc.R)`)
	helperArg := func(c ssa.CallInstruction) ssa.Value {
		sc := c.Common().StaticCallee()
		if sc == nil || !inModule(sc) || len(sc.Blocks) == 0 {
			return nil
		}
		for i, a := range c.Common().Args {
			if fieldOfVal(a) == nil || i >= len(sc.Params) {
				continue
			}
			p := sc.Params[i]
			once, n := true, 0
			okp := enumPaths(sc, nil, func(x ssa.Instruction) bool {
				c2, ok := x.(ssa.CallInstruction)
				return ok && isCloseOn(w, c2, func(v ssa.Value) bool {
					for _, root := range provenance(v, provOpts{}) {
						if root == ssa.Value(p) {
							return true
						}
					}
					return false
				})
			}, nil, func(e pathExit) {
				if _, isRet := e.Last.(*ssa.Return); isRet {
					n++
					if len(e.State.Events) != 1 {
						once = false
					}
				}
			})
			if okp && once && n > 0 {
				return a
			}
		}
		return nil
	}
	isEvent := func(in ssa.Instruction) bool {
		c, ok := in.(ssa.CallInstruction)
		if !ok || loopCall[in] {
			return false
		}
		if isCloseOn(w, c, func(v ssa.Value) bool { return fieldOfVal(v) != nil }) {
			return true
		}
		return helperArg(c) != nil
	}
	bad := ""
	paths := 0
	ok := enumPaths(fn, nil, isEvent, nil, func(e pathExit) {
		if _, isRet := e.Last.(*ssa.Return); !isRet {
			return
		}
		paths++
		cnt := map[*types.Var]int{}
		for f, k := range loopCloses {
			cnt[f] += k
		}
		for _, ev := range e.State.Events {
			c := ev.(ssa.CallInstruction)
			cc := c.Common()
			var arg ssa.Value
			if ha := helperArg(c); ha != nil && !isCloseOn(w, c, func(v ssa.Value) bool { return fieldOfVal(v) != nil }) {
				arg = ha
			} else if cc.IsInvoke() {
				arg = cc.Value
			} else {
				arg = cc.Args[0]
			}
			cnt[fieldOfVal(arg)]++
		}
		for _, f := range emb {
			if cnt[f] != 1 {
				bad = fmt.Sprintf("a path through Close closes %s %d times (want 1)", f.Name(), cnt[f])
			}
		}
	})
	if !ok {
		r.Undecided(rule, key, w.Pos(closeM.Pos()), "path budget exceeded")
	} else {
		r.Check(bad == "" && paths > 0, rule, key, w.Pos(closeM.Pos()), fmt.Sprintf("both halves closed exactly once on all %d paths", paths), bad, "paths", paths)
	}

	if closeOnly {
		return
	}
	// Closed = conjunction
	closedM := declaredMethod(n, "Closed")
	key = "type:" + qualName(n) + "|Closed"
	if closedM == nil {
		r.Violate(rule, key, w.Pos(n.Obj().Pos()), "pair type has no Closed method of its own (ambiguous promotion)")
		return
	}
	fn = w.SSAFunc(closedM)
	if fn == nil {
		r.Undecided(rule, key, w.Pos(closedM.Pos()), "no SSA body")
		return
	}
	closedCallField := func(v ssa.Value) *types.Var {
		c, ok := v.(*ssa.Call)
		if !ok {
			return nil
		}
		cal := sCallee(c)
		if cal == nil || cal.Name() != "Closed" {
			return nil
		}
		var recv ssa.Value
		if c.Call.IsInvoke() {
			recv = c.Call.Value
		} else if len(c.Call.Args) > 0 {
			recv = c.Call.Args[0]
		}
		if recv == nil {
			return nil
		}
		for _, root := range provenance(recv, provOpts{}) {
			if fa := asFieldAddr(root); fa != nil && fa.X == fn.Params[0] {
				return fieldVarOf(fa)
			}
		}
		return nil
	}
	bad = ""
	paths = 0
	ok = enumPaths(fn, nil, nil, nil, func(e pathExit) {
		ret, isRet := e.Last.(*ssa.Return)
		if !isRet {
			return
		}
		paths++
		// which halves are known true / false on this path
		known := map[*types.Var]bool{}
		for v, t := range e.State.Facts {
			if f := closedCallField(v); f != nil {
				known[f] = t
			}
		}
		rv := e.State.Resolve(ret.Results[0])
		if b, isC := constBool(rv); isC {
			if b {
				for _, f := range emb {
					if t, ok := known[f]; !ok || !t {
						bad = "returns true on a path where " + f.Name() + ".Closed() is not known true"
					}
				}
			} else {
				anyFalse := false
				for _, f := range emb {
					if t, ok := known[f]; ok && !t {
						anyFalse = true
					}
				}
				if !anyFalse {
					bad = "returns false although no half reported not-closed"
				}
			}
			return
		}
		f := closedCallField(rv)
		if f == nil {
			bad = "returns a value that is not a half's Closed() result"
			return
		}
		for _, g := range emb {
			if g == f {
				continue
			}
			if t, ok := known[g]; !ok || !t {
				bad = "returns " + f.Name() + ".Closed() on a path where " + g.Name() + ".Closed() is not known true"
			}
		}
	})
	if !ok {
		r.Undecided(rule, key, w.Pos(closedM.Pos()), "path budget exceeded")
		return
	}
	r.Check(bad == "" && paths > 0, rule, key, w.Pos(closedM.Pos()), fmt.Sprintf("Closed is the conjunction of both halves on all %d paths", paths), bad, "paths", paths)
}

// c19Helpers: R19.5 — in TryClose / LogClose the Close call on the parameter
// happens only when the parameter does not implement Closed or Closed() is false.
func c19Helpers(w *World, r *Report) {
	for _, name := range []string{"TryClose", "LogClose"} {
		f := w.Func("internal/streams", name)
		key := "func:streams." + name
		if f == nil {
			r.Undecided("R19.5", key, "-", "anchor unresolved: streams."+name)
			continue
		}
		fn := w.SSAFunc(f)
		pos := w.Pos(f.Pos())
		if fn == nil || len(fn.Params) == 0 {
			r.Undecided("R19.5", key, pos, "no SSA body")
			continue
		}
		param := fn.Params[0]
		fromParam := func(v ssa.Value) bool {
			for _, root := range provenance(v, provOpts{}) {
				if root == param {
					return true
				}
			}
			return false
		}
		isEvent := func(in ssa.Instruction) bool {
			c, ok := in.(ssa.CallInstruction)
			if !ok {
				return false
			}
			cc := c.Common()
			if !cc.IsInvoke() {
				return false
			}
			return (cc.Method.Name() == "Close" || cc.Method.Name() == "Closed") && fromParam(cc.Value)
		}
		bad := ""
		paths, closing := 0, 0
		ok := enumPaths(fn, nil, isEvent, nil, func(e pathExit) {
			paths++
			var closeEv ssa.CallInstruction
			var closedCalls []*ssa.Call
			ncloses := 0
			for _, ev := range e.State.Events {
				c := ev.(ssa.CallInstruction)
				if c.Common().Method.Name() == "Close" {
					ncloses++
					if closeEv == nil {
						closeEv = c
					}
				} else if cv, ok := c.(*ssa.Call); ok && closeEv == nil {
					closedCalls = append(closedCalls, cv)
				}
			}
			if closeEv == nil {
				return
			}
			closing++
			if ncloses > 1 {
				bad = "Close() is called more than once on the same value on one path (a retry): the underlying resource is closed twice"
				return
			}
			// the comma-ok of the type assertion to Closed
			okKnown, okVal := false, false
			for v, t := range e.State.Facts {
				if ex, isEx := v.(*ssa.Extract); isEx && ex.Index == 1 {
					if ta, isTA := ex.Tuple.(*ssa.TypeAssert); isTA && fromParam(ta.X) && types.NewMethodSet(ta.AssertedType).Lookup(nil, "Closed") != nil {
						okKnown, okVal = true, t
					}
				}
			}
			if !okKnown {
				// the question may have been delegated to a guard helper: G(closer) == false on this path
				for v, t := range e.State.Facts {
					if c, isCall := v.(*ssa.Call); isCall && !t {
						if sc := c.Call.StaticCallee(); sc != nil && inModule(sc) && len(c.Call.Args) == 1 && fromParam(c.Call.Args[0]) && isClosedGuard(w, sc) {
							return
						}
					}
				}
				bad = "Close() is called on a path that never asked whether the value implements Closed"
				return
			}
			if !okVal {
				return
			}
			fine := false
			for _, cc := range closedCalls {
				if t, known := e.State.Facts[ssa.Value(cc)]; known && !t {
					fine = true
				}
			}
			if !fine {
				bad = "Close() is called on a path where Closed() was not observed false"
			}
		})
		if !ok {
			r.Undecided("R19.5", key, pos, "path budget exceeded")
			continue
		}
		if closing == 0 {
			r.Violate("R19.5", key, pos, "helper never calls Close on its argument")
			continue
		}
		r.Check(bad == "", "R19.5", key, pos, fmt.Sprintf("%d closing path(s) of %d, each after Closed()==false or on a value without Closed", closing, paths), bad, "paths", paths, "closing_paths", closing)
	}
}

var _ = token.NoPos

// isClosedGuard: g(closer) bool returns false only for values that do not
// implement Closed or whose Closed() is false (i.e. it returns true whenever
// the value reports itself closed).
func isClosedGuard(w *World, g *ssa.Function) bool {
	if len(g.Params) != 1 || len(g.Blocks) == 0 {
		return false
	}
	param := g.Params[0]
	fromP := func(v ssa.Value) bool {
		for _, root := range provenance(v, provOpts{}) {
			if root == ssa.Value(param) {
				return true
			}
		}
		return false
	}
	good, n := true, 0
	okp := enumPaths(g, nil, nil, nil, func(e pathExit) {
		ret, isRet := e.Last.(*ssa.Return)
		if !isRet || len(ret.Results) != 1 {
			return
		}
		n++
		rv := e.State.Resolve(ret.Results[0])
		if b, isC := constBool(rv); isC {
			if b {
				return
			}
			// returns false: justified by "does not implement Closed" or "Closed() == false"
			for v, t := range e.State.Facts {
				if ex, isEx := v.(*ssa.Extract); isEx && ex.Index == 1 && !t {
					if ta, isTA := ex.Tuple.(*ssa.TypeAssert); isTA && fromP(ta.X) {
						return
					}
				}
				if c, isCall := v.(*ssa.Call); isCall && !t && c.Call.IsInvoke() && c.Call.Method.Name() == "Closed" {
					return
				}
			}
			good = false
			return
		}
		// returns exactly the Closed() answer
		if c, isCall := rv.(*ssa.Call); isCall && c.Call.IsInvoke() && c.Call.Method.Name() == "Closed" && fromP(c.Call.Value) {
			return
		}
		good = false
	})
	return okp && good && n > 0
}

// rulePairClosesBothHalves: the Close of every reader+writer pair type of package streams closes both
// halves on every path (registered under C17 as well: the peer of the write half sees end-of-stream only
// when that half is closed, whatever closing the read half returned).
func rulePairClosesBothHalves(w *World, r *Report, rule string) {
	closer := w.closerIface()
	p := w.Pkg("internal/streams")
	if closer == nil || p == nil {
		r.Undecided(rule, "anchor", "-", "anchor unresolved: streams closer interface")
		return
	}
	n := 0
	sc := p.Types.Scope()
	for _, nm := range sc.Names() {
		tn, ok := sc.Lookup(nm).(*types.TypeName)
		if !ok {
			continue
		}
		named, ok := tn.Type().(*types.Named)
		if !ok {
			continue
		}
		st, ok := named.Underlying().(*types.Struct)
		if !ok || declaredMethod(named, "Close") == nil {
			continue
		}
		var emb []*types.Var
		for i := 0; i < st.NumFields(); i++ {
			f := st.Field(i)
			if f.Embedded() && implementsIface(f.Type(), closer) {
				emb = append(emb, f)
			}
		}
		if len(emb) == 2 {
			n++
			c19Pair(w, r, rule, true, named, emb)
		}
	}
	if n == 0 {
		r.Undecided(rule, "pairtypes:streams", "-", "no reader+writer pair type found in package streams")
	}
}

// ruleSafeCloseSetsFlag: the flag-carrying wrappers' Close marks the wrapper closed on every path (registered
// under C16 too: Upstreams.Connect detects a lost session only through Closed() of the wrapper stack).
func ruleSafeCloseSetsFlag(w *World, r *Report, rule string) {
	sts := findSafeTypes(w)
	if len(sts) == 0 {
		r.Undecided(rule, "safetypes", "-", "no flag-carrying wrapper found in package streams")
		return
	}
	for _, st := range sts {
		c19CloseRule(w, r, rule, st)
	}
}

// ruleClosedFlagOnlyByClose: nothing but Close sets a wrapper's closed flag (registered under C14 too: a flag set
// by Read makes every later Close / TryClose a no-op, so the descriptor is never released).
func ruleClosedFlagOnlyByClose(w *World, r *Report, rule string) {
	sts := findSafeTypes(w)
	if len(sts) == 0 {
		r.Undecided(rule, "safetypes", "-", "no flag-carrying wrapper found in package streams")
		return
	}
	for _, st := range sts {
		c19WritersRule(w, r, rule, st)
	}
}

// c19OnlyCloseClosesInner: R19.6 — the inner resource of a flag-carrying wrapper is closed by the wrapper's own
// Close and by nothing else. A data-path method that closes it "to be safe" after a failed copy leaves the
// flag down: the owner's Close closes the resource a second time and reports its "already closed" error.
func c19OnlyCloseClosesInner(w *World, r *Report, s safeType) {
	key := "type:" + qualName(s.T) + "|inner-closers"
	var bad []string
	n := 0
	ms := types.NewMethodSet(types.NewPointer(s.T))
	for i := 0; i < ms.Len(); i++ {
		m, ok := ms.At(i).Obj().(*types.Func)
		if !ok || m == s.Close {
			continue
		}
		if rn := recvNamed(m); rn == nil || rn != s.T {
			continue // promoted from the embedded resource
		}
		fn := w.SSAFunc(m)
		if fn == nil || len(fn.Blocks) == 0 {
			continue
		}
		if !m.Exported() && calledOnlyFrom(w, fn, w.SSAFunc(s.Close)) {
			continue // a piece of Close itself (R19.1 counts its close as Close's)
		}
		n++
		for _, g := range staticCone(fn, 1) {
			recvOf := fn
			if g != fn {
				continue // helpers are judged where they take the inner resource as an argument: at the call below
			}
			isInner := func(v ssa.Value) bool { return recvFieldLoad(recvOf, v, s.Flag) }
			for _, c := range callsIn(g) {
				if isCloseOn(w, c, isInner) {
					bad = append(bad, fmt.Sprintf("%s: %s closes the wrapped resource outside Close(): the closed flag stays down, so the owner's Close closes the resource again (and reports its error) and Closed() answers false for a resource that is closed", w.Pos(c.Pos()), ssaFuncKey(g)))
					continue
				}
				// a module helper that closes one of its parameters, handed the inner resource
				if sc := c.Common().StaticCallee(); sc != nil && inModule(sc) && sCallee(c) != w.Func("internal/streams", "LogClose") && sCallee(c) != w.Func("internal/streams", "TryClose") {
					for _, idx := range closesParamIndexes(w, sc) {
						if idx < len(c.Common().Args) && isInner(c.Common().Args[idx]) {
							bad = append(bad, fmt.Sprintf("%s: %s hands the wrapped resource to %s, which closes it, outside Close()", w.Pos(c.Pos()), ssaFuncKey(g), ssaFuncKey(sc)))
						}
					}
				}
			}
		}
	}
	sort.Strings(bad)
	r.Check(len(bad) == 0, "R19.6", key, w.Pos(s.T.Obj().Pos()), fmt.Sprintf("%d other method(s) of the wrapper, none closes the wrapped resource", n), strings.Join(bad, "; "))
}

// fixedArrayCloseLoop: v is `arr[i]` of a local fixed-size array that is filled element by element before a
// `for i := range arr` loop, c (the close of v) runs exactly once in every iteration, and the loop has no exit but
// its head (no break, return or panic in the body) and is itself on every path through the function (its head
// dominates every return). Returns the values stored into the array: each is closed exactly once.
func fixedArrayCloseLoop(fn *ssa.Function, c ssa.CallInstruction, v ssa.Value) ([]ssa.Value, bool) {
	var ia *ssa.IndexAddr
	for _, root := range provenance(v, provOpts{}) {
		if u, ok := root.(*ssa.UnOp); ok && u.Op == token.MUL {
			if x, ok := u.X.(*ssa.IndexAddr); ok {
				ia = x
			}
		}
	}
	if ia == nil {
		return nil, false
	}
	arr, ok := ia.X.(*ssa.Alloc)
	if !ok || arr.Parent() != fn {
		return nil, false
	}
	pt, ok := arr.Type().Underlying().(*types.Pointer)
	if !ok {
		return nil, false
	}
	at, ok := pt.Elem().Underlying().(*types.Array)
	if !ok || at.Len() == 0 || at.Len() > 8 {
		return nil, false
	}
	n := at.Len()
	ci, _ := c.(ssa.Instruction)
	cyc := cycleThrough(ci.Block())
	if cyc == nil {
		return nil, false
	}
	// the element stores: one per constant index, all outside the cycle; no other use of the array but element
	// reads; a composite literal is built in a temporary array and copied over as a whole
	var arrayElems func(arr *ssa.Alloc, depth int) []ssa.Value
	arrayElems = func(arr *ssa.Alloc, depth int) []ssa.Value {
		elems := make([]ssa.Value, n)
		if arr.Referrers() == nil || depth > 2 {
			return nil
		}
		whole := false
		for _, ref := range *arr.Referrers() {
			switch x := ref.(type) {
			case *ssa.DebugRef:
			case *ssa.UnOp:
				// a load of the whole array: only to be copied into another local array (or unused)
				if x.Op != token.MUL {
					return nil
				}
				if x.Referrers() != nil {
					for _, r2 := range *x.Referrers() {
						st, ok := r2.(*ssa.Store)
						if !ok || st.Val != ssa.Value(x) {
							if _, isDbg := r2.(*ssa.DebugRef); isDbg {
								continue
							}
							return nil
						}
						if dst, ok := st.Addr.(*ssa.Alloc); !ok || dst.Parent() != fn {
							return nil
						}
					}
				}
			case *ssa.Store:
				// the whole array assigned from another local array
				if x.Addr != ssa.Value(arr) || whole || cyc[x.Block()] {
					return nil
				}
				ld, ok := x.Val.(*ssa.UnOp)
				if !ok || ld.Op != token.MUL {
					return nil
				}
				src, ok := ld.X.(*ssa.Alloc)
				if !ok || src.Parent() != fn {
					return nil
				}
				el := arrayElems(src, depth+1)
				if el == nil {
					return nil
				}
				whole = true
				copy(elems, el)
			case *ssa.IndexAddr:
				if x.Referrers() == nil {
					continue
				}
				for _, r2 := range *x.Referrers() {
					switch y := r2.(type) {
					case *ssa.Store:
						k, isC := constIntVal(x.Index)
						if y.Addr != ssa.Value(x) || !isC || k < 0 || k >= n || elems[k] != nil || cyc[y.Block()] || whole {
							return nil
						}
						elems[k] = y.Val
					case *ssa.UnOp:
						if y.Op != token.MUL {
							return nil
						}
					case *ssa.DebugRef:
					default:
						return nil
					}
				}
			default:
				return nil
			}
		}
		for _, e := range elems {
			if e == nil {
				return nil
			}
		}
		return elems
	}
	elems := arrayElems(arr, 0)
	if elems == nil {
		return nil, false
	}
	// the index: phi(-1, idx+1)+1 compared with the constant length in the loop head (go/ssa's range-over-array form),
	// or phi(0, idx+1) compared with the length
	head := (*ssa.BasicBlock)(nil)
	for b := range cyc {
		for _, p := range b.Preds {
			if !cyc[p] {
				if head != nil && head != b {
					return nil, false // two entries
				}
				head = b
			}
		}
	}
	if head == nil {
		return nil, false
	}
	// exits only from the head
	for b := range cyc {
		for _, sc := range b.Succs {
			if !cyc[sc] && b != head {
				return nil, false
			}
		}
		if len(b.Instrs) > 0 {
			switch b.Instrs[len(b.Instrs)-1].(type) {
			case *ssa.Return, *ssa.Panic:
				return nil, false
			}
		}
	}
	ifi, ok := head.Instrs[len(head.Instrs)-1].(*ssa.If)
	if !ok {
		return nil, false
	}
	cmp, ok := ifi.Cond.(*ssa.BinOp)
	if !ok || cmp.Op != token.LSS {
		return nil, false
	}
	if k, isC := constIntVal(cmp.Y); !isC || k != n {
		return nil, false
	}
	// cmp.X is the index used by the element read, and it advances by one per iteration from 0
	idxOK := func(x ssa.Value) bool {
		var phi *ssa.Phi
		start := int64(0)
		if b, ok := x.(*ssa.BinOp); ok && b.Op == token.ADD {
			if k, isC := constIntVal(b.Y); isC && k == 1 {
				if p, ok := b.X.(*ssa.Phi); ok {
					phi, start = p, -1
					// phi(-1, x)
					for i, e := range p.Edges {
						if cyc[p.Block().Preds[i]] {
							if e != x {
								return false
							}
						} else if k2, isC2 := constIntVal(e); !isC2 || k2 != start {
							return false
						}
					}
					return true
				}
			}
		}
		if p, ok := x.(*ssa.Phi); ok {
			phi = p
			for i, e := range phi.Edges {
				if cyc[phi.Block().Preds[i]] {
					b, ok := e.(*ssa.BinOp)
					if !ok || b.Op != token.ADD || b.X != ssa.Value(phi) {
						return false
					}
					if k, isC := constIntVal(b.Y); !isC || k != 1 {
						return false
					}
				} else if k2, isC2 := constIntVal(e); !isC2 || k2 != 0 {
					return false
				}
			}
			return true
		}
		return false
	}
	if cmp.X != ia.Index || !idxOK(cmp.X) {
		return nil, false
	}
	// the close runs once per iteration: its block dominates every block of the cycle that jumps back to the head
	for _, p := range head.Preds {
		if cyc[p] && !ci.Block().Dominates(p) && ci.Block() != p {
			return nil, false
		}
	}
	if cycleThroughWithout(ci.Block(), head) {
		return nil, false // an inner loop around the call
	}
	// the loop is on every path: its head dominates every return
	for _, b := range fn.Blocks {
		if len(b.Instrs) == 0 {
			continue
		}
		if _, isRet := b.Instrs[len(b.Instrs)-1].(*ssa.Return); isRet && !head.Dominates(b) {
			return nil, false
		}
	}
	return elems, true
}

// cycleThroughWithout: is there a cycle through b that avoids `avoid`?
func cycleThroughWithout(b, avoid *ssa.BasicBlock) bool {
	seen := map[*ssa.BasicBlock]bool{}
	st := append([]*ssa.BasicBlock(nil), b.Succs...)
	for len(st) > 0 {
		x := st[len(st)-1]
		st = st[:len(st)-1]
		if x == avoid || seen[x] {
			continue
		}
		if x == b {
			return true
		}
		seen[x] = true
		st = append(st, x.Succs...)
	}
	return false
}

// closeHelperOnce: g is an unexported method of the wrapper type that, on every returning path, closes the inner
// resource (a field of its receiver other than the flag) exactly once, never touches the flag, and returns a value
// that derives from that close.
func closeHelperOnce(w *World, g *ssa.Function, s safeType) bool {
	if g == nil || !inModule(g) || len(g.Blocks) == 0 || len(g.Params) == 0 || recvNamed(fnObj(g)) != s.T || fnObj(g) == s.Close {
		return false
	}
	if fo := fnObj(g); fo == nil || fo.Exported() {
		return false
	}
	isInner := func(v ssa.Value) bool { return recvFieldLoad(g, v, s.Flag) }
	all, any := true, false
	okp := enumPaths(g, nil, func(in ssa.Instruction) bool {
		if st, ok := in.(*ssa.Store); ok {
			if fa, ok := st.Addr.(*ssa.FieldAddr); ok && fieldVarOf(fa) == s.Flag {
				return true
			}
		}
		if c, ok := in.(ssa.CallInstruction); ok {
			return isCloseOn(w, c, isInner)
		}
		return false
	}, nil, func(e pathExit) {
		ret, isRet := e.Last.(*ssa.Return)
		if !isRet {
			return
		}
		if len(e.State.Events) != 1 || len(ret.Results) != 1 {
			all = false
			return
		}
		cv, isCall := e.State.Events[0].(ssa.Value)
		if !isCall {
			all = false // a flag store
			return
		}
		derives := false
		for _, root := range provenance(e.State.Resolve(ret.Results[0]), provOpts{}) {
			if root == cv {
				derives = true
			}
		}
		if !derives {
			all = false
		}
		any = true
	})
	return okp && all && any
}

// calledOnlyFrom: every static call of fn in the module stands in `only` (and there is at least one), and fn is
// never used as a value.
func calledOnlyFrom(w *World, fn, only *ssa.Function) bool {
	if fn == nil || only == nil {
		return false
	}
	n := 0
	for _, g := range sortedModuleFuncs(w, w.SSA()) {
		bad := false
		allInstrs(g, func(in ssa.Instruction) {
			if c, ok := in.(ssa.CallInstruction); ok && c.Common().StaticCallee() == fn {
				n++
				if g != only {
					bad = true
				}
				for _, a := range c.Common().Args {
					if a == ssa.Value(fn) {
						bad = true
					}
				}
				return
			}
			for _, op := range in.Operands(nil) {
				if *op == ssa.Value(fn) {
					if c, ok := in.(ssa.CallInstruction); !ok || c.Common().Value != ssa.Value(fn) {
						bad = true
					}
				}
			}
		})
		if bad {
			return false
		}
	}
	return n > 0
}

// isFlagHolderOnly: n has no Close of its own and is embedded by value in some struct type of the package that has.
func isFlagHolderOnly(pkg *types.Package, n *types.Named) bool {
	sc := pkg.Scope()
	for _, nm := range sc.Names() {
		tn, ok := sc.Lookup(nm).(*types.TypeName)
		if !ok {
			continue
		}
		o, ok := tn.Type().(*types.Named)
		if !ok || o == n || declaredMethod(o, "Close") == nil {
			continue
		}
		st, ok := o.Underlying().(*types.Struct)
		if !ok {
			continue
		}
		for i := 0; i < st.NumFields(); i++ {
			if f := st.Field(i); f.Embedded() && f.Type() == types.Type(n) {
				return true
			}
		}
	}
	return false
}

// sharedFlagClose: the flag lives in a struct that several wrappers embed; obj is the Close of one of them (it
// stores the flag of its own receiver: R19.1 judges that path by path).
func sharedFlagClose(w *World, obj *types.Func, flag *types.Var) bool {
	if obj == nil || obj.Name() != "Close" {
		return false
	}
	for _, s := range findSafeTypes(w) {
		if s.Close == obj && s.Flag == flag {
			return true
		}
	}
	return false
}
