package main

// C02, C14, C15, C17 — connection life-cycle rules built on pipes.go (PipeData
// analyses) and accept.go (accept-loop shape).

import (
	"strings"
	"fmt"
	"go/token"
	"go/types"
	"sort"

	"golang.org/x/tools/go/ssa"
)

func init() {
	register("C02", checkC02)
	register("C14", checkC14)
	register("C15", checkC15)
	register("C17", checkC17)
}

// ---------------------------------------------------------------- C02

func checkC02(w *World, r *Report) {
	r.Explanation = "Decides three structural necessary conditions of per-stream independence: (R02.1) neither the server's per-session stream accept loop nor the client's local accept loop runs, synchronously, anything that waits on the accepted stream/connection — otherwise an idle first stream delays every later one; (R02.2) no Channel implementation keeps a connection in its own state and OpenConnection stores nothing into its receiver, so each logical stream dials its own target and bytes cannot cross; (R02.3) per-stream work (OpenStream, protocol selection) is not performed inside the upstream mutex. Not decided: scheduling fairness, smux flow control and its shared receive buffer, the multistream/smux first-frame race (two libraries)."
	r.NotDecided = []string{"scheduling fairness / smux flow control", "order of first frames on a new stream (race inside go-multistream and smux)", "byte isolation inside smux"}
	r.Trusted = []string{"smux delivers each stream's bytes to that stream only", "go-multistream Handle blocks until the handler returns", "calls into libraries are non-blocking unless listed as blocking primitives (reads, handshakes, copies, negotiation)"}
	r.Rule("R02.1", "accept loops never run a handler that waits on the accepted stream/connection synchronously", 2)
	r.Rule("R02.2", "Channel implementations hold no connection state; OpenConnection does not store into its receiver", 2)
	r.Rule("R02.3", "no per-stream open/negotiation inside the upstream mutex", 1)
	r.Rule("R02.4", "every io.CopyBuffer call uses a buffer that is private to that copy", 10)
	r.Rule("R02.5", "only session set-up failure and Shutdown close the shared physical connection", 2)
	r.Rule("R02.7", "the shared smux receive window is not reduced below the library default (one unread connection must not stall the others)", 1)
	ruleSmuxBuffers(w, r, "R02.7")
	r.Rule("R02.6", "every serving goroutine works on the stream accepted for it (no shared re-assigned variable)", 1)

	r.Rule("R02.12", "a deadline armed on the shared session while one logical connection is accepted is disarmed before the session serves the next (else whether connection B can be opened depends on when A was)", 1)
	ruleDeadlinePairing(w, r, "R02.12")
	r.Rule("R02.11", "no type assertion that can panic in the server's per-connection code: a failure of one logical connection (an upstream that cannot be dialled) must not end the process that carries the others", 1)
	ruleNoPanickingAssertionOnPeerPath(w, r, "R02.11", pkgFuncs(w, "/internal/server"), ": the panic is raised on the goroutine of one logical connection, nothing recovers it, and every other logical connection of every session dies with the process")
	r.Rule("R02.10", "the handler of one logical connection never closes the server's shared multiplexer session", 1)
	ruleServerSessionClosers(w, r, "R02.10")
	r.Rule("R02.9", "all logical connections ride one physical session: the session is (re)opened only under the mutex and under a reuse test made while it is held (two sessions on one upstream object cross their streams)", 4)
	ruleSharedSession(w, r, "R02.9", w.Method("internal/client/upstream", "Upstreams", "Connect"), w.Method("internal/client/upstream", "Upstreams", "open"))
	r.Rule("R02.8", "per-connection goroutines keep their state in locals: no store into the object all of them share", 2)
	ruleHandlersKeepStateLocal(w, r, "R02.8")
	ruleAcceptLoopNotOccupied(w, r, "R02.1", map[string]bool{"stream": true}, nil)
	ruleAcceptLoopNotOccupied(w, r, "R02.1", map[string]bool{"listener": true}, func(al acceptLoop) bool {
		return al.Fn.Pkg != nil && al.Fn.Pkg.Pkg.Path() == modPath+"/internal/client/listener"
	})

	// R02.2
	chIface := w.Interface("internal/server", "Channel")
	if chIface == nil {
		r.Undecided("R02.2", "anchor", "-", "anchor unresolved: server.Channel")
	} else {
		netConn := w.ByPath["net"].Types.Scope().Lookup("Conn").Type().Underlying().(*types.Interface)
		rwc := ioIface(w, "ReadWriteCloser")
		for _, n := range w.Implementers(chIface) {
			key := "type:" + qualName(n)
			pos := w.Pos(n.Obj().Pos())
			bad := ""
			var visit func(t types.Type, path string, depth int)
			visit = func(t types.Type, path string, depth int) {
				if depth > 4 {
					return
				}
				st, ok := t.Underlying().(*types.Struct)
				if !ok {
					return
				}
				for i := 0; i < st.NumFields(); i++ {
					f := st.Field(i)
					ft := f.Type()
					if implementsIface(ft, netConn) || implementsIface(ft, rwc) {
						bad = fmt.Sprintf("field %s%s (%s) is a connection kept in the channel object: all logical streams of the channel would share it", path, f.Name(), ft)
					}
					if sl, ok := ft.Underlying().(*types.Slice); ok && (implementsIface(sl.Elem(), netConn) || implementsIface(sl.Elem(), rwc)) {
						bad = fmt.Sprintf("field %s%s caches connections in the channel object", path, f.Name())
					}
					if mp, ok := ft.Underlying().(*types.Map); ok && (implementsIface(mp.Elem(), netConn) || implementsIface(mp.Elem(), rwc)) {
						bad = fmt.Sprintf("field %s%s caches connections in the channel object", path, f.Name())
					}
					if _, isStruct := ft.Underlying().(*types.Struct); isStruct && f.Embedded() {
						visit(ft, path+f.Name()+".", depth+1)
					}
				}
			}
			visit(n, "", 0)
			m := methodOf(n, "OpenConnection")
			if fn := w.SSAFunc(m); fn != nil && bad == "" {
				allInstrs(fn, func(in ssa.Instruction) {
					if st, ok := in.(*ssa.Store); ok {
						if fa, ok := st.Addr.(*ssa.FieldAddr); ok {
							base := fa.X
							for {
								if fa2, ok := base.(*ssa.FieldAddr); ok {
									base = fa2.X
									continue
								}
								break
							}
							if len(fn.Params) > 0 && base == fn.Params[0] {
								bad = fmt.Sprintf("%s: OpenConnection stores into its receiver (state shared by all logical streams of the channel)", w.Pos(st.Pos()))
							}
						}
					}
				})
			}
			r.Check(bad == "", "R02.2", key, pos, "no connection-typed field; OpenConnection leaves the receiver untouched", bad)
		}
	}

	// R02.4 copy buffers are private to one copier
	ruleFreshCopyBuffers(w, r, "R02.4")
	// R02.5 a failure of one logical stream never closes the shared physical session
	ruleSharedSessionClosers(w, r, "R02.5")
	// R02.6 each serving goroutine gets the stream/connection of its own iteration
	ruleLoopVarEscape(w, r, "R02.6", connPkgs, "logical connections stop being independent: the goroutine of one stream picks up the next stream accepted by the loop")

	// R02.3
	conn := w.Method("internal/client/upstream", "Upstreams", "Connect")
	connFn := w.SSAFunc(conn)
	if connFn == nil {
		r.Undecided("R02.3", "method:(*upstream.Upstreams).Connect", "-", "anchor unresolved")
		return
	}
	// the critical section may live in Connect itself or in a helper it calls
	var fn *ssa.Function
	var lock ssa.Instruction
	for _, g := range staticCone(connFn, 2) {
		for _, c := range callsIn(g) {
			if _, isDefer := c.(*ssa.Defer); isDefer {
				continue
			}
			if (isMethod(sCallee(c), "sync", "Mutex", "Lock") || isMethod(sCallee(c), "sync", "RWMutex", "Lock")) && lock == nil {
				lock, fn = c, g
			}
		}
	}
	_ = fn
	key := "method:(*client/upstream.Upstreams).Connect|critical-section"
	if lock == nil {
		r.Violate("R02.3", key, w.Pos(conn.Pos()), "Upstreams.Connect no longer takes the mutex (see C16 R16.3)")
		return
	}
	isUnlock := func(in ssa.Instruction) bool {
		c, ok := in.(ssa.CallInstruction)
		if !ok {
			return false
		}
		if _, isD := in.(*ssa.Defer); isD {
			return false
		}
		return isMethod(sCallee(c), "sync", "Mutex", "Unlock") || isMethod(sCallee(c), "sync", "RWMutex", "Unlock")
	}
	perStream := func(c ssa.CallInstruction) string {
		f := sCallee(c)
		if isMethod(f, "github.com/xtaci/smux", "Session", "OpenStream") || isMethod(f, "github.com/xtaci/smux", "Session", "Open") {
			return "(*smux.Session).OpenStream"
		}
		if f != nil && f.Pkg() != nil && f.Pkg().Path() == "github.com/multiformats/go-multistream" && (f.Name() == "SelectProtoOrFail" || f.Name() == "SelectOneOf") {
			return "multistream." + f.Name()
		}
		return ""
	}
	bad := ""
	ncalls := 0
	// walk the region reachable from Lock without passing Unlock
	seenB := map[*ssa.BasicBlock]bool{}
	var region []ssa.Instruction
	var walkFrom func(b *ssa.BasicBlock, i int)
	walkFrom = func(b *ssa.BasicBlock, i int) {
		for ; i < len(b.Instrs); i++ {
			if isUnlock(b.Instrs[i]) {
				return
			}
			region = append(region, b.Instrs[i])
		}
		for _, s := range b.Succs {
			if !seenB[s] {
				seenB[s] = true
				walkFrom(s, 0)
			}
		}
	}
	walkFrom(lock.Block(), instrIndex(lock)+1)
	for _, in := range region {
		c, ok := in.(ssa.CallInstruction)
		if !ok {
			continue
		}
		ncalls++
		if p := perStream(c); p != "" {
			bad = fmt.Sprintf("%s: %s under the upstream mutex", w.Pos(c.Pos()), p)
		}
		if sc := c.Common().StaticCallee(); sc != nil && inModule(sc) {
			if chain := coneFinds(w, sc, perStream, map[*ssa.Function]bool{}, 0); chain != nil {
				bad = fmt.Sprintf("%s: call under the upstream mutex reaches per-stream work %v: one stream's negotiation serialises all others", w.Pos(c.Pos()), chain)
			}
		}
	}
	r.Check(bad == "", "R02.3", key, w.Pos(lock.Pos()), fmt.Sprintf("%d call(s) in the critical section, none reaches OpenStream / protocol selection", ncalls), bad, "calls_in_section", ncalls)
}

// coneFinds searches fn's synchronous module-internal call cone for a call
// matching pred.
func coneFinds(w *World, fn *ssa.Function, pred func(ssa.CallInstruction) string, seen map[*ssa.Function]bool, depth int) []string {
	if fn == nil || seen[fn] || depth > 12 {
		return nil
	}
	seen[fn] = true
	for _, c := range callsIn(fn) {
		if p := pred(c); p != "" {
			return []string{ssaFuncKey(fn), p}
		}
	}
	for _, c := range callsIn(fn) {
		if _, isGo := c.(*ssa.Go); isGo {
			continue
		}
		if sc := c.Common().StaticCallee(); sc != nil && inModule(sc) {
			if chain := coneFinds(w, sc, pred, seen, depth+1); chain != nil {
				return append([]string{ssaFuncKey(fn)}, chain...)
			}
		}
	}
	return nil
}

// ---------------------------------------------------------------- C14

func checkC14(w *World, r *Report) {
	r.Explanation = "Decides the structural conditions without which finished connections leave residue: (R14.1) a goroutine that reports completion on a channel can always deliver its report (capacity + guaranteed receives >= sends) — otherwise one goroutine and both sockets are pinned per finished connection; (R14.2) after streams.PipeData returns, both ends are closed on every path (inside PipeData or by each caller / its defers / its callers); (R14.3) the per-session stream accept loop cannot spin on a dead session: after a failed AcceptStream no path returns to AcceptStream without a return, a session-liveness test or a back-off. Not decided: actual goroutine/descriptor/CPU counts, library goroutines (smux, kcp), growth measurements."
	r.NotDecided = []string{"measured goroutine / descriptor / CPU footprint", "library-internal goroutines (smux keep-alive, kcp)", "carrier left open after a failed socketace handshake (string-matched idiom, observed only)"}
	r.Trusted = []string{"smux.AcceptStream returns io.ErrClosedPipe / the socket error immediately and forever once the session is dead (read in smux v1.5.14 session.go)", "a `select` over several channels consumes exactly one of them"}
	r.Rule("R14.1", "completion-report channels never block their sender forever", 2)
	r.Rule("R14.2", "both ends closed after PipeData on every path (3 call sites)", 3)
	r.Rule("R14.3", "stream accept loop terminates with the session (no error spin)", 1)
	r.Rule("R14.4", "per-connection handlers close what they accepted", 2)
	r.Rule("R14.6", "a wrapper is marked closed only by its Close (else later closes are skipped and the descriptor leaks)", 4)
	r.Rule("R14.9", "every Lock in the client's upstream and listener code and in the server package is released on every path out of the function (a failed reconnect that returns with the upstream mutex held parks every later logical connection for good)", 2)
	ruleLockPairing(w, r, "R14.9", pkgFuncs(w, "/internal/client/upstream", "/internal/client/listener", "/internal/server"))
	r.Rule("R14.11", "closing a DNS connection closes its in-queue: a Read blocked on it (the multiplexer's receive loop) is released, not left behind per ended session", 2)
	c14CloseWakesBlockedReaders(w, r)
	r.Rule("R14.10", "Close of a connection object closes the carrier it owns on every returning path, unless the object was found closed already (a failed goodbye must not keep the socket)", 3)
	c14CloseReleasesCarrierOnEveryPath(w, r)
	r.Rule("R14.8", "AcceptConnection closes the carrier on every failing return, unless the error says the carrier is closed already (a peer that left is not a closed carrier)", 1)
	c14AcceptFailureClosesCarrier(w, r)
	r.Rule("R14.7", "Close of a carrier wrapper never waits for the peer without a bound (goodbye frames and flushes need a deadline)", 5)
	ruleCloseDoesNotWaitForPeer(w, r, "R14.7")
	ruleClosedFlagOnlyByClose(w, r, "R14.6")
	r.Rule("R14.5", "no orphaned physical session: the shared connection/session are replaced only under the mutex and only after a reuse test made under it", 4)
	ruleSharedSession(w, r, "R14.5", w.Method("internal/client/upstream", "Upstreams", "Connect"), w.Method("internal/client/upstream", "Upstreams", "open"))
	ruleR14_1(w, r)
	ruleBothEndsClosed(w, r, "R14.2")
	ruleAcceptErrorSpin(w, r, "R14.3")
	c14Handlers(w, r)
}

// c14Handlers: R14.4 — the per-connection handlers close what they were given:
// the client's HandleConnection closes the accepted local connection on every
// path (or has handed it to a PipeData that closes both ends), and the server's
// per-stream handler closes the stream when it returns (deferred).
func c14Handlers(w *World, r *Report) {
	pd := w.Func("internal/streams", "PipeData")
	// client
	hc := w.SSAFunc(w.Method("internal/client/listener", "AbstractListener", "HandleConnection"))
	cd := w.Method("internal/client/listener", "AbstractListener", "ConnectDirectly")
	key := "method:(*client/listener.AbstractListener).HandleConnection|closes-local"
	if hc == nil || len(hc.Params) < 2 {
		r.Undecided("R14.4", key, "-", "anchor unresolved")
	} else {
		conn := hc.Params[1]
		bad := ""
		npaths := 0
		isEv := func(in ssa.Instruction) bool {
			c, ok := in.(ssa.CallInstruction)
			if !ok {
				return false
			}
			if _, isGo := in.(*ssa.Go); isGo {
				return false
			}
			return closeTarget(w, c) != nil || sCallee(c) == cd || sCallee(c) == pd
		}
		enumPaths(hc, nil, isEv, nil, func(e pathExit) {
			if _, ok := e.Last.(*ssa.Return); !ok {
				return
			}
			npaths++
			closed := false
			for _, ev := range e.State.Events {
				c := ev.(ssa.CallInstruction)
				for _, t := range closeTargetsAll(w, c) {
					for _, root := range rootsOf(w, t) {
						if root == ssa.Value(conn) {
							closed = true
						}
					}
				}
				if sCallee(c) == cd {
					// direct forward took the connection: ConnectDirectly returned true on this path
					if cv, ok := ev.(ssa.Value); ok {
						if t, known := e.State.Truth(cv); known && t {
							closed = true // closed by PipeData inside ConnectDirectly (R14.2)
						}
					}
				}
			}
			if !closed {
				bad = "a path through HandleConnection returns without closing the accepted local connection (leaked descriptor per failed connection)"
			}
		})
		r.Check(bad == "" && npaths > 0, "R14.4", key, w.Pos(hc.Pos()), fmt.Sprintf("%d returning path(s), each closes the local connection or handed it to the direct pipe", npaths), bad)
	}
	// server: per-stream handler defers the close of its stream
	mu := w.SSAFunc(w.Method("internal/server", "ConnectionHandler", "multiplexToUpstream"))
	key = "method:(*server.ConnectionHandler).multiplexToUpstream|closes-stream"
	if mu == nil || len(mu.Params) < 2 {
		r.Undecided("R14.4", key, "-", "anchor unresolved")
		return
	}
	cl, _, ok := closedOnAllPaths(w, mu, nil, []ssa.Value{mu.Params[1]})
	r.Check(ok && cl[0], "R14.4", key, w.Pos(mu.Pos()), "the accepted stream is closed on every path out of its handler", "the per-stream handler can return without closing the accepted stream (the peer never sees the end of a refused or failed logical connection)")
}

// ---------------------------------------------------------------- C15

func checkC15(w *World, r *Report) {
	r.Explanation = "Decides the accept-loop shape behind 'one stalled peer delays only itself': in every listener accept loop of package server the call that performs the peer's handshake (AcceptConnection -> NewServerConnection -> blocking header read / TLS handshake) is not synchronous inside the loop, and the loop itself performs no read on the accepted connection; (R15.2) no function of the server/stream packages calls, while holding a mutex field, anything that locks the same field again (static callees, interface implementers, functions stored in func-typed fields) — a self-deadlock in the DNS listener's pruner wedges the user table for every later peer. HttpServer's handler runs on net/http's per-request goroutine (trusted); IoServer has a single peer. Not decided: fairness under load, lazy TLS accept inside tls.Listen, time bounds."
	r.NotDecided = []string{"fairness under load", "time bounds", "crypto/tls lazy handshake behaviour of tls.Listen"}
	r.Trusted = []string{"net/http serves each request on its own goroutine", "calls into libraries are non-blocking unless listed as blocking primitives"}
	r.Rule("R15.1", "server listener accept loops hand the peer handshake to a goroutine", 2)
	r.Rule("R15.2", "no server-side goroutine re-locks a mutex it already holds (one stale peer must not wedge the user table)", 1)
	r.Rule("R15.4", "the websocket router carries no middleware that bounds the number or the duration of requests (a request lasts as long as its session)", 1)
	ruleRouterMiddleware(w, r, "R15.4")
	r.Rule("R15.3", "nothing waits for a peer while the table of all DNS peers is locked", 1)
	ruleNoWaitUnderLock(w, r, "R15.3", func(m *types.Var) bool {
		// the mutex of the table of all DNS peers (a mutex field of the listener object), or of a server object
		return strings.HasSuffix(fieldOwner(m), ".ServerDnsListener") || strings.HasPrefix(fieldOwner(m), "server.")
	}, "every other peer that needs this lock (new sessions, closes, the pruner) waits as long as this one peer chooses")
	r.Rule("R15.9", "Close of a carrier wrapper never writes to the peer without a bound (a peer that stopped reading holds the closing goroutine, and a second unsynchronised writer on a websocket)", 5)
	ruleCloseDoesNotWaitForPeer(w, r, "R15.9")
	r.Rule("R15.8", "a listener's accept loop is left only on the server's shutdown flag or a closed listener, never on a classification of an Accept error", 1)
	c15ListenerLoopSurvivesAcceptErrors(w, r)
	r.Rule("R15.7", "no byte sequence of one peer's handshake can panic the process that serves all the others: every index / slice expression of the handshake parsers is proven in bounds", 2)
	ruleHandshakeBounds(w, r, "R15.7")
	r.Rule("R15.6", "every Lock in the DNS endpoint is released on every path out of the function (an early return with the table lock held locks out every other peer for good)", 10)
	ruleLockPairing(w, r, "R15.6", dnsPkgFuncs(w))
	r.Rule("R15.5", "no answer is written to a peer, and nothing else waits for one, while a lock shared by all peers of a DNS endpoint is held", 1)
	lockPeerWrites = true
	ruleNoWaitUnderLock(w, r, "R15.5", func(m *types.Var) bool {
		o := fieldOwner(m)
		return strings.HasSuffix(o, ".NetConnectionServerCommunicator") || strings.HasSuffix(o, ".ServerDnsListener")
	}, "a DNS-over-TCP peer that does not drain its answers holds the endpoint's lock: every other peer's handshake and data wait for it")
	lockPeerWrites = false
	ruleNoReentrantLock(w, r, "R15.2", func(p string) bool {
		return p == modPath+"/internal/server" || strings.HasPrefix(p, modPath+"/internal/streams")
	})
	ruleAcceptLoopNotOccupied(w, r, "R15.1", map[string]bool{"listener": true}, func(al acceptLoop) bool {
		return al.Fn.Pkg != nil && al.Fn.Pkg.Pkg.Path() == modPath+"/internal/server"
	})
	// Every server kind's accept path is covered: list Server implementers and how they accept
	srvI := w.Interface("internal/server", "Server")
	if srvI == nil {
		r.Undecided("R15.1", "anchor", "-", "anchor unresolved: server.Server")
		return
	}
	loops := findAcceptLoops(w)
	for _, n := range w.Implementers(srvI) {
		st := methodOf(n, "Startup")
		if st == nil {
			continue
		}
		key := "type:" + qualName(n) + "|accept-path"
		// does Startup's cone contain an accept loop?
		fn := w.SSAFunc(st)
		if fn == nil {
			continue
		}
		found := ""
		seen := map[*ssa.Function]bool{}
		var walk func(f *ssa.Function, d int)
		walk = func(f *ssa.Function, d int) {
			if f == nil || seen[f] || d > 6 || !inModule(f) {
				return
			}
			seen[f] = true
			for _, al := range loops {
				if al.Fn == f {
					found = ssaFuncKey(f)
				}
			}
			for _, c := range callsIn(f) {
				if sc := c.Common().StaticCallee(); sc != nil {
					walk(sc, d+1)
				}
				if mc, ok := c.Common().Value.(*ssa.MakeClosure); ok {
					walk(mc.Fn.(*ssa.Function), d+1)
				}
			}
			for _, a := range f.AnonFuncs {
				walk(a, d+1)
			}
		}
		walk(fn, 0)
		if found != "" {
			r.Hold("R15.1", key, w.Pos(st.Pos()), "accepts peers through the loop in "+found+" (checked above)")
		} else {
			r.Hold("R15.1", key, w.Pos(st.Pos()), "no accept loop of its own: peers arrive through a library (net/http per-request goroutine, miekg/dns via its embedded socket server) or there is a single peer (stdio)")
		}
	}
}

// ---------------------------------------------------------------- C17

func checkC17(w *World, r *Report) {
	r.Explanation = "Decides the ordering facts behind 'all data, then end-of-stream': (R17.1) in PipeData no connection is closed before a copier has reported completion, and a copier reports io.EOF (the orderly-end marker) exactly once, after io.Copy*, only when the copy returned nil; (R17.2 = R14.2) both ends are closed after the pipe ends so neither side is left hanging; (R17.3) the DNS tunnel's Read methods return io.EOF only when the in-queue has no buffered data, and the DNS client's Close sends the final acknowledgement and the Closed option before closing its communicator. Not decided: timing, half-close, smux FIN ordering, waking a reader already blocked in the DNS in-queue."
	r.NotDecided = []string{"time bounds", "half-close semantics", "smux FIN ordering (library)", "a Read already blocked in the DNS in-queue is not woken by Close (observed, no idiom-independent rule)"}
	r.Trusted = []string{"io.Copy/io.CopyBuffer return nil only after the source reported EOF and everything read was written"}
	r.Rule("R17.1", "close only after the copy into that side finished; EOF reported only after a clean copy", 2)
	r.Rule("R17.2", "both ends closed after PipeData on every path", 3)
	r.Rule("R17.3", "DNS end-of-stream only after buffered data; client Close notifies the server first", 3)
	r.Rule("R17.7", "every Write reports the full count on success (a short count aborts io.Copy and cuts the transfer)", 4)
	c01WriteCountsRule(w, r, "R17.7")
	r.Rule("R17.8", "a deadline armed on a connection is disarmed in both directions before the connection lives on as a session (a left-over write deadline loses the target's answer and the end-of-stream)", 1)
	ruleDeadlinePairing(w, r, "R17.8")
	r.Rule("R17.13", "the smux receive window, which all logical connections of a session share, is not reduced below the library default (one unread connection keeps the others from ever seeing their end-of-stream)", 1)
	ruleSmuxBuffers(w, r, "R17.13")
	r.Rule("R17.12", "every serving goroutine works on the stream accepted for it: a failure of one logical connection closes its own stream, never the one accepted last", 1)
	ruleLoopVarEscape(w, r, "R17.12", connPkgs, "the error path of one connection closes whichever stream the shared variable holds then — a healthy connection gets end-of-stream without the data still due")
	r.Rule("R17.11", "sequence and ack numbers of the DNS carrier are used only in wrap-safe ways (a transfer that crosses 65536 chunks still drains and ends)", 6)
	ruleWrapSafe(w, r, "R17.11", dnsPkgFuncs(w))
	r.Rule("R17.10", "a websocket read limit, if any, admits the largest message the tunnel's own Write sends (else a bulk transfer ends in what looks like a clean end-of-stream)", 1)
	ruleWsReadLimit(w, r, "R17.10")
	r.Rule("R17.9", "no connection is closed abortively: SO_LINGER is left at the system default everywhere", 1)
	ruleNoAbortiveClose(w, r, "R17.9")
	r.Rule("R17.6", "after the first copier reported, no close waits for the second report", 1)
	r.Rule("R17.5", "a reader+writer pair closes its write half on every path (the peer's end-of-stream)", 1)
	r.Rule("R17.4", "open transfers are not cut by another logical connection's failure (who may close the shared session)", 2)
	ruleR17_1(w, r)
	ruleBothEndsClosed(w, r, "R17.2")
	ruleSharedSessionClosers(w, r, "R17.4")
	rulePairClosesBothHalves(w, r, "R17.5")

	eofVar := w.ByPath["io"].Types.Scope().Lookup("EOF")
	hasData := w.Method("internal/streams/dns/util", "InQueue", "HasData")
	for _, tm := range [][2]string{{"userConnection", "Read"}, {"ClientDnsConnection", "Read"}} {
		m := w.Method("internal/streams/dns", tm[0], tm[1])
		key := "method:(*streams/dns." + tm[0] + ").Read|eof"
		fn := w.SSAFunc(m)
		if fn == nil || hasData == nil {
			r.Undecided("R17.3", key, "-", "anchor unresolved")
			continue
		}
		bad := ""
		neof := 0
		ok := enumPaths(fn, nil, nil, nil, func(e pathExit) {
			ret, isRet := e.Last.(*ssa.Return)
			if !isRet || len(ret.Results) != 2 {
				return
			}
			ev := e.State.Resolve(ret.Results[1])
			isEOF := false
			if u, ok := ev.(*ssa.UnOp); ok && u.Op == token.MUL {
				if g, ok := u.X.(*ssa.Global); ok && g.Object() == eofVar {
					isEOF = true
				}
			}
			if !isEOF {
				return
			}
			neof++
			fine := false
			for v, t := range e.State.Facts {
				if c, ok := v.(*ssa.Call); ok && sCallee(c) == hasData && !t {
					fine = true
				}
			}
			if !fine {
				bad = "io.EOF is returned on a path where the in-queue was not observed empty (HasData()==false): data received before the close is dropped"
			}
		})
		if !ok {
			r.Undecided("R17.3", key, w.Pos(m.Pos()), "path budget exceeded")
			continue
		}
		r.Check(bad == "", "R17.3", key, w.Pos(m.Pos()), fmt.Sprintf("%d EOF return path(s), each under HasData()==false", neof), bad, "eof_paths", neof)
	}
	// client Close ordering
	m := w.Method("internal/streams/dns", "ClientDnsConnection", "Close")
	key := "method:(*streams/dns.ClientDnsConnection).Close|notify-before-close"
	fn := w.SSAFunc(m)
	if fn == nil {
		r.Undecided("R17.3", key, "-", "anchor unresolved")
		return
	}
	sar := w.Method("internal/streams/dns", "ClientDnsConnection", "SendAndReceive")
	qry := w.Method("internal/streams/dns", "ClientDnsConnection", "Query")
	kindOf := func(in ssa.Instruction) string {
		c, ok := in.(ssa.CallInstruction)
		if !ok {
			return ""
		}
		f := sCallee(c)
		switch {
		case f == nil:
			return ""
		case f == sar:
			return "ack"
		case f == qry:
			return "closed-option"
		case f.Name() == "Close" && c.Common().IsInvoke():
			return "close"
		}
		return ""
	}
	// helpers of Close (same receiver) are summarised by the event sequences of their return paths
	helperSeqs := map[*ssa.Function][][]string{}
	var summarise func(g *ssa.Function, depth int) [][]string
	isEvIn := func(depth int) func(in ssa.Instruction) bool {
		return func(in ssa.Instruction) bool {
			if kindOf(in) != "" {
				return true
			}
			if c, ok := in.(*ssa.Call); ok && depth < 2 {
				if sc := c.Call.StaticCallee(); sc != nil && inModule(sc) && recvNamed(fnObj(sc)) == recvNamed(m) && fnObj(sc) != sar && fnObj(sc) != qry {
					return len(summarise(sc, depth+1)) > 0
				}
			}
			return false
		}
	}
	expand := func(events []ssa.Instruction, depth int) [][]string {
		seqs := [][]string{{}}
		for _, evn := range events {
			if k := kindOf(evn); k != "" {
				for i := range seqs {
					seqs[i] = append(seqs[i], k)
				}
				continue
			}
			sub := summarise(evn.(*ssa.Call).Call.StaticCallee(), depth+1)
			var next [][]string
			for _, a := range seqs {
				for _, b := range sub {
					next = append(next, append(append([]string{}, a...), b...))
				}
			}
			if len(next) > 64 {
				next = next[:64]
			}
			seqs = next
		}
		return seqs
	}
	summarise = func(g *ssa.Function, depth int) [][]string {
		if v, ok := helperSeqs[g]; ok {
			return v
		}
		helperSeqs[g] = nil
		seen := map[string]bool{}
		var out [][]string
		enumPaths(g, nil, isEvIn(depth), nil, func(e pathExit) {
			if _, isRet := e.Last.(*ssa.Return); !isRet {
				return
			}
			for _, sq := range expand(e.State.Events, depth) {
				k := strings.Join(sq, ",")
				if !seen[k] {
					seen[k] = true
					out = append(out, sq)
				}
			}
		})
		nonEmpty := false
		for _, sq := range out {
			if len(sq) > 0 {
				nonEmpty = true
			}
		}
		if !nonEmpty {
			out = nil
		}
		helperSeqs[g] = out
		return out
	}
	isEv := isEvIn(0)
	bad := ""
	paths, notified := 0, 0
	ok := enumPaths(fn, nil, isEv, nil, func(e pathExit) {
		if _, isRet := e.Last.(*ssa.Return); !isRet {
			return
		}
		paths++
		for _, seq := range expand(e.State.Events, 0) {
			c17CloseSeq(e, seq, &bad, &notified)
		}
	})
	if !ok {
		r.Undecided("R17.3", key, w.Pos(m.Pos()), "path budget exceeded")
		return
	}
	if notified == 0 {
		bad = "no path through Close sends the final acknowledgement and the Closed option"
	}
	r.Check(bad == "", "R17.3", key, w.Pos(m.Pos()), fmt.Sprintf("%d path(s); %d notify (ack, then Closed option) before closing the communicator, the rest are already-closed / pre-handshake", paths, notified), bad, "paths", paths)
}

func c17CloseSeq(e pathExit, seq []string, badp *string, notifiedp *int) {
	bad, notified := *badp, *notifiedp
	defer func() { *badp, *notifiedp = bad, notified }()
	{
		if len(seq) == 0 || seq[len(seq)-1] != "close" {
			bad = "a path through Close does not close the communicator"
			return
		}
		hasAck, hasOpt := false, false
		for _, s := range seq[:len(seq)-1] {
			if s == "ack" {
				hasAck = true
			}
			if s == "closed-option" {
				hasOpt = true
			}
			if s == "close" {
				bad = "communicator closed before the server was notified"
			}
		}
		if hasAck && hasOpt {
			notified++
			return
		}
		// the skip must be justified by the guard (already closed or handshake incomplete)
		guard := false
		for v, t := range e.State.Facts {
			if c, ok := v.(*ssa.Call); ok && sCallee(c) != nil && sCallee(c).Name() == "Closed" && t {
				guard = true
			}
			if _, eq, ok := nilTest(v); ok && (t == eq) {
				guard = true // QueryType == nil
			}
		}
		if !guard {
			bad = "Close skips the final acknowledgement / Closed option although the session is live"
		}
	}
}

// ruleFreshCopyBuffers: the scratch buffer handed to io.CopyBuffer must be
// allocated for that copy (make in the same function, or in the caller that
// passes it down to exactly that copier), never taken from a pool, a global
// or a field: two concurrent copiers sharing a buffer leak one connection's
// bytes into another.
func ruleFreshCopyBuffers(w *World, r *Report, rule string) {
	var fns []*ssa.Function
	for _, fn := range sortedModuleFuncs(w, w.SSA()) {
		fns = append(fns, fn)
	}
	sort.Slice(fns, func(i, j int) bool { return fns[i].Pos() < fns[j].Pos() })
	var fresh func(v ssa.Value, fn *ssa.Function, depth int) (bool, string)
	fresh = func(v ssa.Value, fn *ssa.Function, depth int) (bool, string) {
		for _, root := range provenance(v, provOpts{}) {
			switch x := root.(type) {
			case *ssa.MakeSlice:
			case *ssa.Const:
				if !x.IsNil() {
					return false, "constant"
				}
			case *ssa.Slice:
				if _, ok := x.X.(*ssa.Alloc); !ok {
					return false, "re-slice of " + x.X.String()
				}
			case *ssa.Parameter:
				if depth > 2 {
					return false, "buffer parameter passed down too deep"
				}
				idx := paramIndex(fn, x)
				obj := fnObj(fn)
				n := 0
				for _, caller := range fns {
					for _, c := range callsIn(caller) {
						if obj == nil || c.Common().StaticCallee() != fn {
							continue
						}
						n++
						// a buffer created by the caller must go to one copier only
						arg := c.Common().Args[idx]
						if ok, why := fresh(arg, caller, depth+1); !ok {
							return false, why
						}
						uses := 0
						if refs := arg.Referrers(); refs != nil {
							for _, ref := range *refs {
								if _, isCall := ref.(ssa.CallInstruction); isCall {
									uses++
								}
							}
						}
						if uses > 1 {
							return false, "the same buffer is handed to more than one copier"
						}
					}
				}
				if n == 0 {
					return false, "buffer comes from an unknown caller"
				}
			default:
				return false, fmt.Sprintf("buffer comes from %s", root.String())
			}
		}
		return true, ""
	}
	for _, fn := range fns {
		ord := 0
		for _, c := range callsIn(fn) {
			if !isPkgFunc(sCallee(c), "io", "CopyBuffer") {
				continue
			}
			key := fmt.Sprintf("call:io.CopyBuffer@%s#%d", ssaFuncKey(fn), ord)
			ord++
			ok, why := fresh(c.Common().Args[2], fn, 0)
			r.Check(ok, rule, key, w.Pos(c.Pos()), "scratch buffer is allocated for this copy", "the copy's scratch buffer is not private to it ("+why+"): while one logical connection's copier is still running, another connection can be handed the same memory and its peer receives foreign bytes")
		}
	}
}

// ruleSharedSessionClosers: who may close Upstreams.connection / .session.
func ruleSharedSessionClosers(w *World, r *Report, rule string) {
	_ = w.Named("internal/client/upstream", "Upstreams")
	_, connF, sessF := upstreamsSharedFields(w)
	if connF == nil || sessF == nil {
		r.Undecided(rule, "type:client/upstream.Upstreams", "-", "anchor unresolved")
		return
	}
	n := 0
	for _, fn := range sortedModuleFuncs(w, w.SSA()) {
		for _, c := range callsIn(fn) {
			t := closeTarget(w, c)
			if t == nil {
				continue
			}
			var fld *types.Var
			for _, root := range rootsOf(w, t) {
				if isLoadOfField(root, connF) {
					fld = connF
				}
				if isLoadOfField(root, sessF) {
					fld = sessF
				}
			}
			if fld == nil {
				continue
			}
			n++
			key := fmt.Sprintf("close:Upstreams.%s@%s", fld.Name(), ssaFuncKey(fn))
			shutdown := w.Method("internal/client/upstream", "Upstreams", "Shutdown")
			if onlyFromShutdown(w, fn, shutdown, 0) {
				r.Hold(rule, key, w.Pos(c.Pos()), "closed on behalf of Shutdown only")
				continue
			}
			// session set-up failure: in the function that creates the multiplexer, on its error edge
			okc := false
			for _, c2 := range callsIn(fn) {
				call, isCall := c2.(*ssa.Call)
				if !isCall {
					continue
				}
				f := sCallee(c2)
				if f == nil || f.Pkg() == nil || f.Pkg().Path() != "github.com/xtaci/smux" || f.Name() != "Client" {
					continue
				}
				var errv ssa.Value
				for _, ref := range *call.Referrers() {
					if ex, ok := ref.(*ssa.Extract); ok && ex.Index == 1 {
						errv = ex
					}
				}
				if errv != nil && dominatedByErrNonNil(fn, c, errv) {
					okc = true
				}
			}
			if okc {
				r.Hold(rule, key, w.Pos(c.Pos()), "closed only when the multiplexer session could not be created")
				continue
			}
			r.Violate(rule, key, w.Pos(c.Pos()), "the physical connection shared by all logical connections is closed by "+ssaFuncKey(fn)+" (not on behalf of Shutdown, not on a failed session set-up): a failure that concerns one logical connection (e.g. a refused channel) cuts every other transfer in flight")
		}
	}
	if n == 0 {
		r.Undecided(rule, "close:Upstreams.*", "-", "no close of the shared connection found (Shutdown changed?)")
	}
	// Shutdown itself is the process-level teardown: only the command layer may call it. A call from the
	// connection path (Connect / openStream / a listener) makes one logical connection's failure close the
	// session of all the others.
	shutdown := w.Method("internal/client/upstream", "Upstreams", "Shutdown")
	if shutdown == nil {
		r.Undecided(rule, "callers:Upstreams.Shutdown", "-", "anchor unresolved: Upstreams.Shutdown")
		return
	}
	ncall := 0
	bad := ""
	for _, fn := range sortedModuleFuncs(w, w.SSA()) {
		for _, c := range callsIn(fn) {
			if sCallee(c) != shutdown {
				continue
			}
			ncall++
			f0 := fn
			for f0.Parent() != nil {
				f0 = f0.Parent()
			}
			pkg := ""
			if f0.Pkg != nil {
				pkg = f0.Pkg.Pkg.Path()
			}
			// resetting is fine where the shared session/connection is known dead already
			deadTest := func(v ssa.Value) bool {
				call, ok := v.(*ssa.Call)
				if !ok {
					return false
				}
				name := ""
				var recv ssa.Value
				if call.Call.IsInvoke() {
					name, recv = call.Call.Method.Name(), call.Call.Value
				} else if f := sCallee(call); f != nil && len(call.Call.Args) > 0 {
					name, recv = f.Name(), call.Call.Args[0]
				}
				if name != "IsClosed" && name != "Closed" {
					return false
				}
				for _, root := range provenance(recv, provOpts{}) {
					if isLoadOfField(root, connF) || isLoadOfField(root, sessF) {
						return true
					}
				}
				return false
			}
			if ci, ok := c.(ssa.Instruction); ok && dominatedByCond(fn, ci, deadTest, true) {
				continue
			}
			if strings.HasPrefix(pkg, modPath+"/internal/client") {
				bad = fmt.Sprintf("%s: %s calls Upstreams.Shutdown from the connection path: a failure that concerns one logical connection (a refused channel name is answered on a healthy session) closes the physical session under every other transfer in flight", w.Pos(c.Pos()), ssaFuncKey(fn))
			}
		}
	}
	r.Check(bad == "", rule, "callers:Upstreams.Shutdown", w.Pos(shutdown.Pos()), fmt.Sprintf("%d call site(s) of Upstreams.Shutdown, none in the client's connection path", ncall), bad)
}

// onlyFromShutdown: fn is the Shutdown method, a closure inside it, or a
// function all of whose call sites are (transitively) in such functions.
func onlyFromShutdown(w *World, fn *ssa.Function, shutdown *types.Func, depth int) bool {
	if fn == nil || depth > 3 {
		return false
	}
	f0 := fn
	for f0.Parent() != nil {
		f0 = f0.Parent()
	}
	if fnObj(f0) == shutdown && shutdown != nil {
		return true
	}
	obj := fnObj(fn)
	if obj == nil {
		return false
	}
	n := 0
	for _, caller := range sortedModuleFuncs(w, w.SSA()) {
		for _, c := range callsIn(caller) {
			if sCallee(c) == obj && !c.Common().IsInvoke() {
				n++
				if !onlyFromShutdown(w, caller, shutdown, depth+1) {
					return false
				}
			}
		}
	}
	return n > 0
}

// onlyCalledFromNamed: fn is (inside) a function named `name`, or every static call of it in the module
// comes from such a function (transitively, depth <= 3).
func onlyCalledFromNamed(w *World, fn *ssa.Function, name string, depth int) bool {
	if fn == nil || depth > 3 {
		return false
	}
	f0 := fn
	for f0.Parent() != nil {
		f0 = f0.Parent()
	}
	if o := fnObj(f0); o != nil && o.Name() == name {
		return true
	}
	obj := fnObj(fn)
	if obj == nil {
		return false
	}
	n := 0
	for _, caller := range sortedModuleFuncs(w, w.SSA()) {
		for _, c := range callsIn(caller) {
			if sCallee(c) == obj && !c.Common().IsInvoke() {
				if _, isGo := c.(*ssa.Go); isGo {
					return false
				}
				n++
				if !onlyCalledFromNamed(w, caller, name, depth+1) {
					return false
				}
			}
		}
	}
	return n > 0
}

// dominatedByErrNonNil: instruction lies on the "err != nil" side of a nil test of errv.
func dominatedByErrNonNil(fn *ssa.Function, in ssa.Instruction, errv ssa.Value) bool {
	for _, b := range fn.Blocks {
		if len(b.Instrs) == 0 {
			continue
		}
		ifi, ok := b.Instrs[len(b.Instrs)-1].(*ssa.If)
		if !ok {
			continue
		}
		x, eqNil, ok := nilTest(ifi.Cond)
		if !ok {
			continue
		}
		same := x == errv
		if !same {
			for _, root := range provenance(x, provOpts{}) {
				if root == errv {
					same = true
				}
			}
		}
		if !same {
			continue
		}
		succ := 0
		if eqNil {
			succ = 1
		}
		if edgeDominates(b, succ, in.Block()) {
			return true
		}
	}
	return false
}

// ruleSmuxBuffers: smux v1 shares ONE receive token bucket (MaxReceiveBuffer, default 4 MiB) between all
// streams of a session and stops reading the carrier while it is empty. Reducing it lets a single logical
// connection whose consumer is slow freeze every other logical connection. The per-stream buffer
// (MaxStreamBuffer, default 64 KiB) bounds what one stream can hold; it must stay below the shared bucket.
func ruleSmuxBuffers(w *World, r *Report, rule string) {
	const defRecv, defStream = 4194304, 65536
	n := 0
	var bad []string
	for _, fn := range sortedModuleFuncs(w, w.SSA()) {
		allInstrs(fn, func(in ssa.Instruction) {
			st, ok := in.(*ssa.Store)
			if !ok {
				return
			}
			fa := asFieldAddr(st.Addr)
			if fa == nil {
				return
			}
			fv := fieldVarOf(fa)
			if fv == nil || fv.Pkg() == nil || fv.Pkg().Path() != "github.com/xtaci/smux" {
				return
			}
			switch fv.Name() {
			case "MaxReceiveBuffer":
				n++
				v, isC := constIntVal(st.Val)
				if !isC {
					bad = append(bad, fmt.Sprintf("%s: MaxReceiveBuffer is set to a non-constant value", w.Pos(st.Pos())))
				} else if v < defRecv {
					bad = append(bad, fmt.Sprintf("%s: MaxReceiveBuffer = %d is below smux's default of %d: the bucket is shared by all streams of the session, so one logical connection holding that much unread data stops the session's receive loop — every other logical connection (and every new open) hangs", w.Pos(st.Pos()), v, defRecv))
				}
			case "MaxStreamBuffer":
				n++
				v, isC := constIntVal(st.Val)
				if !isC {
					bad = append(bad, fmt.Sprintf("%s: MaxStreamBuffer is set to a non-constant value", w.Pos(st.Pos())))
				} else if v > defRecv/2 {
					bad = append(bad, fmt.Sprintf("%s: MaxStreamBuffer = %d lets one stream take more than half of the shared receive bucket", w.Pos(st.Pos()), v))
				}
				_ = defStream
			}
		})
	}
	sort.Strings(bad)
	r.Check(len(bad) == 0, rule, "smux:receive-buffers", "-", fmt.Sprintf("%d override(s) of the smux receive buffers; the shared bucket keeps at least the library default", n), strings.Join(bad, "; "))
}

// ruleRouterMiddleware: the websocket endpoint handler does not return after the upgrade — it runs the whole
// session (handshake reads included) inside the HTTP request. Middleware that limits requests in flight or
// their duration therefore limits PEERS: stalled peers hold the tokens and everybody else gets 503, or
// sessions are cut after the time-out.
func ruleRouterMiddleware(w *World, r *Report, rule string) {
	deny := map[string]string{"Throttle": "bounds the number of requests in flight", "ThrottleBacklog": "bounds the number of requests in flight",
		"ThrottleWithOpts": "bounds the number of requests in flight", "Timeout": "bounds the duration of a request"}
	n := 0
	var bad []string
	for _, fn := range sortedModuleFuncs(w, w.SSA()) {
		f0 := fn
		for f0.Parent() != nil {
			f0 = f0.Parent()
		}
		if f0.Pkg == nil || f0.Pkg.Pkg.Path() != modPath+"/internal/server" {
			continue
		}
		for _, c := range callsIn(fn) {
			cc := c.Common()
			name := ""
			if cc.IsInvoke() {
				name = cc.Method.Name()
			} else if f := sCallee(c); f != nil {
				name = f.Name()
			}
			if name != "Use" && name != "With" {
				continue
			}
			// the variadic middleware list: every value stored into the varargs array
			for _, a := range cc.Args {
				sl, ok := a.(*ssa.Slice)
				if !ok {
					continue
				}
				al, ok := sl.X.(*ssa.Alloc)
				if !ok {
					continue
				}
				for _, ref := range *al.Referrers() {
					ia, ok := ref.(*ssa.IndexAddr)
					if !ok {
						continue
					}
					for _, r2 := range *ia.Referrers() {
						st, ok := r2.(*ssa.Store)
						if !ok {
							continue
						}
						n++
						for _, root := range provenance(st.Val, provOpts{}) {
							var mf *types.Func
							switch x := root.(type) {
							case *ssa.Function:
								mf = fnObj(x)
							case *ssa.Call:
								mf = sCallee(x) // a middleware constructor such as Throttle(n)
							}
							if mf == nil || mf.Pkg() == nil || !strings.Contains(mf.Pkg().Path(), "chi") {
								continue
							}
							if why, isDenied := deny[mf.Name()]; isDenied {
								bad = append(bad, fmt.Sprintf("%s: middleware.%s %s, but this router's handlers run a whole tunnel session (and the peer's handshake) inside the request: peers that stall in the handshake hold the tokens and every other peer is answered 503 / sessions are cut", w.Pos(c.Pos()), mf.Name(), why))
							}
						}
					}
				}
			}
		}
	}
	sort.Strings(bad)
	r.Check(len(bad) == 0 && n > 0, rule, "router:server|middleware", "-", fmt.Sprintf("%d middleware value(s) installed, none limits requests in flight or their duration", n), strings.Join(bad, "; ")+mapStr(n == 0, "no router middleware found (anchor moved?)"))
}
